// simcore: plans (explicit operation / fault / knob records), run context, engine registry.
#pragma once
#include "rng.h"

#include <algorithm>
#include <cstdarg>
#include <cstring>
#include <cstdint>
#include <cstdio>
#include <functional>
#include <map>
#include <set>
#include <string>
#include <vector>

namespace sim {

enum class Tier { QUICK, THOROUGH };

/** One explicit operation (or fault) of a plan. References inside `a` are interpreted modulo what
 *  exists when the op executes, so deleting any op leaves a valid plan (needed for ddmin). */
struct Op {
    int kind{0};
    std::vector<int64_t> a;
    Op() = default;
    Op(int k, std::initializer_list<int64_t> args) : kind(k), a(args) {}
    int64_t arg(size_t i, int64_t dflt = 0) const { return i < a.size() ? a[i] : dflt; }
    /** argument reduced into [0,n) */
    uint64_t mod(size_t i, uint64_t n) const { return n == 0 ? 0 : (uint64_t)arg(i) % n; }
};

struct Plan {
    std::string prop;
    uint64_t seed{0};
    std::map<std::string, int64_t> knobs;
    std::vector<Op> ops;
    int64_t knob(const std::string& k, int64_t dflt = 0) const
    {
        auto it = knobs.find(k);
        return it == knobs.end() ? dflt : it->second;
    }
};

std::string PlanToJson(const Plan& p, const std::string& extra_fields = "");
bool PlanFromJson(const std::string& text, Plan& out, std::string& err);

struct Violation {
    std::string cls;
    std::string detail;
};

/** FNV/mix based running hash of the trace; cheap and good enough as a determinism witness. */
struct TraceHash {
    uint64_t h{0x243f6a8885a308d3ULL};
    uint64_t n{0};
    void add(const void* p, size_t len)
    {
        const unsigned char* c = (const unsigned char*)p;
        uint64_t x = h;
        for (size_t i = 0; i < len; ++i) { x ^= c[i]; x *= 1099511628211ULL; }
        h = mix64(x, ++n);
    }
};

class Ctx
{
public:
    const Plan& plan;
    Tier tier;
    TraceHash trace;
    std::map<std::string, uint64_t> probes;
    std::map<std::string, uint64_t> faults;
    std::set<uint64_t> fps;
    bool nontrivial{false};
    uint64_t sim_ms{0};     //!< simulated time covered by this run
    uint64_t sched_points{0};
    bool verbose{false};
    std::vector<std::string> log; //!< only when verbose (replay)
    char last_event[256]{0};

    Ctx(const Plan& p, Tier t) : plan(p), tier(t) {}

    void ev(const std::string& s)
    {
        trace.add(s.data(), s.size());
        size_t n = std::min(s.size(), sizeof(last_event) - 1);
        memcpy(last_event, s.data(), n);
        last_event[n] = 0;
        if (verbose) log.push_back(s);
    }
    void evf(const char* fmt, ...) __attribute__((format(printf, 2, 3)))
    {
        char buf[1024];
        va_list ap;
        va_start(ap, fmt);
        vsnprintf(buf, sizeof buf, fmt, ap);
        va_end(ap);
        ev(buf);
    }
    void probe(const char* name, uint64_t n = 1) { probes[name] += n; }
    void fault(const char* name, uint64_t n = 1) { faults[name] += n; }
    void fingerprint(uint64_t fp)
    {
        if (fps.size() < 64) fps.insert(fp);
    }
    [[noreturn]] void fail(const std::string& cls, const std::string& detail) { throw Violation{cls, detail}; }
    [[noreturn]] void failf(const char* cls, const char* fmt, ...) __attribute__((format(printf, 3, 4)))
    {
        char buf[2048];
        va_list ap;
        va_start(ap, fmt);
        vsnprintf(buf, sizeof buf, fmt, ap);
        va_end(ap);
        throw Violation{cls, buf};
    }
    int64_t knob(const std::string& k, int64_t dflt = 0) const { return plan.knob(k, dflt); }
};

struct Engine {
    std::string prop;        //!< "C34"
    std::string name;        //!< "compsim/txrequest"
    std::string level;       //!< exploration | fault_enumeration
    Plan (*gen)(uint64_t seed, Tier tier){nullptr};
    void (*run)(Ctx&){nullptr};
    std::string (*describe)(const Op&){nullptr};
    int chunk{1};            //!< runs per forked child
    int quick_runs{100};
    int thorough_runs{1000};
    int quick_budget_s{75};
    int thorough_budget_s{1200};
    int run_timeout_s{120};  //!< real-time watchdog per child chunk without output
    std::string rule;        //!< evidence: how cases are generated and what makes one distinct / non-trivial
    std::vector<std::string> real_components, stub_components, assumptions;
    std::vector<std::string> expected_probes; //!< reported as unreached_probes if zero
    void (*init)(){nullptr}; //!< zygote-time initialisation (optional)
};

void RegisterEngine(const Engine& e);
const Engine* FindEngine(const std::string& prop);
const std::vector<Engine>& AllEngines();

struct EngineRegistrar {
    explicit EngineRegistrar(const Engine& e) { RegisterEngine(e); }
};

/** Process-wide one-time setup of bitcoin globals (ECC, params, logging); idempotent. */
void InitBitcoinGlobals();

/** Put every bitcoin-side source of randomness/time into its deterministic mode for this run. */
void ResetDeterminism(uint64_t seed);

/** Scratch directory of the current run (tmpfs), created on demand and removed by the runner. */
std::string RunDir();

std::string HexU64(uint64_t v);

} // namespace sim

#define SIM_REGISTER_ENGINE(var) static ::sim::EngineRegistrar var##_registrar{var}
