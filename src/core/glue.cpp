// Glue between simcore and bitcoin's process-wide state.
#include "sim.h"

#include <chainparams.h>
#include <common/args.h>
#include <common/system.h>
#include <key.h>
#include <logging.h>
#include <random.h>
#include <uint256.h>
#include <util/chaintype.h>
#include <util/time.h>
#include <util/translation.h>

#include <memory>

const TranslateFn G_TRANSLATION_FUN{nullptr};

extern void MakeRandDeterministicDANGEROUS(const uint256& seed) noexcept;

namespace sim {

static std::unique_ptr<ECC_Context> g_ecc;

void InitBitcoinGlobals()
{
    static bool done = false;
    if (done) return;
    done = true;
    SetupEnvironment();
    if (getenv("VERIF_LOG")) {
        LogInstance().m_print_to_console = true;
        LogInstance().m_print_to_file = false;
        LogInstance().EnableCategory(BCLog::ALL);
        LogInstance().SetLogLevel(BCLog::Level::Trace);
        LogInstance().StartLogging();
    } else {
        LogInstance().DisableLogging();
    }
    SelectParams(ChainType::REGTEST);
    g_ecc = std::make_unique<ECC_Context>();
}

void ResetDeterminism(uint64_t seed)
{
    uint256 s;
    uint64_t x = seed;
    for (int i = 0; i < 4; ++i) {
        uint64_t v = splitmix64(x);
        memcpy(s.begin() + 8 * i, &v, 8);
    }
    MakeRandDeterministicDANGEROUS(s);
    // 2030-01-01 as the default simulated epoch; engines move it as they like.
    SetMockTime(std::chrono::seconds{1893456000});
    MockableSteadyClock::SetMockTime(std::chrono::milliseconds{1'000'000});
}

} // namespace sim
