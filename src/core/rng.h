// simcore: the one PRNG every simulated choice is drawn from.
// splitmix64 seeding -> xoshiro256**. Forkable sub-streams so that adding a fault kind does
// not shift the workload of existing seeds.
#pragma once
#include <cstdint>
#include <cstring>
#include <initializer_list>
#include <string_view>
#include <vector>

namespace sim {

inline uint64_t splitmix64(uint64_t& x)
{
    uint64_t z = (x += 0x9e3779b97f4a7c15ULL);
    z = (z ^ (z >> 30)) * 0xbf58476d1ce4e5b9ULL;
    z = (z ^ (z >> 27)) * 0x94d049bb133111ebULL;
    return z ^ (z >> 31);
}

inline uint64_t mix64(uint64_t a, uint64_t b)
{
    uint64_t x = a ^ (b * 0x9e3779b97f4a7c15ULL + 0x7f4a7c15ULL);
    uint64_t r = splitmix64(x);
    x ^= b;
    return r ^ splitmix64(x);
}

inline uint64_t strhash(std::string_view s)
{
    uint64_t h = 1469598103934665603ULL;
    for (unsigned char c : s) { h ^= c; h *= 1099511628211ULL; }
    return h;
}

class Rng
{
    uint64_t s[4];
    static uint64_t rotl(uint64_t x, int k) { return (x << k) | (x >> (64 - k)); }

public:
    explicit Rng(uint64_t seed = 1) { reseed(seed); }
    void reseed(uint64_t seed)
    {
        uint64_t x = seed;
        for (auto& v : s) v = splitmix64(x);
    }
    uint64_t next()
    {
        const uint64_t result = rotl(s[1] * 5, 7) * 9;
        const uint64_t t = s[1] << 17;
        s[2] ^= s[0]; s[3] ^= s[1]; s[1] ^= s[2]; s[0] ^= s[3];
        s[2] ^= t; s[3] = rotl(s[3], 45);
        return result;
    }
    /** uniform in [0,n) ; n==0 -> 0 */
    uint64_t below(uint64_t n)
    {
        if (n <= 1) return 0;
        // rejection sampling, unbiased
        uint64_t lim = UINT64_MAX - (UINT64_MAX % n);
        uint64_t v;
        do { v = next(); } while (v >= lim);
        return v % n;
    }
    /** uniform in [lo,hi] inclusive */
    int64_t range(int64_t lo, int64_t hi)
    {
        if (hi <= lo) return lo;
        return lo + (int64_t)below((uint64_t)(hi - lo) + 1);
    }
    bool chance(uint64_t num, uint64_t den) { return below(den) < num; }
    bool coin() { return next() & 1; }
    /** weighted pick: returns index */
    size_t pick(const std::vector<uint32_t>& w)
    {
        uint64_t tot = 0;
        for (auto v : w) tot += v;
        if (tot == 0) return 0;
        uint64_t r = below(tot);
        for (size_t i = 0; i < w.size(); ++i) {
            if (r < w[i]) return i;
            r -= w[i];
        }
        return w.size() - 1;
    }
    size_t pick(std::initializer_list<uint32_t> w) { return pick(std::vector<uint32_t>(w)); }
    /** small numbers likely, big numbers possible: geometric-ish in [lo,hi] */
    int64_t skewed(int64_t lo, int64_t hi)
    {
        if (hi <= lo) return lo;
        int64_t span = hi - lo;
        int bits = 0;
        while ((span >> bits) > 0) ++bits;
        int b = (int)below(bits + 1);
        int64_t cap = b >= 62 ? span : std::min<int64_t>(span, (int64_t(1) << b));
        return lo + (int64_t)below((uint64_t)cap + 1);
    }
    void fill(unsigned char* p, size_t n)
    {
        while (n >= 8) { uint64_t v = next(); memcpy(p, &v, 8); p += 8; n -= 8; }
        if (n) { uint64_t v = next(); memcpy(p, &v, n); }
    }
    /** independent sub-stream */
    Rng fork(std::string_view tag)
    {
        return Rng(mix64(next(), strhash(tag)));
    }
};

} // namespace sim
