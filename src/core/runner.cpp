// simcore runner: seeded batches in forked children, determinism double-runs, violation gate,
// ddmin minimiser, replay files, evidence files, known findings.
#include "sim.h"

#include <univalue.h>

#include <cassert>
#include <chrono>
#include <csignal>
#include <cstdlib>
#include <cstring>
#include <deque>
#include <filesystem>
#include <dirent.h>
#include <fcntl.h>
#include <fstream>
#include <poll.h>
#include <sstream>
#include <sys/personality.h>
#include <sys/stat.h>
#include <sys/wait.h>
#include <unistd.h>

namespace sim {

// ---------------------------------------------------------------------------------------------
// registry
static std::vector<Engine>& Engines()
{
    static std::vector<Engine> v;
    return v;
}
void RegisterEngine(const Engine& e) { Engines().push_back(e); }
const std::vector<Engine>& AllEngines() { return Engines(); }
const Engine* FindEngine(const std::string& prop)
{
    for (auto& e : Engines())
        if (e.prop == prop) return &e;
    return nullptr;
}

std::string HexU64(uint64_t v)
{
    char b[20];
    snprintf(b, sizeof b, "%016llx", (unsigned long long)v);
    return b;
}

// ---------------------------------------------------------------------------------------------
// JSON helpers
static std::string JEsc(const std::string& s)
{
    std::string o;
    o.reserve(s.size() + 2);
    for (unsigned char c : s) {
        switch (c) {
        case '"': o += "\\\""; break;
        case '\\': o += "\\\\"; break;
        case '\n': o += "\\n"; break;
        case '\r': o += "\\r"; break;
        case '\t': o += "\\t"; break;
        default:
            if (c < 0x20 || c >= 0x7f) {
                char b[8];
                snprintf(b, sizeof b, "\\u%04x", c);
                o += b;
            } else
                o += (char)c;
        }
    }
    return o;
}
static std::string JStr(const std::string& s) { return "\"" + JEsc(s) + "\""; }

std::string PlanToJson(const Plan& p, const std::string& extra)
{
    std::ostringstream o;
    o << "{\"property\":" << JStr(p.prop) << ",\"seed\":" << p.seed << ",\"knobs\":{";
    bool first = true;
    for (auto& [k, v] : p.knobs) {
        if (!first) o << ",";
        first = false;
        o << JStr(k) << ":" << v;
    }
    o << "},\"ops\":[";
    for (size_t i = 0; i < p.ops.size(); ++i) {
        if (i) o << ",";
        o << "[" << p.ops[i].kind;
        for (auto v : p.ops[i].a) o << "," << v;
        o << "]";
    }
    o << "]";
    if (!extra.empty()) o << "," << extra;
    o << "}";
    return o.str();
}

bool PlanFromJson(const std::string& text, Plan& out, std::string& err)
{
    UniValue v;
    if (!v.read(text) || !v.isObject()) { err = "not a JSON object"; return false; }
    try {
        out.prop = v["property"].get_str();
        out.seed = (uint64_t)std::stoull(v["seed"].getValStr());
        out.knobs.clear();
        out.ops.clear();
        const UniValue& k = v["knobs"];
        if (k.isObject()) {
            for (auto& key : k.getKeys()) out.knobs[key] = std::stoll(k[key].getValStr());
        }
        const UniValue& ops = v["ops"];
        for (size_t i = 0; i < ops.size(); ++i) {
            const UniValue& a = ops[i];
            Op op;
            op.kind = (int)std::stoll(a[0].getValStr());
            for (size_t j = 1; j < a.size(); ++j) op.a.push_back(std::stoll(a[j].getValStr()));
            out.ops.push_back(op);
        }
    } catch (const std::exception& e) {
        err = e.what();
        return false;
    }
    return true;
}

// ---------------------------------------------------------------------------------------------
// run dir
static std::string g_root_dir;  // /dev/shm/verifsim.<pid of top process>
static std::string g_run_dir;
static int g_run_dir_serial = 0;

std::string RunDir()
{
    if (g_run_dir.empty()) {
        // fixed-width names: path lengths (hence allocation sizes) must not depend on the pid
        char name[64];
        snprintf(name, sizeof name, "/r%08d_%04d", (int)getpid(), ++g_run_dir_serial);
        g_run_dir = g_root_dir + name;
        mkdir(g_root_dir.c_str(), 0700);
        mkdir(g_run_dir.c_str(), 0700);
    }
    return g_run_dir;
}
static void RmRf(const std::string& path)
{
    if (path.size() < 12 || path.find("/dev/shm/verifsim.") != 0) return;
    std::error_code ec;
    std::filesystem::remove_all(path, ec);
}
static void DropRunDir()
{
    if (!g_run_dir.empty()) {
        RmRf(g_run_dir);
        g_run_dir.clear();
    }
}

// ---------------------------------------------------------------------------------------------
struct RunOut {
    long idx{-1};
    uint64_t seed{0};
    bool ok{false};       //!< a result was produced (child did not die)
    bool violated{false};
    std::string cls, detail;
    uint64_t trace_hash{0};
    uint64_t trace_len{0};
    bool nontrivial{false};
    std::vector<uint64_t> fps;
    std::map<std::string, uint64_t> probes, faults;
    uint64_t sim_ms{0};
    uint64_t sched_points{0};
    size_t nops{0};
    std::string sample; //!< JSON array of described ops (only for a few runs)
    std::vector<std::string> log;
};

static volatile long g_cur_idx = -1;
static Ctx* volatile g_cur_ctx = nullptr;
static int g_out_fd = -1;

static void CrashHandler(int sig)
{
    char buf[512];
    const char* le = g_cur_ctx ? g_cur_ctx->last_event : "";
    int n = snprintf(buf, sizeof buf, "X\t%ld\t%d\t", (long)g_cur_idx, sig);
    for (const char* p = le; *p && n < (int)sizeof(buf) - 2; ++p) buf[n++] = (*p == '\n' || *p == '\t') ? ' ' : *p;
    buf[n++] = '\n';
    if (g_out_fd >= 0) { ssize_t r = write(g_out_fd, buf, n); (void)r; }
    _exit(70);
}

static std::string DescribeOps(const Engine& e, const Plan& p, size_t max_ops = 60)
{
    std::ostringstream o;
    o << "{\"seed\":" << p.seed << ",\"knobs\":{";
    bool first = true;
    for (auto& [k, v] : p.knobs) {
        if (!first) o << ",";
        first = false;
        o << JStr(k) << ":" << v;
    }
    o << "},\"n_ops\":" << p.ops.size() << ",\"ops\":[";
    for (size_t i = 0; i < p.ops.size() && i < max_ops; ++i) {
        if (i) o << ",";
        std::string d;
        if (e.describe) d = e.describe(p.ops[i]);
        else {
            d = "op" + std::to_string(p.ops[i].kind) + "(";
            for (size_t j = 0; j < p.ops[i].a.size(); ++j) d += (j ? "," : "") + std::to_string(p.ops[i].a[j]);
            d += ")";
        }
        o << JStr(d);
    }
    o << "]}";
    return o.str();
}

static RunOut RunOne(const Engine& e, const Plan& plan, Tier tier, bool verbose, bool want_sample)
{
    RunOut out;
    out.seed = plan.seed;
    out.nops = plan.ops.size();
    Ctx ctx(plan, tier);
    ctx.verbose = verbose;
    g_cur_ctx = &ctx;
    ResetDeterminism(plan.seed);
    try {
        e.run(ctx);
    } catch (const Violation& v) {
        out.violated = true;
        out.cls = v.cls;
        out.detail = v.detail;
    } catch (const std::exception& ex) {
        out.violated = true;
        out.cls = "exception";
        out.detail = ex.what();
    }
    g_cur_ctx = nullptr;
    out.ok = true;
    out.trace_hash = ctx.trace.h;
    out.trace_len = ctx.trace.n;
    out.nontrivial = ctx.nontrivial;
    out.fps.assign(ctx.fps.begin(), ctx.fps.end());
    out.probes = ctx.probes;
    out.faults = ctx.faults;
    out.sim_ms = ctx.sim_ms;
    out.sched_points = ctx.sched_points;
    out.log = std::move(ctx.log);
    if (want_sample) out.sample = DescribeOps(e, plan);
    DropRunDir();
    return out;
}

// Result lines child -> parent: fields separated by 0x1f, strings sanitised. (A hand-rolled format: with sub-millisecond
// runs the parent parses >10k lines per second and a JSON parser made it the bottleneck.)
static std::string San(const std::string& s)
{
    std::string o = s;
    for (auto& c : o)
        if (c == '\n' || c == '\t' || c == '\x1f' || c == '\r') c = ' ';
    return o;
}
static std::string OutToLine(const RunOut& r)
{
    std::string o = "R\t";
    const char S = '\x1f';
    o += std::to_string(r.idx); o += S;
    o += std::to_string(r.seed); o += S;
    o += r.violated ? "1" : "0"; o += S;
    o += std::to_string(r.trace_hash); o += S;
    o += std::to_string(r.trace_len); o += S;
    o += r.nontrivial ? "1" : "0"; o += S;
    o += std::to_string(r.sim_ms); o += S;
    o += std::to_string(r.sched_points); o += S;
    o += std::to_string(r.nops); o += S;
    for (size_t i = 0; i < r.fps.size(); ++i) { if (i) o += ','; o += std::to_string(r.fps[i]); }
    o += S;
    for (auto& [k, v] : r.probes) { o += San(k); o += '='; o += std::to_string(v); o += ','; }
    o += S;
    for (auto& [k, v] : r.faults) { o += San(k); o += '='; o += std::to_string(v); o += ','; }
    o += S;
    o += San(r.cls); o += S;
    o += San(r.detail); o += S;
    o += San(r.sample); o += S;
    for (auto& l : r.log) { o += San(l); o += '\x1e'; }
    o += '\n';
    return o;
}

static bool LineToOut(const std::string& line, RunOut& r)
{
    std::vector<std::string> f;
    size_t start = 0;
    for (;;) {
        size_t p = line.find('\x1f', start);
        if (p == std::string::npos) { f.push_back(line.substr(start)); break; }
        f.push_back(line.substr(start, p - start));
        start = p + 1;
    }
    if (f.size() < 16) return false;
    try {
        r.idx = std::stol(f[0]);
        r.seed = std::stoull(f[1]);
        r.violated = f[2] == "1";
        r.trace_hash = std::stoull(f[3]);
        r.trace_len = std::stoull(f[4]);
        r.nontrivial = f[5] == "1";
        r.sim_ms = std::stoull(f[6]);
        r.sched_points = std::stoull(f[7]);
        r.nops = std::stoull(f[8]);
        auto kv = [](const std::string& s, std::map<std::string, uint64_t>& m) {
            size_t st = 0;
            while (st < s.size()) {
                size_t c = s.find(',', st);
                if (c == std::string::npos) c = s.size();
                size_t e = s.find('=', st);
                if (e != std::string::npos && e < c) m[s.substr(st, e - st)] = std::stoull(s.substr(e + 1, c - e - 1));
                st = c + 1;
            }
        };
        {
            const std::string& s = f[9];
            size_t st = 0;
            while (st < s.size()) {
                size_t c = s.find(',', st);
                if (c == std::string::npos) c = s.size();
                r.fps.push_back(std::stoull(s.substr(st, c - st)));
                st = c + 1;
            }
        }
        kv(f[10], r.probes);
        kv(f[11], r.faults);
        r.cls = f[12];
        r.detail = f[13];
        r.sample = f[14];
        {
            const std::string& s = f[15];
            size_t st = 0;
            while (st < s.size()) {
                size_t c = s.find('\x1e', st);
                if (c == std::string::npos) break;
                r.log.push_back(s.substr(st, c - st));
                st = c + 1;
            }
        }
    } catch (const std::exception&) {
        return false;
    }
    r.ok = true;
    return true;
}

// ---------------------------------------------------------------------------------------------
// child management

struct WorkItem {
    long idx;           //!< run index (position in results vector)
    uint64_t seed;      //!< run seed (plan generated from it) ...
    const Plan* plan;   //!< ... or explicit plan
    bool want_sample;
    bool verbose;
};

struct Child {
    pid_t pid{-1};
    int fd{-1};
    std::vector<WorkItem> items;
    size_t done{0};
    std::string buf;
    std::string errfile;
    std::chrono::steady_clock::time_point last;
};

static uint64_t RunSeed(uint64_t base, const std::string& prop, long i) { return mix64(mix64(base, strhash(prop)), (uint64_t)i + 1); }

static std::string g_self;       // path of this executable
static int g_plan_serial = 0;

/** Children are fresh processes (fork + exec of this binary with ASLR off), not forks of the evolving parent:
 *  their heap layout, hence every pointer value (bitcoin breaks ties between equal-work tips loaded from disk by
 *  CBlockIndex address), is then a function of the work they are given and not of how much the parent has
 *  allocated so far. The work description travels over a pipe on fd 3, results come back on fd 4. */
static Child SpawnChild(const Engine& e, Tier tier, std::vector<WorkItem> items)
{
    Child c;
    int p[2], w[2];
    if (pipe(p) != 0 || pipe(w) != 0) { perror("pipe"); exit(2); }
    c.errfile = g_root_dir + "/stderr." + std::to_string(items[0].idx) + "." + std::to_string(++g_plan_serial);
    // serialise the work: one line per item "idx seed want_sample verbose planfile|-"
    std::string work;
    for (auto& it : items) {
        std::string planfile = "-";
        if (it.plan) {
            planfile = g_root_dir + "/plan." + std::to_string(++g_plan_serial) + ".json";
            std::ofstream f(planfile);
            f << PlanToJson(*it.plan) << "\n";
        }
        work += std::to_string(it.idx) + " " + std::to_string(it.plan ? it.plan->seed : it.seed) + " " + (it.want_sample ? "1" : "0") + " " + (it.verbose ? "1" : "0") + " " + planfile + "\n";
    }
    fflush(stdout);
    fflush(stderr);
    pid_t pid = fork();
    if (pid < 0) { perror("fork"); exit(2); }
    if (pid == 0) {
        close(p[0]);
        close(w[1]);
        if (w[0] != 3) { dup2(w[0], 3); close(w[0]); }
        if (p[1] != 4) { dup2(p[1], 4); close(p[1]); }
        setenv("VERIFSIM_ROOT", g_root_dir.c_str(), 1);
        const char* tier_s = tier == Tier::QUICK ? "quick" : "thorough";
        execl(g_self.c_str(), g_self.c_str(), "child", e.prop.c_str(), tier_s, c.errfile.c_str(), (char*)nullptr);
        _exit(72);
    }
    close(p[1]);
    close(w[0]);
    {
        size_t off = 0;
        while (off < work.size()) {
            ssize_t n = write(w[1], work.data() + off, work.size() - off);
            if (n <= 0) break;
            off += n;
        }
        close(w[1]);
    }
    c.pid = pid;
    c.fd = p[0];
    c.items = std::move(items);
    c.last = std::chrono::steady_clock::now();
    return c;
}

/** Body of a child process: read the work from fd 3, run it, write result lines to fd 4. */
// Runs of engines with chunk == 1 get their plan as canonical JSON text produced by a forked helper (which generates it from the
// seed, or parses and re-serialises a replay file): the child's own heap then sees exactly the same allocation sequence whether the
// plan came from a seed (batch run) or from a file (gate re-run, minimiser, replay). Pointer-order dependent behaviour of the code under
// test (std::set<T*> iteration, equal-work tie-breaks) would otherwise differ between finding a violation and replaying it.
static bool CanonicalPlanViaHelper(const Engine& e, Tier tier, uint64_t seed, const char* planfile, const char* outpath)
{
    pid_t pid = fork();
    if (pid < 0) return false;
    if (pid == 0) {
        Plan p;
        if (strcmp(planfile, "-") != 0) {
            std::ifstream f(planfile);
            std::stringstream ss;
            ss << f.rdbuf();
            std::string err;
            if (!PlanFromJson(ss.str(), p, err)) _exit(74);
        } else {
            p = e.gen(seed, tier);
            p.prop = e.prop;
            p.seed = seed;
        }
        std::string js = PlanToJson(p);
        int fd = open(outpath, O_WRONLY | O_CREAT | O_TRUNC, 0600);
        if (fd < 0) _exit(75);
        size_t off = 0;
        while (off < js.size()) {
            ssize_t w = write(fd, js.data() + off, js.size() - off);
            if (w <= 0) _exit(75);
            off += (size_t)w;
        }
        close(fd);
        _exit(0);
    }
    int st = 0;
    while (waitpid(pid, &st, 0) < 0 && errno == EINTR) {}
    return WIFEXITED(st) && WEXITSTATUS(st) == 0;
}

static int ChildMain(const std::string& prop, Tier tier, const std::string& errfile)
{
    const Engine* ep = FindEngine(prop);
    if (!ep) return 73;
    const Engine& e = *ep;
    {
        g_out_fd = 4;
        if (!getenv("VERIF_STDERR")) {
            int efd = open(errfile.c_str(), O_WRONLY | O_CREAT | O_TRUNC, 0600);
            if (efd >= 0) { dup2(efd, 2); close(efd); }
        }
        for (int s : {SIGABRT, SIGSEGV, SIGBUS, SIGFPE, SIGILL}) signal(s, CrashHandler);
        // read the whole work description into static storage (no heap use that depends on the batch)
        static char buf[1 << 20];
        size_t len = 0;
        for (;;) {
            ssize_t n = read(3, buf + len, sizeof(buf) - 1 - len);
            if (n <= 0) break;
            len += n;
        }
        buf[len] = 0;
        close(3);
        struct Item { long idx; uint64_t seed; int want_sample; int verbose; char planfile[256]; };
        static Item parsed[8192];
        size_t nitems = 0;
        for (char* line = buf; *line && nitems < 8192;) {
            char* nl = strchr(line, '\n');
            if (nl) *nl = 0;
            Item& it = parsed[nitems];
            unsigned long long seed = 0;
            if (sscanf(line, "%ld %llu %d %d %255s", &it.idx, &seed, &it.want_sample, &it.verbose, it.planfile) == 5) { it.seed = seed; ++nitems; }
            if (!nl) break;
            line = nl + 1;
        }
        if (e.init) e.init();
        for (size_t ii = 0; ii < nitems; ++ii) {
            struct { long idx; uint64_t seed; const Plan* plan; bool want_sample; bool verbose; } it{parsed[ii].idx, parsed[ii].seed, nullptr, parsed[ii].want_sample != 0, parsed[ii].verbose != 0};
            Plan explicit_plan;
            static char canon[300];
            const bool via_helper = e.chunk == 1 && !getenv("VERIF_NO_PLAN_HELPER");
            if (via_helper) {
                snprintf(canon, sizeof canon, "%s/plan%08d.json", g_root_dir.c_str(), (int)getpid());
                if (!CanonicalPlanViaHelper(e, tier, parsed[ii].seed, parsed[ii].planfile, canon)) _exit(74);
            }
            if (via_helper || strcmp(parsed[ii].planfile, "-") != 0) {
                std::ifstream f(via_helper ? canon : parsed[ii].planfile);
                std::stringstream ss;
                ss << f.rdbuf();
                std::string err;
                if (!PlanFromJson(ss.str(), explicit_plan, err)) _exit(74);
                it.plan = &explicit_plan;
                if (via_helper) unlink(canon);
            }
            g_cur_idx = it.idx;
            Plan gen;
            const Plan* plan = it.plan;
            if (!plan) {
                gen = e.gen(it.seed, tier);
                gen.prop = e.prop;
                gen.seed = it.seed;
                plan = &gen;
            }
            const char* dbg = getenv("VERIF_DET_DEBUG");
            RunOut r = RunOne(e, *plan, tier, it.verbose || dbg, it.want_sample);
            r.idx = it.idx;
            if (dbg) {
                // debugging aid for nondeterminism: one trace file per execution, to be diffed by hand
                std::ofstream f(std::string(dbg) + "/" + std::to_string(plan->seed) + "." + std::to_string(getpid()) + ".log");
                for (auto& l : r.log) f << l << "\n";
                r.log.clear();
            }
            std::string line = OutToLine(r);
            size_t off = 0;
            while (off < line.size()) {
                ssize_t w = write(g_out_fd, line.data() + off, line.size() - off);
                if (w <= 0) _exit(71);
                off += w;
            }
        }
        fflush(nullptr);
        _exit(0);
    }
    return 0;
}

static std::string Tail(const std::string& file, size_t n = 600)
{
    std::ifstream f(file);
    if (!f) return "";
    std::stringstream ss;
    ss << f.rdbuf();
    std::string s = ss.str();
    if (s.size() > n) s = s.substr(s.size() - n);
    for (auto& ch : s)
        if (ch == '\n' || ch == '\t') ch = ' ';
    return s;
}

/** Normalise an abort message into a stable class key: keep "file:line" / assertion text start. */
static std::string AbortClass(int sig, const std::string& errtail)
{
    std::string k = "abort:sig" + std::to_string(sig);
    auto pos = errtail.find("Assertion");
    if (pos == std::string::npos) pos = errtail.find("ssertion");
    if (pos == std::string::npos) pos = errtail.find("Internal bug");
    if (pos == std::string::npos && (pos = errtail.find("threadsim: ")) != std::string::npos) {
        // simulator-detected deadlock / livelock: keep only the verdict, not the thread dump
        size_t end = errtail.find(';', pos);
        return k + ":" + errtail.substr(pos, end == std::string::npos ? 60 : end - pos);
    }
    if (pos != std::string::npos) {
        std::string t = errtail.substr(pos, 160);
        k += ":" + t;
    }
    return k;
}

struct Batch {
    const Engine& e;
    Tier tier;
    int jobs;
    double budget_s;
    std::vector<RunOut> results;       //!< indexed by item idx
    size_t stalls{0};
    std::chrono::steady_clock::time_point t0;
    bool budget_hit{false};
    size_t nviol{0};          //!< violating runs seen so far
    size_t stop_after_viol{12}; //!< stop dispatching new chunks once this many runs violated
    std::vector<std::string> known_keys; //!< keys of this property's known findings: such runs do not count towards the early stop
    bool IsKnown(const RunOut& r) const
    {
        for (auto& k : known_keys)
            if (r.cls.find(k) != std::string::npos || r.detail.find(k) != std::string::npos) return true;
        return false;
    }
    size_t nknown{0};
    // running totals (only when `aggregate` is set: the primary batch, not duplicates / single-plan runs)
    bool aggregate{false};
    std::set<uint64_t> fps_nt, traces;
    std::map<std::string, uint64_t> probes, faults;
    uint64_t sim_ms{0}, sched_points{0}, total_ops{0};
    long nontrivial_runs{0};
    std::vector<std::string> samples;

    /** Run all items (chunked) across `jobs` children. */
    void Run(std::vector<WorkItem> items)
    {
        std::deque<std::vector<WorkItem>> chunks;
        for (size_t i = 0; i < items.size();) {
            std::vector<WorkItem> c;
            for (int k = 0; k < e.chunk && i < items.size(); ++k, ++i) c.push_back(items[i]);
            chunks.push_back(std::move(c));
        }
        std::vector<Child> live;
        auto elapsed = [&] { return std::chrono::duration<double>(std::chrono::steady_clock::now() - t0).count(); };
        while (!chunks.empty() || !live.empty()) {
            while (!chunks.empty() && (int)live.size() < jobs) {
                if (budget_s > 0 && elapsed() > budget_s) {
                    budget_hit = true;
                    chunks.clear();
                    break;
                }
                if (nviol >= stop_after_viol) {
                    chunks.clear();
                    break;
                }
                live.push_back(SpawnChild(e, tier, std::move(chunks.front())));
                chunks.pop_front();
            }
            if (live.empty()) break;
            std::vector<pollfd> pfds;
            for (auto& c : live) pfds.push_back({c.fd, POLLIN, 0});
            int pr = poll(pfds.data(), pfds.size(), 1000);
            if (pr < 0 && errno != EINTR) { perror("poll"); exit(2); }
            auto now = std::chrono::steady_clock::now();
            for (size_t ci = 0; ci < live.size();) {
                Child& c = live[ci];
                bool closed = false;
                if (pfds[ci].revents & (POLLIN | POLLHUP | POLLERR)) {
                    char buf[65536];
                    ssize_t n = read(c.fd, buf, sizeof buf);
                    if (n > 0) {
                        c.buf.append(buf, n);
                        c.last = now;
                        size_t pos;
                        while ((pos = c.buf.find('\n')) != std::string::npos) {
                            std::string line = c.buf.substr(0, pos);
                            c.buf.erase(0, pos + 1);
                            HandleLine(c, line);
                        }
                    } else if (n == 0) {
                        closed = true;
                    }
                }
                bool timed_out = !closed && std::chrono::duration<double>(now - c.last).count() > e.run_timeout_s;
                if (timed_out) {
                    kill(c.pid, SIGKILL);
                    closed = true;
                }
                if (closed) {
                    int st = 0;
                    waitpid(c.pid, &st, 0);
                    close(c.fd);
                    if (c.done < c.items.size()) {
                        // child died in item c.done
                        WorkItem& it = c.items[c.done];
                        RunOut& r = results[it.idx];
                        if (!r.ok) {
                            r.idx = it.idx;
                            r.seed = it.plan ? it.plan->seed : it.seed;
                            if (timed_out) {
                                r.ok = false; // simulator fault: stall
                                r.cls = "stall";
                                r.detail = "no output for " + std::to_string(e.run_timeout_s) + "s (real-time stall)";
                                ++stalls;
                            } else {
                                int sig = WIFSIGNALED(st) ? WTERMSIG(st) : 0;
                                int ec = WIFEXITED(st) ? WEXITSTATUS(st) : -1;
                                std::string tail = Tail(c.errfile);
                                r.ok = true;
                                r.violated = true;
                                ++nviol;
                                if (ec == 77) r.cls = "sanitizer";
                                else r.cls = AbortClass(sig ? sig : ec, tail);
                                r.detail = "child died (signal " + std::to_string(sig) + ", exit " + std::to_string(ec) + "): " + tail;
                            }
                        }
                        // re-dispatch the rest
                        std::vector<WorkItem> rest(c.items.begin() + c.done + 1, c.items.end());
                        if (!rest.empty()) chunks.push_front(std::move(rest));
                    }
                    unlink(c.errfile.c_str());
                    live.erase(live.begin() + ci);
                    pfds.erase(pfds.begin() + ci);
                } else {
                    ++ci;
                }
            }
        }
    }

    void HandleLine(Child& c, const std::string& line)
    {
        if (line.size() > 2 && line[0] == 'R' && line[1] == '\t') {
            RunOut r;
            if (LineToOut(line.substr(2), r) && r.idx >= 0 && (size_t)r.idx < results.size()) {
                if (r.violated) { if (IsKnown(r)) ++nknown; else ++nviol; }
                if (aggregate) {
                    // fold into the running totals and keep only what later stages need (memory: millions of runs)
                    traces.insert(r.trace_hash);
                    if (r.nontrivial) {
                        ++nontrivial_runs;
                        for (auto f : r.fps) fps_nt.insert(f);
                        if (r.fps.empty()) fps_nt.insert(r.trace_hash);
                    }
                    for (auto& [k, v] : r.probes) probes[k] += v;
                    for (auto& [k, v] : r.faults) faults[k] += v;
                    sim_ms += r.sim_ms;
                    sched_points += r.sched_points;
                    total_ops += r.nops;
                    if (!r.sample.empty() && samples.size() < 3) samples.push_back(r.sample);
                    r.fps.clear();
                    r.fps.shrink_to_fit();
                    r.probes.clear();
                    r.faults.clear();
                    r.sample.clear();
                    if (!r.violated) { r.detail.clear(); r.log.clear(); }
                }
                results[r.idx] = std::move(r);
                // advance done pointer
                while (c.done < c.items.size() && results[c.items[c.done].idx].ok) ++c.done;
            }
        } else if (line.size() > 2 && line[0] == 'X' && line[1] == '\t') {
            // crash record: X \t idx \t sig \t last_event
            std::istringstream is(line.substr(2));
            std::string sidx, ssig, le;
            std::getline(is, sidx, '\t');
            std::getline(is, ssig, '\t');
            std::getline(is, le);
            long idx = std::stol(sidx);
            if (idx >= 0 && (size_t)idx < results.size()) {
                RunOut& r = results[idx];
                r.idx = idx;
                r.ok = true;
                r.violated = true;
                ++nviol;
                std::string tail = Tail(c.errfile);
                r.cls = AbortClass(std::stoi(ssig), tail);
                r.detail = "signal " + ssig + " after event [" + le + "]: " + tail;
                for (auto& it : c.items)
                    if (it.idx == idx) r.seed = it.plan ? it.plan->seed : it.seed;
            }
        }
    }
};

/** Run a single explicit plan in a forked child; used by the gate, the minimiser and replay. */
static RunOut RunPlanForked(const Engine& e, const Plan& plan, Tier tier, bool verbose = false)
{
    Engine e1 = e;
    e1.chunk = 1;
    Batch b{e1, tier, 1, 0, {}, 0, std::chrono::steady_clock::now()};
    b.results.resize(1);
    b.Run({WorkItem{0, plan.seed, &plan, false, verbose}});
    return b.results[0];
}

// ---------------------------------------------------------------------------------------------
// ddmin over ops, restricted to one violation class

static Plan Minimise(const Engine& e, const Plan& plan, Tier tier, const std::string& cls, int max_evals, double max_s, int& evals)
{
    Plan best = plan;
    auto t0 = std::chrono::steady_clock::now();
    auto fails = [&](const Plan& p) {
        ++evals;
        RunOut r = RunPlanForked(e, p, tier);
        return r.ok && r.violated && r.cls == cls;
    };
    auto out_of_budget = [&] {
        return evals >= max_evals || std::chrono::duration<double>(std::chrono::steady_clock::now() - t0).count() > max_s;
    };
    size_t n = 2;
    while (best.ops.size() >= 2 && !out_of_budget()) {
        size_t len = best.ops.size();
        size_t chunk = (len + n - 1) / n;
        bool reduced = false;
        for (size_t start = 0; start < len && !out_of_budget(); start += chunk) {
            Plan cand = best;
            cand.ops.erase(cand.ops.begin() + start, cand.ops.begin() + std::min(len, start + chunk));
            if (cand.ops.empty()) continue;
            if (fails(cand)) {
                best = cand;
                n = std::max<size_t>(n - 1, 2);
                reduced = true;
                break;
            }
        }
        if (!reduced) {
            if (chunk == 1) break;
            n = std::min(n * 2, len);
        }
    }
    // try removing single ops once more from the end (cheap polish), and an empty plan
    for (size_t i = best.ops.size(); i-- > 0 && !out_of_budget();) {
        if (best.ops.size() <= 1) break;
        Plan cand = best;
        cand.ops.erase(cand.ops.begin() + i);
        if (fails(cand)) best = cand;
    }
    return best;
}

// ---------------------------------------------------------------------------------------------
// known findings

struct Finding {
    std::string prop, key, text;
};
static std::vector<Finding> LoadFindings(const std::string& path)
{
    std::vector<Finding> out;
    std::ifstream f(path);
    std::string line;
    while (std::getline(f, line)) {
        if (line.rfind("finding:", 0) != 0) continue;
        Finding fi;
        auto p = line.find("property=");
        auto k = line.find("key=");
        if (p == std::string::npos || k == std::string::npos) continue;
        fi.prop = line.substr(p + 9, line.find(' ', p) - (p + 9));
        // key is quoted or up to next space
        if (line[k + 4] == '"') {
            auto endq = line.find('"', k + 5);
            fi.key = line.substr(k + 5, endq - (k + 5));
            fi.text = endq + 1 < line.size() ? line.substr(endq + 1) : "";
        } else {
            auto end = line.find(' ', k);
            fi.key = line.substr(k + 4, end == std::string::npos ? std::string::npos : end - (k + 4));
            fi.text = end == std::string::npos ? "" : line.substr(end);
        }
        out.push_back(fi);
    }
    return out;
}

// ---------------------------------------------------------------------------------------------

static std::string g_verif_dir;  // /verif

static int CmdReplay(const std::string& file, bool quiet)
{
    std::ifstream f(file);
    if (!f) { fprintf(stderr, "cannot read %s\n", file.c_str()); return 2; }
    std::stringstream ss;
    ss << f.rdbuf();
    Plan plan;
    std::string err;
    if (!PlanFromJson(ss.str(), plan, err)) { fprintf(stderr, "bad replay file: %s\n", err.c_str()); return 2; }
    const Engine* e = FindEngine(plan.prop);
    if (!e) { fprintf(stderr, "unknown property %s\n", plan.prop.c_str()); return 2; }
    UniValue v;
    v.read(ss.str());
    Tier tier = (v.exists("tier") && v["tier"].get_str() == "thorough") ? Tier::THOROUGH : Tier::QUICK;
    RunOut r = RunPlanForked(*e, plan, tier, !quiet);
    if (!quiet)
        for (auto& l : r.log) printf("  | %s\n", l.c_str());
    printf("REPLAY property=%s seed=%llu ops=%zu trace_hash=%s violated=%d class=%s\n", plan.prop.c_str(), (unsigned long long)plan.seed,
           plan.ops.size(), HexU64(r.trace_hash).c_str(), r.violated ? 1 : 0, r.cls.c_str());
    if (!r.ok) { printf("simulator fault: %s %s\n", r.cls.c_str(), r.detail.c_str()); return 2; }
    if (r.violated) {
        printf("detail: %s\n", r.detail.c_str());
        printf("VIOLATION property=%s replay=%s\n", plan.prop.c_str(), file.c_str());
        return 1;
    }
    return 0;
}

static std::string ShellQuote(const std::string& s) { return "'" + s + "'"; }

static int CmdRun(const std::string& prop, Tier tier, uint64_t base_seed, int jobs, long runs_override, double budget_override, bool selftest_det)
{
    const Engine* ep = FindEngine(prop);
    if (!ep) { fprintf(stderr, "unknown property %s\n", prop.c_str()); return 2; }
    const Engine& e = *ep;
    auto t0 = std::chrono::steady_clock::now();
    long runs = tier == Tier::QUICK ? e.quick_runs : e.thorough_runs;
    if (runs_override > 0) runs = runs_override;
    double budget = tier == Tier::QUICK ? e.quick_budget_s : e.thorough_budget_s;
    if (budget_override > 0) budget = budget_override;
    printf("verifsim property=%s engine=%s tier=%s VERIF_SEED=%llu runs=%ld jobs=%d budget_s=%.0f\n", prop.c_str(), e.name.c_str(),
           tier == Tier::QUICK ? "quick" : "thorough", (unsigned long long)base_seed, runs, jobs, budget);
    fflush(stdout);

    // items: primary runs, then determinism duplicates (same seeds, different children / positions)
    long ndup = selftest_det ? runs : std::min<long>(std::max<long>(runs / 20, 8), tier == Tier::QUICK ? 40 : 400);
    if (ndup > runs) ndup = runs;
    std::vector<WorkItem> items;
    for (long i = 0; i < runs; ++i) items.push_back({i, RunSeed(base_seed, prop, i), nullptr, i < 3, false});
    Batch b{e, tier, jobs, budget, {}, 0, t0};
    b.aggregate = true;
    for (auto& f : LoadFindings(g_verif_dir + "/known_findings.txt"))
        if (f.prop == e.prop) b.known_keys.push_back(f.key);
    b.results.resize(runs + ndup);
    b.Run(items);
    long completed = 0;
    for (long i = 0; i < runs; ++i)
        if (b.results[i].ok) ++completed;
    // duplicates: spread over the completed prefix, dispatched in reverse order so chunk neighbours differ
    std::vector<WorkItem> dups;
    std::vector<long> dup_of;
    if (completed > 0) {
        long step = std::max<long>(1, completed / std::max<long>(1, ndup));
        for (long i = completed - 1, k = 0; i >= 0 && k < ndup; i -= step) {
            if (!b.results[i].ok) continue;
            dup_of.push_back(i);
            dups.push_back({runs + k, RunSeed(base_seed, prop, i), nullptr, false, false});
            ++k;
        }
        Batch b2{e, tier, jobs, 0, {}, 0, std::chrono::steady_clock::now()};
        b2.known_keys = b.known_keys;
        b2.results.resize(runs + ndup);
        b2.Run(dups);
        for (size_t k = 0; k < dups.size(); ++k) b.results[dups[k].idx] = b2.results[dups[k].idx];
        b.stalls += b2.stalls;
    }
    size_t det_checked = 0, det_mismatch = 0;
    std::vector<std::string> det_examples;
    for (size_t k = 0; k < dups.size(); ++k) {
        const RunOut& a = b.results[dup_of[k]];
        const RunOut& d = b.results[dups[k].idx];
        if (!a.ok || !d.ok) continue;
        ++det_checked;
        if (a.trace_hash != d.trace_hash || a.violated != d.violated || a.cls != d.cls) {
            ++det_mismatch;
            if (det_examples.size() < 5) det_examples.push_back(std::to_string(a.seed));
        }
    }

    // aggregate
    std::set<uint64_t>& fps_nt = b.fps_nt;
    std::set<uint64_t>& traces = b.traces;
    std::map<std::string, uint64_t>& probes = b.probes;
    std::map<std::string, uint64_t>& faults = b.faults;
    uint64_t sim_ms = b.sim_ms, sched_points = b.sched_points, total_ops = b.total_ops;
    long nontrivial_runs = b.nontrivial_runs;
    std::vector<std::string>& samples = b.samples;
    std::vector<long> viol_idx;
    for (long i = 0; i < runs; ++i) {
        const RunOut& r = b.results[i];
        if (r.ok && r.violated) viol_idx.push_back(i);
    }

    // violations: gate, minimise, replay; one report per distinct class (max 3)
    auto findings = LoadFindings(g_verif_dir + "/known_findings.txt");
    int unlisted = 0, known = 0, simfault = 0;
    std::set<std::string> hit_keys; //!< keys of listed findings already reported by this batch
    std::set<std::string> seen_cls;
    int unlisted_classes = 0, known_classes = 0;
    std::vector<std::string> viol_reports;
    for (long vi : viol_idx) {
        const RunOut& r = b.results[vi];
        if (seen_cls.count(r.cls)) continue;
        // at most 3 unlisted classes are gated and reported; classes of known findings have their own allowance, so that they can
        // never use up the slots of a new violation that shows up in a later run
        const bool cls_known = b.IsKnown(r);
        if (cls_known ? known_classes >= 8 : unlisted_classes >= 3) continue;
        (cls_known ? known_classes : unlisted_classes)++;
        seen_cls.insert(r.cls);
        printf("candidate violation: run=%ld seed=%llu class=%s\n  detail: %s\n", vi, (unsigned long long)r.seed, r.cls.c_str(), r.detail.c_str());
        fflush(stdout);
        Plan plan = e.gen(r.seed, tier);
        plan.prop = e.prop;
        plan.seed = r.seed;
        // gate (a): same plan again, fresh child, must reproduce with the same trace hash
        RunOut again = RunPlanForked(e, plan, tier);
        if (!again.ok || !again.violated || again.cls != r.cls) {
            printf("SIMULATOR-FAULT: violation did not reproduce on re-run (got ok=%d violated=%d class=%s)\n", again.ok, again.violated, again.cls.c_str());
            ++simfault;
            continue;
        }
        if (again.trace_hash != r.trace_hash && r.trace_len != 0)
            printf("note: trace hash differs on re-run (%s vs %s); violation class reproduced\n", HexU64(r.trace_hash).c_str(), HexU64(again.trace_hash).c_str());
        int evals = 0;
        // a violation that matches a known finding is re-confirmed (gate + replay) but not minimised again
        const bool matches_known = b.IsKnown(r);
        Plan min = matches_known ? plan : Minimise(e, plan, tier, r.cls, tier == Tier::QUICK ? 150 : 600, tier == Tier::QUICK ? 60 : 300, evals);
        RunOut mr = RunPlanForked(e, min, tier);
        if (!(mr.ok && mr.violated && mr.cls == r.cls)) { min = plan; mr = again; }
        std::string file = g_verif_dir + "/replays/" + e.prop + "-" + std::to_string(r.seed) + ".json";
        {
            std::ostringstream extra;
            extra << "\"engine\":" << JStr(e.name) << ",\"tier\":" << JStr(tier == Tier::QUICK ? "quick" : "thorough")
                  << ",\"original_ops\":" << plan.ops.size() << ",\"minimise_evals\":" << evals
                  << ",\"violation\":{\"class\":" << JStr(mr.cls) << ",\"detail\":" << JStr(mr.detail) << ",\"trace_hash\":\"" << HexU64(mr.trace_hash) << "\"}"
                  << ",\"described\":" << DescribeOps(e, min, 200);
            mkdir(g_verif_dir.c_str(), 0755);
            mkdir((g_verif_dir + "/replays").c_str(), 0755);
            std::ofstream o(file);
            o << PlanToJson(min, extra.str()) << "\n";
        }
        // gate (b): fresh process replay
        std::string cmd = ShellQuote(g_self) + " replay " + ShellQuote(file) + " --quiet >/dev/null 2>&1";
        int rc = system(cmd.c_str());
        int ec = WIFEXITED(rc) ? WEXITSTATUS(rc) : -1;
        if (ec != 1) {
            printf("SIMULATOR-FAULT: fresh-process replay of %s exited %d (expected 1)\n", file.c_str(), ec);
            ++simfault;
            continue;
        }
        bool is_known = false;
        for (auto& f : findings) {
            if (f.prop == e.prop && (mr.cls.find(f.key) != std::string::npos || mr.detail.find(f.key) != std::string::npos)) {
                if (hit_keys.insert(f.key).second) printf("KNOWN-FINDING: property=%s key=%s%s\n", e.prop.c_str(), f.key.c_str(), f.text.c_str());
                is_known = true;
                ++known;
                break;
            }
        }
        if (!is_known) {
            ++unlisted;
            printf("violation class=%s minimised %zu -> %zu ops in %d runs\n  detail: %s\n", mr.cls.c_str(), plan.ops.size(), min.ops.size(), evals, mr.detail.c_str());
            printf("VIOLATION property=%s replay=%s\n", e.prop.c_str(), file.c_str());
        }
        fflush(stdout);
    }

    // Every listed finding of this property is reported on every run: one that this batch did not meet is reproduced from its stored
    // replay under findings/ (a fresh process; the replay must still end in a violation whose class or detail carries the key).
    for (auto& f : findings) {
        if (f.prop != e.prop || hit_keys.count(f.key)) continue;
        DIR* d = opendir((g_verif_dir + "/findings").c_str());
        if (!d) break;
        std::vector<std::string> files;
        while (dirent* de = readdir(d)) {
            std::string n = de->d_name;
            if (n.rfind(e.prop + "-", 0) == 0 && n.size() > 5 && n.substr(n.size() - 5) == ".json") files.push_back(n);
        }
        closedir(d);
        std::sort(files.begin(), files.end());
        // files that name the key first (older, hand-kept replay files carry no violation record)
        std::stable_partition(files.begin(), files.end(), [&](const std::string& n) {
            std::ifstream in(g_verif_dir + "/findings/" + n);
            std::stringstream ss;
            ss << in.rdbuf();
            return ss.str().find(f.key) != std::string::npos;
        });
        for (auto& n : files) {
            const std::string file = g_verif_dir + "/findings/" + n;
            std::string cmd = ShellQuote(g_self) + " replay " + ShellQuote(file) + " --quiet 2>/dev/null";
            FILE* pf = popen(cmd.c_str(), "r");
            if (!pf) continue;
            std::string out;
            char buf[4096];
            size_t got;
            while ((got = fread(buf, 1, sizeof buf, pf)) > 0) out.append(buf, got);
            int rc = pclose(pf);
            if (WIFEXITED(rc) && WEXITSTATUS(rc) == 1 && out.find("violated=1") != std::string::npos && out.find(f.key) != std::string::npos) {
                printf("KNOWN-FINDING: property=%s key=%s%s (not met by this batch; reproduced from findings/%s)\n", e.prop.c_str(), f.key.c_str(), f.text.c_str(), n.c_str());
                hit_keys.insert(f.key);
                ++known;
                break;
            }
        }
    }
    fflush(stdout);

    double wall = std::chrono::duration<double>(std::chrono::steady_clock::now() - t0).count();
    // evidence
    {
        std::ostringstream o;
        o << "{\n \"property_id\":" << JStr(e.prop) << ",\n \"tier\":" << JStr(tier == Tier::QUICK ? "quick" : "thorough") << ",\n \"seed\":" << (int64_t)(base_seed & 0x7fffffffffffffffULL)
          << ",\n \"level\":" << JStr(e.level) << ",\n \"wall_s\":" << wall << ",\n \"violations\":" << unlisted << ",\n \"coverage\":{\n";
        o << "  \"evaluations\":" << completed << ",\n  \"distinct_nontrivial\":" << fps_nt.size() << ",\n  \"rule\":" << JStr(e.rule) << ",\n";
        o << "  \"samples\":[";
        for (size_t i = 0; i < samples.size(); ++i) o << (i ? ",\n   " : "\n   ") << samples[i];
        o << "\n  ],\n";
        o << "  \"engine\":" << JStr(e.name) << ",\n  \"runs_requested\":" << runs << ",\n  \"runs_completed\":" << completed << ",\n  \"budget_hit\":" << (b.budget_hit ? "true" : "false")
          << ",\n  \"nontrivial_runs\":" << nontrivial_runs << ",\n  \"distinct_traces\":" << traces.size() << ",\n  \"total_ops\":" << total_ops
          << ",\n  \"runs_per_hour\":" << (long)(completed / std::max(wall, 0.001) * 3600) << ",\n  \"sim_time_covered_s\":" << sim_ms / 1000.0
          << ",\n  \"scheduling_points\":" << sched_points << ",\n  \"jobs\":" << jobs << ",\n";
        auto dump = [&](const char* name, const std::map<std::string, uint64_t>& m) {
            o << "  \"" << name << "\":{";
            bool f = true;
            for (auto& [k, v] : m) { o << (f ? "" : ",") << JStr(k) << ":" << v; f = false; }
            o << "},\n";
        };
        dump("faults_injected", faults);
        dump("probes", probes);
        o << "  \"unreached_probes\":[";
        {
            bool f = true;
            for (auto& p : e.expected_probes)
                if (!probes.count(p) && !faults.count(p)) { o << (f ? "" : ",") << JStr(p); f = false; }
        }
        o << "],\n";
        o << "  \"determinism\":{\"seeds_double_run\":" << det_checked << ",\"mismatches\":" << det_mismatch << "},\n";
        o << "  \"known_findings_hit\":" << known << ",\n  \"simulator_faults\":" << (simfault + b.stalls) << ",\n";
        auto arr = [&](const std::vector<std::string>& v) {
            std::string s = "[";
            for (size_t i = 0; i < v.size(); ++i) s += (i ? "," : "") + JStr(v[i]);
            return s + "]";
        };
        o << "  \"components\":{\"real\":" << arr(e.real_components) << ",\"stub\":" << arr(e.stub_components) << "}\n },\n";
        o << " \"assumptions\":" << arr(e.assumptions) << "\n}\n";
        std::string path = g_verif_dir + "/evidence/" + e.prop + ".json";
        mkdir((g_verif_dir + "/evidence").c_str(), 0755);
        std::ofstream f(path + ".tmp");
        f << o.str();
        f.close();
        rename((path + ".tmp").c_str(), path.c_str());
    }
    printf("done: runs=%ld nontrivial=%ld distinct_states=%zu distinct_traces=%zu faults=%zu kinds determinism=%zu/%zu mismatches wall=%.1fs\n", completed,
           nontrivial_runs, fps_nt.size(), traces.size(), faults.size(), det_mismatch, det_checked, wall);
    if (det_mismatch) {
        printf("WARNING: nondeterminism: %zu of %zu double-run seeds differ (e.g. seed %s)\n", det_mismatch, det_checked, det_examples[0].c_str());
        if (selftest_det) return 2;
    }
    if (unlisted) return 1;
    if (simfault || b.stalls) {
        printf("SIMULATOR-FAULT count=%zu (non-reproducing failures or stalls)\n", (size_t)simfault + b.stalls);
        return 2;
    }
    if (completed == 0) { printf("no run completed\n"); return 2; }
    return 0;
}

} // namespace sim

static void DisableAslrAndReexec(int argc, char** argv)
{
    if (getenv("VERIFSIM_REEXEC")) return;
    int pers = personality(0xffffffff);
    if (pers != -1 && !(pers & ADDR_NO_RANDOMIZE)) {
        if (personality(pers | ADDR_NO_RANDOMIZE) != -1) {
            setenv("VERIFSIM_REEXEC", "1", 1);
            execv("/proc/self/exe", argv);
        }
    }
    (void)argc;
}

int main(int argc, char** argv)
{
    DisableAslrAndReexec(argc, argv);
    using namespace sim;
    {
        char buf[4096];
        ssize_t n = readlink("/proc/self/exe", buf, sizeof buf - 1);
        g_self = n > 0 ? std::string(buf, n) : argv[0];
    }
    g_verif_dir = getenv("VERIF_DIR") ? getenv("VERIF_DIR") : "/verif";
    if (argc >= 5 && std::string(argv[1]) == "child") {
        // child process of a batch: scratch root is the parent's, which also removes it
        g_root_dir = getenv("VERIFSIM_ROOT") ? getenv("VERIFSIM_ROOT") : "/dev/shm/verifsim.orphan";
        InitBitcoinGlobals();
        int rc = ChildMain(argv[2], std::string(argv[3]) == "thorough" ? Tier::THOROUGH : Tier::QUICK, argv[4]);
        _exit(rc);
    }
    {
        char name[64];
        snprintf(name, sizeof name, "/dev/shm/verifsim.%08d", (int)getpid());
        g_root_dir = name;
    }
    mkdir(g_root_dir.c_str(), 0700);
    struct Cleanup {
        ~Cleanup() { RmRf(g_root_dir); }
    } cleanup;
    setvbuf(stdout, nullptr, _IOLBF, 0);

    std::vector<std::string> args(argv + 1, argv + argc);
    if (args.empty()) {
        fprintf(stderr, "usage: verifsim run <PROP> [--tier quick|thorough] [--seed N] [--jobs N] [--runs N] [--budget S]\n"
                        "       verifsim replay <file> [--quiet]\n       verifsim selftest-determinism <PROP> [--runs N]\n       verifsim list\n");
        return 2;
    }
    std::string cmd = args[0];
    auto opt = [&](const std::string& name, const std::string& dflt) {
        for (size_t i = 1; i + 1 < args.size(); ++i)
            if (args[i] == name) return args[i + 1];
        return dflt;
    };
    auto flag = [&](const std::string& name) {
        for (size_t i = 1; i < args.size(); ++i)
            if (args[i] == name) return true;
        return false;
    };
    if (cmd == "list") {
        for (auto& e : AllEngines()) printf("%s\t%s\t%s\n", e.prop.c_str(), e.name.c_str(), e.level.c_str());
        return 0;
    }
    InitBitcoinGlobals();
    if (cmd == "replay" && args.size() >= 2) {
        int rc = CmdReplay(args[1], flag("--quiet"));
        RmRf(g_root_dir);
        return rc;
    }
    if (cmd == "plan" && args.size() >= 2) {
        // print the plan of run index --index i of a batch (to replay/inspect a single run by hand)
        const Engine* e = FindEngine(args[1]);
        if (!e) return 2;
        uint64_t seed = std::stoull(opt("--seed", getenv("VERIF_SEED") ? getenv("VERIF_SEED") : "1"));
        long idx = std::stol(opt("--index", "0"));
        Tier tier = opt("--tier", "quick") == "thorough" ? Tier::THOROUGH : Tier::QUICK;
        uint64_t rs = flag("--raw-seed") ? seed : RunSeed(seed, e->prop, idx);
        Plan p = e->gen(rs, tier);
        p.prop = e->prop;
        p.seed = rs;
        printf("%s\n", PlanToJson(p, std::string("\"tier\":\"") + (tier == Tier::QUICK ? "quick" : "thorough") + "\"").c_str());
        return 0;
    }
    if ((cmd == "run" || cmd == "selftest-determinism") && args.size() >= 2) {
        std::string tier_s = opt("--tier", getenv("VERIF_TIER") ? getenv("VERIF_TIER") : "quick");
        Tier tier = tier_s == "thorough" ? Tier::THOROUGH : Tier::QUICK;
        uint64_t seed = std::stoull(opt("--seed", getenv("VERIF_SEED") ? getenv("VERIF_SEED") : "1"));
        long ncpu = sysconf(_SC_NPROCESSORS_ONLN);
        int jobs = std::stoi(opt("--jobs", getenv("VERIF_JOBS") ? getenv("VERIF_JOBS") : std::to_string(std::max<long>(1, ncpu))));
        long runs = std::stol(opt("--runs", getenv("VERIF_RUNS") ? getenv("VERIF_RUNS") : "0"));
        double budget = std::stod(opt("--budget", getenv("VERIF_BUDGET") ? getenv("VERIF_BUDGET") : "0"));
        int rc = CmdRun(args[1], tier, seed, jobs, runs, budget, cmd == "selftest-determinism");
        RmRf(g_root_dir);
        return rc;
    }
    fprintf(stderr, "bad command\n");
    return 2;
}
