// C28 — test-accept is faithful and side-effect free; policy implies consensus.
// nodesim mempool module (shared mempool-history workload, bias "c28": half of the single submissions are test_accept, half of
// those are followed at once by the real submission) plus this engine's own operations: P2WSH "edge" coins whose witness scripts
// separate policy-only script rules from consensus script rules (NULLDUMMY, MINIMALIF, NULLFAIL, upgradable NOPs, CLTV, CSV,
// uncompressed keys, high-S / undefined hashtype / non-DER signatures), spends of them in labelled variants, re-tests of every
// transaction ever built, and the unbroadcast set. Oracle, after every ProcessTransaction/ProcessNewPackage call:
//   (1) a single-transaction test_accept leaves the mempool fingerprint unchanged,
//   (2) test_accept followed immediately by the real submission of the same transaction gives the same verdict (below capacity),
//   (3) whatever the mempool accepted (or test-accepted) is valid for the next block: by the reference model (label of the scripts,
//       inputs, maturity, finality, BIP68, amounts) and by TestBlockValidity of a block holding it and its in-mempool ancestors;
//       and no verdict says "passed the standard script checks, failed the consensus script checks".
#include "../core/sim.h"
#include "../nodesim/mempoolsim.h"

#include <consensus/validation.h>
#include <crypto/sha256.h>
#include <key.h>
#include <policy/policy.h>
#include <script/interpreter.h>
#include <script/script.h>
#include <txmempool.h>
#include <validation.h>

#include <algorithm>
#include <optional>

using namespace sim;
using namespace nodesim;

namespace {

enum EdgeOp { E_COIN = 300, E_SPEND, E_RETEST, E_UNBROADCAST };

// Witness scripts (all paid to as P2WSH, which is a standard output and a standard input type).
enum EdgeKind { EK_MULTISIG = 0, EK_IF, EK_CHECKSIG_NOT, EK_NOP, EK_CLTV, EK_CSV, EK_UNCOMPRESSED, EK_CHECKSIG, EK_FAT, EK_NKINDS };
const char* const kEdgeNames[EK_NKINDS] = {"1of1-multisig", "if-else", "checksig-not", "nop4", "cltv", "csv", "uncompressed-key", "checksig", "fat-witness"};
const int kEdgeVariants[EK_NKINDS] = {3, 3, 4, 1, 3, 3, 2, 5, 1};
constexpr int kFatItems = 40;        // 40 x 80 witness bytes: ~900 vB but ~6 kB of mempool memory, fills a small mempool quickly
constexpr int64_t kCltvHeight = 50; // below every base chain height: always satisfiable
const int64_t kEdgeFee[6] = {1000, 1000, 5000, 20000, 100, 0}; // sat per 1000 vB

/** What the BIP texts say about one spend variant of one edge script. */
struct EdgeSpec {
    bool consensus_ok;   //!< script valid under the block rules of regtest (P2SH, DERSIG, CLTV, CSV, WITNESS, NULLDUMMY, TAPROOT)
    bool policy_ok;      //!< additionally violates none of the relay-only script rules
    uint32_t version;
    uint32_t locktime;
    uint32_t sequence;
    const char* what;
};

EdgeSpec SpecOf(int kind, int variant)
{
    const uint32_t seq = 0xfffffff0u + (uint32_t)variant; // BIP68 disabled, distinct txid per variant
    switch (kind) {
    case EK_MULTISIG:
        if (variant == 0) return {true, true, 2, 0, seq, "null dummy, good signature"};
        if (variant == 1) return {false, false, 2, 0, seq, "non-null dummy (BIP147, consensus)"};
        return {false, false, 2, 0, seq, "signature by the wrong key"};
    case EK_IF:
        if (variant == 0) return {true, true, 2, 0, seq, "minimal true argument"};
        if (variant == 1) return {true, false, 2, 0, seq, "non-minimal true argument (MINIMALIF is relay-only for v0)"};
        return {false, false, 2, 0, seq, "false branch leaves 0"};
    case EK_CHECKSIG_NOT:
        if (variant == 0) return {true, true, 2, 0, seq, "empty signature"};
        if (variant == 1) return {true, false, 2, 0, seq, "non-empty failing signature (NULLFAIL is relay-only)"};
        if (variant == 2) return {false, false, 2, 0, seq, "good signature, NOT makes it false"};
        return {false, false, 2, 0, seq, "non-DER failing signature (BIP66 makes it a script error, not a false CHECKSIG)"};
    case EK_NOP:
        return {true, false, 2, 0, seq, "upgradable NOP (relay-only)"};
    case EK_CLTV:
        if (variant == 0) return {true, true, 2, (uint32_t)kCltvHeight, 0xfffffffeu, "locktime reached"};
        if (variant == 1) return {false, false, 2, (uint32_t)kCltvHeight - 1, 0xfffffffeu, "locktime one short (BIP65, consensus)"};
        return {false, false, 2, (uint32_t)kCltvHeight, 0xffffffffu, "final input sequence (BIP65, consensus)"};
    case EK_CSV:
        if (variant == 0) return {true, true, 2, 0, 1, "relative lock 1 (needs a confirmed coin)"};
        if (variant == 1) return {false, false, 2, 0, 0xfffffffdu, "sequence has the disable flag (BIP112, consensus)"};
        return {false, false, 1, 0, 1, "transaction version 1 (BIP112, consensus)"};
    case EK_UNCOMPRESSED:
        if (variant == 0) return {true, false, 2, 0, seq, "uncompressed key in witness v0 (relay-only)"};
        return {false, false, 2, 0, seq, "signature by the wrong key"};
    case EK_FAT:
        return {true, true, 2, 0, seq, "40 dropped 80-byte witness items"};
    default:
        if (variant == 0) return {true, true, 2, 0, seq, "good signature"};
        if (variant == 1) return {true, false, 2, 0, seq, "high-S signature (relay-only)"};
        if (variant == 2) return {true, false, 2, 0, seq, "undefined hashtype 0x04 (relay-only)"};
        if (variant == 3) return {false, false, 2, 0, seq, "signature by the wrong key"};
        return {false, false, 2, 0, seq, "non-DER signature (BIP66, consensus)"};
    }
}

std::vector<unsigned char> PubBytes(int key, bool compressed)
{
    const Keyring& kr = Keys();
    if (compressed) return std::vector<unsigned char>(kr.pubs[key].begin(), kr.pubs[key].end());
    CKey u;
    u.Set(kr.keys[key].begin(), kr.keys[key].end(), /*fCompressedIn=*/false);
    CPubKey p = u.GetPubKey();
    return std::vector<unsigned char>(p.begin(), p.end());
}

CScript EdgeScript(int kind, int key)
{
    switch (kind) {
    case EK_MULTISIG: return CScript() << OP_1 << PubBytes(key, true) << OP_1 << OP_CHECKMULTISIG;
    case EK_IF: return CScript() << OP_IF << OP_1 << OP_ELSE << OP_0 << OP_ENDIF;
    case EK_CHECKSIG_NOT: return CScript() << PubBytes(key, true) << OP_CHECKSIG << OP_NOT;
    case EK_NOP: return CScript() << OP_NOP4 << OP_1;
    case EK_CLTV: return CScript() << kCltvHeight << OP_CHECKLOCKTIMEVERIFY << OP_DROP << OP_1;
    case EK_CSV: return CScript() << OP_1 << OP_CHECKSEQUENCEVERIFY << OP_DROP << OP_1;
    case EK_UNCOMPRESSED: return CScript() << PubBytes(key, false) << OP_CHECKSIG;
    case EK_FAT: {
        CScript s;
        for (int i = 0; i < kFatItems / 2; ++i) s << OP_2DROP;
        return s << OP_1;
    }
    default: return CScript() << PubBytes(key, true) << OP_CHECKSIG;
    }
}

CScript P2wsh(const CScript& ws)
{
    unsigned char h[32];
    CSHA256().Write(ws.data(), ws.size()).Finalize(h);
    return CScript() << OP_0 << std::vector<unsigned char>(h, h + 32);
}

/** DER signature (no hashtype byte) by `key` (optionally its uncompressed twin: same secret) over the BIP143 digest. */
std::vector<unsigned char> SignV0(const CScript& ws, const CMutableTransaction& m, CAmount amount, int hashtype, int key)
{
    uint256 h = SignatureHash(ws, m, 0, hashtype, amount, SigVersion::WITNESS_V0);
    std::vector<unsigned char> sig;
    Keys().keys[key].Sign(h, sig);
    return sig;
}

/** (r, s) -> (r, n - s): the other, "high" encoding of the same ECDSA signature. */
std::vector<unsigned char> HighS(const std::vector<unsigned char>& der)
{
    static const unsigned char N[32] = {0xFF, 0xFF, 0xFF, 0xFF, 0xFF, 0xFF, 0xFF, 0xFF, 0xFF, 0xFF, 0xFF, 0xFF, 0xFF, 0xFF, 0xFF, 0xFE,
                                        0xBA, 0xAE, 0xDC, 0xE6, 0xAF, 0x48, 0xA0, 0x3B, 0xBF, 0xD2, 0x5E, 0x8C, 0xD0, 0x36, 0x41, 0x41};
    if (der.size() < 8 || der[0] != 0x30 || der[2] != 0x02) return der;
    size_t rl = der[3], spos = 4 + rl;
    if (spos + 2 > der.size() || der[spos] != 0x02) return der;
    size_t sl = der[spos + 1];
    if (spos + 2 + sl > der.size()) return der;
    std::vector<unsigned char> s(der.begin() + spos + 2, der.begin() + spos + 2 + sl);
    while (s.size() > 32 && s[0] == 0) s.erase(s.begin());
    if (s.size() > 32) return der;
    unsigned char s32[32] = {0}, out[32];
    memcpy(s32 + 32 - s.size(), s.data(), s.size());
    int borrow = 0;
    for (int i = 31; i >= 0; --i) {
        int d = (int)N[i] - (int)s32[i] - borrow;
        borrow = d < 0;
        out[i] = (unsigned char)(d + (borrow ? 256 : 0));
    }
    std::vector<unsigned char> ns(out, out + 32);
    while (ns.size() > 1 && ns[0] == 0) ns.erase(ns.begin());
    if (ns[0] & 0x80) ns.insert(ns.begin(), 0);
    std::vector<unsigned char> res{0x30, 0, 0x02, (unsigned char)rl};
    res.insert(res.end(), der.begin() + 4, der.begin() + 4 + rl);
    res.push_back(0x02);
    res.push_back((unsigned char)ns.size());
    res.insert(res.end(), ns.begin(), ns.end());
    res[1] = (unsigned char)(res.size() - 2);
    return res;
}

using Stack = std::vector<std::vector<unsigned char>>;

/** Witness stack (without the script itself) of one variant. */
Stack EdgeWitness(int kind, int variant, int key, const CScript& ws, const CMutableTransaction& m, CAmount amount)
{
    auto with_type = [](std::vector<unsigned char> sig, unsigned char t) { sig.push_back(t); return sig; };
    const int other = (key + 1) % N_KEYS;
    switch (kind) {
    case EK_MULTISIG:
        if (variant == 0) return {{}, with_type(SignV0(ws, m, amount, SIGHASH_ALL, key), SIGHASH_ALL)};
        if (variant == 1) return {{0x01}, with_type(SignV0(ws, m, amount, SIGHASH_ALL, key), SIGHASH_ALL)};
        return {{}, with_type(SignV0(ws, m, amount, SIGHASH_ALL, other), SIGHASH_ALL)};
    case EK_IF:
        if (variant == 0) return {{0x01}};
        if (variant == 1) return {{0x02}};
        return {{}};
    case EK_CHECKSIG_NOT:
        if (variant == 0) return {{}};
        if (variant == 1) return {with_type(SignV0(ws, m, amount, SIGHASH_ALL, other), SIGHASH_ALL)};
        if (variant == 2) return {with_type(SignV0(ws, m, amount, SIGHASH_ALL, key), SIGHASH_ALL)};
        return {with_type(with_type(SignV0(ws, m, amount, SIGHASH_ALL, other), 0x00), SIGHASH_ALL)};
    case EK_NOP:
    case EK_CLTV:
    case EK_CSV:
        return {};
    case EK_UNCOMPRESSED:
        return {with_type(SignV0(ws, m, amount, SIGHASH_ALL, variant == 0 ? key : other), SIGHASH_ALL)};
    case EK_FAT: {
        Stack st;
        for (int i = 0; i < kFatItems; ++i) st.emplace_back(80, (unsigned char)(i + 1));
        return st;
    }
    default:
        if (variant == 0) return {with_type(SignV0(ws, m, amount, SIGHASH_ALL, key), SIGHASH_ALL)};
        if (variant == 1) return {with_type(HighS(SignV0(ws, m, amount, SIGHASH_ALL, key)), SIGHASH_ALL)};
        if (variant == 2) return {with_type(SignV0(ws, m, amount, 0x04, key), 0x04)};
        if (variant == 3) return {with_type(SignV0(ws, m, amount, SIGHASH_ALL, other), SIGHASH_ALL)};
        return {with_type(with_type(SignV0(ws, m, amount, SIGHASH_ALL, key), 0x00), SIGHASH_ALL)};
    }
}

const char* TypeName(MempoolAcceptResult::ResultType t)
{
    switch (t) {
    case MempoolAcceptResult::ResultType::VALID: return "VALID";
    case MempoolAcceptResult::ResultType::INVALID: return "INVALID";
    case MempoolAcceptResult::ResultType::MEMPOOL_ENTRY: return "MEMPOOL_ENTRY";
    default: return "DIFFERENT_WITNESS";
    }
}

std::string Short(const Txid& id) { return id.ToString().substr(0, 10); }

/** The parts of the mempool's observable state that a SubmitRecord does not carry. */
struct Extras {
    std::vector<std::pair<Txid, CAmount>> deltas; //!< mapDeltas: prioritisation of present and absent txids
    std::set<Txid> unbroadcast;
    uint64_t sequence{0};
    CAmount total_fee{0};
    uint64_t total_vsize{0};
    uint64_t count{0};
    unsigned updated{0};
};

struct EdgeCoin {
    COutPoint op;
    int kind;
    int key;
    CAmount value;
    CScript spk;
};

struct Pending {
    Wtxid wtxid;
    MempoolAcceptResult::ResultType type;
    TxValidationResult code;
    std::string reason;
};

class C28
{
public:
    Ctx& ctx;
    MempoolSim& ms;
    Extras saved;
    std::optional<Pending> pending;
    std::vector<EdgeCoin> coins;
    std::map<Wtxid, EdgeSpec> edge_specs;
    int64_t max_bytes;
    int64_t expiry_s;
    uint64_t n_unchanged{0}, n_compared{0}, n_validated{0};
    std::optional<Violation> deferred; //!< the lazy-expiry deviation: reported at the end of the run so that the other clauses keep being checked

    C28(Ctx& c, MempoolSim& m) : ctx(c), ms(m)
    {
        max_bytes = ctx.knob("mempool_kb", 300000) * 1000;
        expiry_s = ctx.knob("expiry_h", 336) * 3600;
    }

    Extras ReadExtras()
    {
        Extras x;
        CTxMemPool& pool = ms.pool();
        for (const auto& d : pool.GetPrioritisedTransactions()) x.deltas.emplace_back(d.txid, d.delta);
        std::sort(x.deltas.begin(), x.deltas.end());
        x.unbroadcast = pool.GetUnbroadcastTxs();
        {
            LOCK(pool.cs);
            x.sequence = pool.GetSequence();
            x.total_fee = pool.GetTotalFee();
            x.total_vsize = pool.GetTotalTxSize();
        }
        x.count = pool.size();
        x.updated = pool.GetTransactionsUpdated();
        return x;
    }

    // ------------------------------------------------------------------------------------------------------------------
    // clause 1: a single-transaction test_accept does not change the mempool

    void CheckUnchanged(const SubmitRecord& r, const Extras& now)
    {
        const std::string id = Short(r.txs[0]->GetHash());
        if (r.before.size() != r.after.size()) ctx.failf("test-accept-changed-mempool-entries", "test_accept of %s (-> %s %s): %zu entries before, %zu after", id.c_str(), TypeName(r.result_type), r.reject_reason.c_str(), r.before.size(), r.after.size());
        for (auto ib = r.before.begin(), ia = r.after.begin(); ib != r.before.end(); ++ib, ++ia) {
            if (ib->first != ia->first) ctx.failf("test-accept-changed-mempool-entries", "test_accept of %s: entry %s before, %s after", id.c_str(), Short(ib->first).c_str(), Short(ia->first).c_str());
            const SnapEntry &b = ib->second, &a = ia->second;
            if (b.tx->GetWitnessHash() != a.tx->GetWitnessHash()) ctx.failf("test-accept-changed-mempool-entries", "test_accept of %s: entry %s changed its witness", id.c_str(), Short(ib->first).c_str());
            if (b.modified_fee != a.modified_fee || b.base_fee != a.base_fee) ctx.failf("test-accept-changed-entry-fees", "test_accept of %s: entry %s fee/modified fee %ld/%ld -> %ld/%ld", id.c_str(), Short(ib->first).c_str(), (long)b.base_fee, (long)b.modified_fee, (long)a.base_fee, (long)a.modified_fee);
            if (b.vsize != a.vsize || b.time != a.time) ctx.failf("test-accept-changed-mempool-entries", "test_accept of %s: entry %s vsize/time %ld/%ld -> %ld/%ld", id.c_str(), Short(ib->first).c_str(), (long)b.vsize, (long)b.time, (long)a.vsize, (long)a.time);
        }
        if (r.usage_before != r.usage_after) ctx.failf("test-accept-changed-memory-usage", "test_accept of %s (-> %s %s): DynamicMemoryUsage %lu -> %lu", id.c_str(), TypeName(r.result_type), r.reject_reason.c_str(), (unsigned long)r.usage_before, (unsigned long)r.usage_after);
        if (r.minfee_before.GetFeePerK() != r.minfee_after.GetFeePerK()) ctx.failf("test-accept-changed-min-fee", "test_accept of %s: GetMinFee %ld -> %ld sat/kvB", id.c_str(), (long)r.minfee_before.GetFeePerK(), (long)r.minfee_after.GetFeePerK());
        bool same_diagram = r.diagram_before.size() == r.diagram_after.size();
        for (size_t i = 0; same_diagram && i < r.diagram_before.size(); ++i)
            if (r.diagram_before[i].fee != r.diagram_after[i].fee || r.diagram_before[i].size != r.diagram_after[i].size) same_diagram = false;
        if (!same_diagram) ctx.failf("test-accept-changed-feerate-diagram", "test_accept of %s: the feerate diagram of the mempool changed (%zu -> %zu chunks)", id.c_str(), r.diagram_before.size(), r.diagram_after.size());
        if (saved.deltas != now.deltas) ctx.failf("test-accept-changed-prioritisation", "test_accept of %s: %zu prioritisation deltas before, %zu after (or different values)", id.c_str(), saved.deltas.size(), now.deltas.size());
        if (saved.unbroadcast != now.unbroadcast) ctx.failf("test-accept-changed-unbroadcast-set", "test_accept of %s: unbroadcast set %zu -> %zu", id.c_str(), saved.unbroadcast.size(), now.unbroadcast.size());
        if (saved.sequence != now.sequence) ctx.failf("test-accept-changed-sequence", "test_accept of %s: mempool sequence %lu -> %lu", id.c_str(), (unsigned long)saved.sequence, (unsigned long)now.sequence);
        if (saved.total_fee != now.total_fee || saved.total_vsize != now.total_vsize || saved.count != now.count) ctx.failf("test-accept-changed-totals", "test_accept of %s: count/vsize/fee %lu/%lu/%ld -> %lu/%lu/%ld", id.c_str(), (unsigned long)saved.count, (unsigned long)saved.total_vsize, (long)saved.total_fee, (unsigned long)now.count, (unsigned long)now.total_vsize, (long)now.total_fee);
        if (saved.updated != now.updated) ctx.failf("test-accept-changed-update-counter", "test_accept of %s: GetTransactionsUpdated %u -> %u", id.c_str(), saved.updated, now.updated);
        ++n_unchanged;
        ctx.probe("test_accept_left_mempool_unchanged");
        if (!r.before.empty()) ctx.probe("test_accept_on_nonempty_mempool");
        if (!now.unbroadcast.empty()) ctx.probe("test_accept_with_unbroadcast_set");
        if (!now.deltas.empty()) ctx.probe("test_accept_with_prioritisations");
        if (r.minfee_before.GetFeePerK() > 0) ctx.probe("test_accept_with_rolling_min_fee");
        for (auto& in : r.txs[0]->vin)
            if (ms.pool().isSpent(in.prevout)) { ctx.probe(r.result_type == MempoolAcceptResult::ResultType::VALID ? "test_accept_of_replacement_ok" : "test_accept_of_conflict_refused"); break; }
    }

    // ------------------------------------------------------------------------------------------------------------------
    // clause 2: same verdict as the real submission that follows immediately

    std::vector<CTransactionRef> AncestorsOf(const CTransaction& tx, const MempoolSnap& snap)
    {
        std::vector<CTransactionRef> order;
        std::set<Txid> seen;
        std::function<void(const CTransaction&)> visit = [&](const CTransaction& t) {
            for (auto& in : t.vin) {
                auto it = snap.find(in.prevout.hash);
                if (it == snap.end() || !seen.insert(in.prevout.hash).second) continue;
                visit(*it->second.tx);
                order.push_back(it->second.tx);
            }
        };
        visit(tx);
        return order;
    }

    void CompareVerdict(const Pending& p, const SubmitRecord& r)
    {
        const std::string id = Short(r.txs[0]->GetHash());
        ++n_compared;
        ctx.probe("test_then_submit_compared");
        const bool same = p.type == r.result_type && p.reason == r.reject_reason && p.code == r.tx_result;
        if (same) {
            ctx.probe(p.type == MempoolAcceptResult::ResultType::VALID ? "test_then_submit_both_valid" : "test_then_submit_both_refused");
            return;
        }
        if (p.type == MempoolAcceptResult::ResultType::VALID && r.reject_reason == "mempool full") {
            // accepted, then removed again by the size limiter. Either an (unconfirmed) ancestor was past the expiry time ...
            const int64_t cutoff = ms.cs.now - expiry_s;
            for (auto& a : AncestorsOf(*r.txs[0], r.before))
                if (r.before.at(a->GetHash()).time < cutoff) {
                    char buf[600];
                    snprintf(buf, sizeof buf, "test_accept of %s says VALID, the submission that follows says 'mempool full': its unconfirmed ancestor %s (entered at %ld, now %ld, expiry %ld s) is expired lazily by the real submission only",
                             id.c_str(), Short(a->GetHash()).c_str(), (long)r.before.at(a->GetHash()).time, (long)ms.cs.now, (long)expiry_s);
                    // Known finding (see /verif/known_findings.txt); deferred to the end of the run so that the other clauses keep being checked.
                    if (!deferred) deferred = Violation{"test-accept-valid-but-submit-expires-ancestor", buf};
                    ctx.probe("submit_expired_ancestor_after_test_accept_valid");
                    return;
                }
            // ... or the mempool is at capacity, which the statement excludes
            const int64_t room = max_bytes - (int64_t)r.usage_before;
            if (room < 20 * (int64_t)r.txs[0]->ComputeTotalSize() + 20000) { ctx.probe("verdict_comparison_skipped_at_capacity"); return; }
        }
        ctx.failf("test-accept-verdict-differs-from-submit", "tx %s: test_accept -> %s '%s' (code %d), submission right after -> %s '%s' (code %d); mempool usage %lu of %ld", id.c_str(), TypeName(p.type), p.reason.c_str(), (int)p.code,
                  TypeName(r.result_type), r.reject_reason.c_str(), (int)r.tx_result, (unsigned long)r.usage_before, (long)max_bytes);
    }

    // ------------------------------------------------------------------------------------------------------------------
    // clause 3: accepted by policy => valid for the next block

    /** The generator's (or this engine's) statement about the scripts of exactly this transaction (witness included). */
    std::optional<bool> Label(const CTransaction& tx)
    {
        auto e = edge_specs.find(tx.GetWitnessHash());
        if (e != edge_specs.end()) return e->second.consensus_ok;
        auto m = ms.made.find(tx.GetHash());
        if (m == ms.made.end()) return std::nullopt;
        if (m->second.tx->GetWitnessHash() == tx.GetWitnessHash()) return m->second.scripts_ok;
        // same txid, other witness: the stripped twin of a transaction whose inputs need their witness is invalid
        if (!tx.HasWitness() && m->second.tx->HasWitness() && m->second.scripts_ok) return false;
        return std::nullopt;
    }

    void CheckNextBlockValid(const CTransactionRef& tx, const MempoolSnap& snap, const char* how)
    {
        const int tip = ms.TipIdx();
        if (tip < 0) return;
        const RefChain& ref = *ms.cs.ref;
        const int next_h = ref.blocks[tip].height + 1;
        const int64_t mtp = ref.MTP(tip);
        std::vector<CTransactionRef> txs = AncestorsOf(*tx, snap);
        if (!txs.empty()) ctx.probe("accepted_tx_has_mempool_ancestors");
        txs.push_back(tx);
        const std::string id = Short(tx->GetHash());
        // the model
        RefUtxo view = ms.TipUtxo();
        for (auto& t : txs) {
            const bool self = t == tx;
            std::optional<bool> label = Label(*t);
            if (label && !*label) ctx.failf("policy-accepted-script-invalid-tx", "%s: tx %s%s%s was built with scripts that are invalid under the block rules (%s)", how, id.c_str(), self ? "" : " depends on mempool tx ", self ? "" : Short(t->GetHash()).c_str(),
                                            edge_specs.count(t->GetWitnessHash()) ? edge_specs[t->GetWitnessHash()].what : "bad signature or stripped witness");
            if (!label) ctx.probe("accepted_tx_without_label");
            if (!ref.IsFinal(*t, next_h, mtp)) ctx.failf("policy-accepted-tx-invalid-for-next-block", "%s: tx %s%s%s is not final at height %d / MTP %ld", how, id.c_str(), self ? "" : " depends on ", self ? "" : Short(t->GetHash()).c_str(), next_h, (long)mtp);
            CAmount fee = 0;
            std::string why = ref.CheckTxContextual(*t, view, next_h, tip, fee);
            if (!why.empty()) ctx.failf("policy-accepted-tx-invalid-for-next-block", "%s: tx %s%s%s is not valid in a block on the tip by the model: %s", how, id.c_str(), self ? "" : " depends on ", self ? "" : Short(t->GetHash()).c_str(), why.c_str());
            RefApplyTx(view, *t, next_h);
        }
        // the node's own block validation
        BlockExtras ex;
        ex.cb_extranonce = 0xc28;
        auto block = BuildBlock(ref.blocks[tip].hash, next_h, std::max<int64_t>(mtp + 1, ms.cs.now), txs, RefSubsidy(next_h, ref.halving_interval), ex, ms.node().params->GetConsensus());
        LOCK(cs_main);
        BlockValidationState st = TestBlockValidity(ms.node().cs(), *block, /*check_pow=*/false, /*check_merkle_root=*/true);
        if (!st.IsValid()) ctx.failf("policy-accepted-tx-fails-block-validation", "%s: a block on the tip holding tx %s and its %zu in-mempool ancestors fails TestBlockValidity: %s", how, id.c_str(), txs.size() - 1, st.ToString().c_str());
        ++n_validated;
        ctx.probe("accepted_tx_validated_in_block");
    }

    void CheckPolicyImpliesConsensus(const SubmitRecord& r)
    {
        static const std::string kConsensusFail = "block-script-verify-flag-failed";
        if (!r.is_package) {
            if (r.reject_reason.compare(0, kConsensusFail.size(), kConsensusFail) == 0)
                ctx.failf("standard-script-checks-passed-consensus-failed", "tx %s (test_accept=%d) passed the standard script checks and then failed the consensus script checks of the next block: %s", Short(r.txs[0]->GetHash()).c_str(), r.test_accept, r.reject_reason.c_str());
        } else {
            for (auto& [w, res] : r.pkg_tx_results)
                if (res.second.compare(0, kConsensusFail.size(), kConsensusFail) == 0)
                    ctx.failf("standard-script-checks-passed-consensus-failed", "package member %s passed the standard script checks and then failed the consensus script checks: %s", w.ToString().substr(0, 10).c_str(), res.second.c_str());
            if (r.pkg_reason.compare(0, 4, "BUG!") == 0) ctx.failf("standard-script-checks-passed-consensus-failed", "package: %s", r.pkg_reason.c_str());
        }
        if (r.test_accept) {
            if (!r.is_package && r.result_type == MempoolAcceptResult::ResultType::VALID) CheckNextBlockValid(r.txs[0], r.after, "test_accept VALID");
            return;
        }
        for (auto& [id, e] : r.after)
            if (!r.before.count(id)) CheckNextBlockValid(e.tx, r.after, r.is_package ? "package member accepted" : "accepted");
    }

    void EdgeProbes(const SubmitRecord& r)
    {
        if (r.is_package) return;
        auto e = edge_specs.find(r.txs[0]->GetWitnessHash());
        if (e == edge_specs.end()) return;
        const bool ok = r.result_type == MempoolAcceptResult::ResultType::VALID;
        const bool script_reject = r.reject_reason.find("script-verify-flag-failed") != std::string::npos;
        if (e->second.consensus_ok && e->second.policy_ok) ctx.probe(ok ? "edge_valid_spend_accepted" : "edge_valid_spend_refused_for_other_reasons");
        else if (e->second.consensus_ok) ctx.probe(ok ? "edge_policy_only_violation_accepted" : script_reject ? "edge_policy_only_violation_refused_by_script_check" : "edge_policy_only_violation_refused_earlier");
        else ctx.probe(ok ? "edge_consensus_violation_accepted" : script_reject ? "edge_consensus_violation_refused_by_script_check" : "edge_consensus_violation_refused_earlier");
    }

    void OnSubmit(const SubmitRecord& r)
    {
        Extras now = ReadExtras();
        bool keep = false;
        if (!r.is_package && r.test_accept) {
            CheckUnchanged(r, now);
            pending = Pending{r.txs[0]->GetWitnessHash(), r.result_type, r.tx_result, r.reject_reason};
            keep = true;
        } else if (!r.is_package && pending && pending->wtxid == r.txs[0]->GetWitnessHash()) {
            CompareVerdict(*pending, r);
        } else if (r.is_package && r.test_accept) {
            ctx.probe("package_test_accept_seen");
        }
        if (!keep) pending.reset();
        CheckPolicyImpliesConsensus(r);
        EdgeProbes(r);
        saved = now;
    }

    void OnAfterOp()
    {
        pending.reset();
        saved = ReadExtras();
        uint64_t fp = 0;
        for (auto& [id, e] : ms.Snapshot()) fp = mix64(fp, id.ToUint256().GetUint64(0) ^ (uint64_t)e.modified_fee);
        fp = mix64(fp, (uint64_t)ms.TipIdx());
        fp = mix64(fp, coins.size() * 1000 + saved.unbroadcast.size() * 100 + saved.deltas.size());
        ctx.fingerprint(fp);
    }

    // ------------------------------------------------------------------------------------------------------------------
    // own operations

    std::vector<MempoolSim::Spendable> StdConfirmed()
    {
        std::vector<MempoolSim::Spendable> out;
        for (auto& s : ms.FreeConfirmed())
            if (Keys().Classify(s.coin.spk).kind != SK::TRUE_BARE) out.push_back(s);
        return out;
    }

    void ExecCoin(const Op& op)
    {
        Rng r(mix64((uint64_t)op.arg(1), 0xed6e));
        std::vector<MempoolSim::Spendable> conf = StdConfirmed(), unconf = ms.FreeUnconfirmed();
        std::vector<MempoolSim::Spendable>& src = ((op.arg(3) & 1) && !unconf.empty()) || conf.empty() ? unconf : conf;
        if (src.empty()) { ctx.ev("edge_coin: nothing to spend"); return; }
        MempoolSim::Spendable in = src[r.below(src.size())];
        if (in.coin.value < 100000) { ctx.ev("edge_coin: input too small"); return; }
        const int nedge = (op.arg(3) & 8) ? 6 : (op.arg(3) & 2) ? 2 : 1;
        std::vector<CTxOut> outs;
        std::vector<EdgeCoin> fresh;
        for (int i = 0; i < nedge; ++i) {
            int kind = (i == 0 || (op.arg(3) & 8)) ? (int)op.mod(0, EK_NKINDS) : (int)r.below(EK_NKINDS);
            int key = (int)r.below(N_KEYS);
            CAmount v = std::min<CAmount>(in.coin.value / 8, 20000 + (CAmount)r.below(2000000));
            CScript spk = P2wsh(EdgeScript(kind, key));
            outs.emplace_back(v, spk);
            fresh.push_back(EdgeCoin{COutPoint(Txid{}, (uint32_t)i), kind, key, v, spk});
        }
        outs.emplace_back(0, Keys().Spk(SK::P2WPKH, (int)r.below(N_KEYS)));
        CTransactionRef tx = ms.MakeTx({in}, outs, kEdgeFee[op.mod(2, 4)], 0, 2, 0, {}, SigDefect::NONE, TS_FANOUT);
        if (op.arg(3) & 4) ms.SubmitTx(tx, true, TS_FANOUT);
        ms.SubmitTx(tx, false, TS_FANOUT);
        if (ms.pool().exists(tx->GetHash())) {
            for (auto& c : fresh) {
                c.op.hash = tx->GetHash();
                coins.push_back(c);
                ctx.evf("edge_coin %s:%u kind=%s value=%ld", Short(c.op.hash).c_str(), c.op.n, kEdgeNames[c.kind], (long)c.value);
            }
            ctx.probe("edge_coin_created", fresh.size());
        }
    }

    void ExecSpend(const Op& op)
    {
        const int tip = ms.TipIdx();
        const int next_h = ms.cs.ref->blocks[tip].height + 1;
        std::vector<std::pair<const EdgeCoin*, MempoolSim::Spendable>> avail, unspent;
        for (auto& c : coins) {
            std::optional<MempoolSim::Spendable> s;
            auto it = ms.TipUtxo().find(c.op);
            if (it != ms.TipUtxo().end()) s = MempoolSim::Spendable{c.op, it->second, true};
            else if (ms.pool().exists(c.op.hash)) s = MempoolSim::Spendable{c.op, RefCoin{c.value, c.spk, next_h, false}, false};
            if (!s) continue;
            avail.emplace_back(&c, *s);
            if (!ms.pool().isSpent(c.op)) unspent.emplace_back(&c, *s);
        }
        auto& pool_of = ((op.arg(4) & 8) || unspent.empty()) ? avail : unspent;
        if (pool_of.empty()) { ctx.ev("edge_spend: no edge coin available"); return; }
        std::vector<std::pair<const EdgeCoin*, MempoolSim::Spendable>> preferred;
        if (op.arg(5) > 0)
            for (auto& c : pool_of)
                if (c.first->kind == (int)((op.arg(5) - 1) % EK_NKINDS) && c.second.confirmed) preferred.push_back(c);
        auto& from = preferred.empty() ? pool_of : preferred;
        auto& [coin, in] = from[op.mod(0, from.size())];
        const int variant = (int)op.mod(1, kEdgeVariants[coin->kind]);
        const EdgeSpec spec = SpecOf(coin->kind, variant);
        Rng r(mix64((uint64_t)op.arg(2), 0x5e6d));
        std::vector<CTxOut> outs{CTxOut(0, Keys().Spk(r.coin() ? SK::P2WPKH : SK::P2TR, (int)r.below(N_KEYS)))};
        const int shape = spec.policy_ok ? (in.confirmed ? TS_SIMPLE : TS_CHAIN) : spec.consensus_ok ? TS_NONSTANDARD : TS_INVALID;
        CTransactionRef body = ms.MakeTx({in}, outs, kEdgeFee[op.mod(3, 6)], 0, spec.version, spec.locktime, {spec.sequence}, SigDefect::NONE, shape, spec.policy_ok);
        CMutableTransaction m(*body);
        const CScript ws = EdgeScript(coin->kind, coin->key);
        Stack st = EdgeWitness(coin->kind, variant, coin->key, ws, m, in.coin.value);
        st.emplace_back(ws.begin(), ws.end());
        m.vin[0].scriptWitness.stack = st;
        CTransactionRef tx = MakeTransactionRef(m);
        ms.made[tx->GetHash()] = MempoolSim::TxInfo{tx, spec.consensus_ok, spec.policy_ok, shape};
        edge_specs[tx->GetWitnessHash()] = spec;
        ctx.evf("edge_spend %s of %s:%u kind=%s variant=%d (%s) consensus_ok=%d policy_ok=%d confirmed=%d", Short(tx->GetHash()).c_str(), Short(coin->op.hash).c_str(), coin->op.n, kEdgeNames[coin->kind], variant, spec.what, spec.consensus_ok, spec.policy_ok, in.confirmed);
        ctx.probe(spec.policy_ok ? "edge_spend_built_valid" : spec.consensus_ok ? "edge_spend_built_policy_only_violation" : "edge_spend_built_consensus_violation");
        const bool test_first = op.arg(4) & 1, submit = (op.arg(4) & 2) || !test_first;
        if (test_first) ms.SubmitTx(tx, true, shape);
        if (submit) ms.SubmitTx(tx, false, shape);
    }

    void ExecRetest(const Op& op)
    {
        if (ms.made_order.empty()) { ctx.ev("retest: nothing built yet"); return; }
        const MempoolSim::TxInfo ti = ms.made[ms.made_order[op.mod(0, ms.made_order.size())]];
        ctx.probe("retest");
        ms.SubmitTx(ti.tx, true, ti.shape);
        if (op.arg(1) & 1) ms.SubmitTx(ti.tx, false, ti.shape);
    }

    void ExecUnbroadcast(const Op& op)
    {
        std::vector<Txid> ids;
        for (auto& info : ms.pool().infoAll()) ids.push_back(info.tx->GetHash());
        if (ids.empty()) { ctx.ev("unbroadcast: mempool empty"); return; }
        std::sort(ids.begin(), ids.end());
        const Txid id = ids[op.mod(0, ids.size())];
        if (op.arg(1) & 1) ms.pool().RemoveUnbroadcastTx(id);
        else ms.pool().AddUnbroadcastTx(id);
        ctx.evf("unbroadcast %s %s -> %zu", (op.arg(1) & 1) ? "remove" : "add", Short(id).c_str(), ms.pool().GetUnbroadcastTxs().size());
        ctx.probe("unbroadcast_set_changed");
    }
};

std::string Describe(const Op& op)
{
    char b[240];
    switch (op.kind) {
    case E_COIN: snprintf(b, sizeof b, "edge_coin(script=%s, seed=%ld, feerate=%ld sat/kvB, flags=%ld[1=from-unconfirmed,2=two-outputs,4=test_accept-first,8=six-outputs-of-this-script])", kEdgeNames[op.mod(0, EK_NKINDS)], (long)op.arg(1), (long)kEdgeFee[op.mod(2, 4)], (long)op.arg(3)); break;
    case E_SPEND: snprintf(b, sizeof b, "edge_spend(coin#%ld, variant=%ld, seed=%ld, feerate=%ld sat/kvB, flags=%ld[1=test_accept,2=then-submit,8=may-conflict], prefer=%s)", (long)op.arg(0), (long)op.arg(1), (long)op.arg(2), (long)kEdgeFee[op.mod(3, 6)], (long)op.arg(4), op.arg(5) > 0 ? kEdgeNames[(op.arg(5) - 1) % EK_NKINDS] : "any"); break;
    case E_RETEST: snprintf(b, sizeof b, "retest(tx#%ld, then_submit=%ld)", (long)op.arg(0), (long)(op.arg(1) & 1)); break;
    case E_UNBROADCAST: snprintf(b, sizeof b, "unbroadcast(%s mempool tx#%ld)", (op.arg(1) & 1) ? "remove" : "add", (long)op.arg(0)); break;
    default: return DescribeMempoolOp(op);
    }
    return b;
}

Plan Gen(uint64_t seed, Tier tier)
{
    Plan p = GenMempoolPlan(seed, tier, "c28");
    Rng rng(mix64(seed, 0xc28e));
    // a fifth of the runs: small mempool, so that trimming and a non-zero rolling minimum fee exist while test_accept runs
    const bool small = rng.chance(1, 5);
    if (small) {
        p.knobs["cluster_kvb"] = 1;
        p.knobs["mempool_kb"] = 40 + rng.range(2, 30);
    }
    const bool thorough = tier == Tier::THOROUGH;
    auto insert = [&](size_t lo_pct, size_t hi_pct, Op op) {
        size_t n = p.ops.size();
        size_t pos = (size_t)rng.range((int64_t)(n * lo_pct / 100), (int64_t)(n * hi_pct / 100));
        p.ops.insert(p.ops.begin() + std::min(pos, n), op);
    };
    const int ncoin = (int)rng.range(3, thorough ? 9 : 6), nspend = (int)rng.range(6, thorough ? 30 : 16), nretest = (int)rng.range(2, thorough ? 10 : 6), nunb = (int)rng.range(1, 4);
    for (int i = 0; i < ncoin; ++i)
        insert(0, 50, Op(E_COIN, {(int64_t)rng.below(EK_NKINDS), (int64_t)(rng.next() >> 16), (int64_t)rng.below(4), (int64_t)((rng.chance(1, 4) ? 1 : 0) | (rng.chance(2, 3) ? 2 : 0) | (rng.chance(1, 3) ? 4 : 0))}));
    // make sure some edge coins get confirmed (CSV spends need that)
    for (int i = 0; i < 2; ++i) insert(20, 70, Op(MP_MINE, {(int64_t)rng.range(60, 100), (int64_t)rng.below(2), (int64_t)(rng.next() >> 16)}));
    for (int i = 0; i < nspend; ++i) {
        int64_t flags = (int64_t)rng.pick({2, 1, 6}) + 1; // 1 = test only, 2 = submit only, 3 = test then submit
        if (rng.chance(1, 5)) flags |= 8;
        insert(15, 100, Op(E_SPEND, {(int64_t)rng.below(64), (int64_t)rng.below(60), (int64_t)(rng.next() >> 16), (int64_t)rng.pick({3, 3, 3, 2, 1, 1}), flags}));
    }
    if (small) {
        // fat-witness coins, confirmed, then spent one by one at assorted feerates until the mempool overflows
        for (int i = 0; i < 3; ++i) insert(0, 25, Op(E_COIN, {(int64_t)EK_FAT, (int64_t)(rng.next() >> 16), (int64_t)rng.below(4), 8}));
        insert(26, 34, Op(MP_MINE, {100, 0, (int64_t)(rng.next() >> 16)}));
        const int nfat = (int)rng.range(10, 18);
        for (int i = 0; i < nfat; ++i) insert(35, 100, Op(E_SPEND, {(int64_t)rng.below(64), 0, (int64_t)(rng.next() >> 16), (int64_t)rng.pick({3, 3, 3, 2, 1, 0}), (int64_t)(rng.chance(1, 4) ? 2 : 3), (int64_t)EK_FAT + 1}));
    }
    for (int i = 0; i < nretest; ++i) insert(20, 100, Op(E_RETEST, {(int64_t)rng.below(1000), (int64_t)(rng.chance(3, 4) ? 1 : 0)}));
    for (int i = 0; i < nunb; ++i) insert(10, 100, Op(E_UNBROADCAST, {(int64_t)rng.below(1000), (int64_t)(rng.chance(1, 4) ? 1 : 0)}));
    return p;
}

void Run(Ctx& ctx)
{
    MempoolSimConfig cfg;
    cfg.check_consistency = false; // C22's oracle; this engine validates every accepted transaction in a block of its own
    cfg.snapshots = true;
    cfg.bias = "c28";
    MempoolSim ms(ctx, cfg);
    C28 o(ctx, ms);
    ms.after_submit = [&](const SubmitRecord& r) { o.OnSubmit(r); };
    ms.after_op = [&](const Op&) { o.OnAfterOp(); };
    ms.Setup();
    o.saved = o.ReadExtras();
    for (const Op& op : ctx.plan.ops) {
        if (op.kind < E_COIN) { ms.ExecOp(op); continue; }
        switch (op.kind) {
        case E_COIN: o.ExecCoin(op); break;
        case E_SPEND: o.ExecSpend(op); break;
        case E_RETEST: o.ExecRetest(op); break;
        case E_UNBROADCAST: o.ExecUnbroadcast(op); break;
        default: break;
        }
        ms.cs.CheckAll(Describe(op).c_str());
        o.OnAfterOp();
    }
    ms.Finish();
    if (o.deferred) ctx.fail(o.deferred->cls, o.deferred->detail);
    ctx.nontrivial = o.n_unchanged > 0 && o.n_compared > 0 && o.n_validated > 0;
}

Engine MakeEngine()
{
    Engine e;
    e.prop = "C28";
    e.name = "nodesim/mempool-testaccept";
    e.level = "exploration";
    e.gen = Gen;
    e.run = Run;
    e.describe = Describe;
    e.chunk = 1;
    e.quick_runs = 400;
    e.thorough_runs = 10000;
    e.quick_budget_s = 50;
    e.thorough_budget_s = 900;
    e.rule = "seeded mempool histories on a real regtest node (the shared mempoolsim generator with bias c28: base chain 105-125 blocks, 40-110 (thorough 40-220) operations; 50% of the single submissions of 11 shapes are "
             "test_accept and half of those are followed at once by the real submission of the same transaction; packages, prioritisation, blocks confirming/conflicting with the mempool, reorgs, clock jumps past "
             "expiry; a fifth of the runs with a 42-70 kB mempool that spends of fat-witness coins (40 x 80 witness bytes) overflow, so that trimming and a rolling minimum fee exist) plus this engine's operations: P2WSH edge coins over 9 witness scripts (1-of-1 CHECKMULTISIG, IF/ELSE, "
             "CHECKSIG NOT, NOP4, CLTV, CSV, uncompressed key, plain CHECKSIG, 2DROP x20) and 25 labelled spend variants of them (valid; relay-only violations: MINIMALIF, NULLFAIL, upgradable NOP, uncompressed witness key, high-S, "
             "undefined hashtype; consensus violations: non-null dummy, wrong key, false result, CLTV/CSV unsatisfied, non-DER), each test-accepted and/or submitted; test_accept+submit of any transaction built so far "
             "(confirmed, conflicted, evicted, in-mempool ones included); adding/removing unbroadcast marks. Oracle after every ProcessTransaction/ProcessNewPackage: (1) single test_accept: entries (txid, wtxid, fee, "
             "modified fee, vsize, time), DynamicMemoryUsage, GetMinFee, feerate diagram, prioritisation map, unbroadcast set, sequence number, totals and update counter identical before/after; (2) test_accept then "
             "submission with nothing in between: same result type, validation code and reject reason unless the submission says 'mempool full' with less than 20x the transaction size + 20 kB of room left (the lazy-expiry deviation, "
             "test_accept VALID / submission 'mempool full' because an unconfirmed ancestor is past the expiry time, has its own violation class, raised at the end of the run); "
             "(3) every transaction newly in the mempool and every test_accept VALID one: generator/engine label says the scripts satisfy the block rules, the model finds it and its in-mempool ancestors final, mature, "
             "BIP68-satisfied, value-conserving on UTXO(tip), and a block of exactly those transactions passes TestBlockValidity; no verdict carries the reason of a failed consensus script check after passed standard "
             "checks. non-trivial = at least one unchanged-check, one test/submit comparison and one block validation happened; distinct = distinct (mempool txids+modified fees, tip, edge coins, marks) fingerprints.";
    e.real_components = {"MemPoolAccept (PreChecks, ReplacementChecks, PolicyScriptChecks, ConsensusScriptChecks, test_accept path, LimitMempoolSize)", "CTxMemPool + TxGraph (check_ratio=1)", "script interpreter, signature and script-execution caches",
                         "policy (IsStandardTx, input/witness standardness, STANDARD_SCRIPT_VERIFY_FLAGS)", "ChainstateManager::ProcessTransaction, ProcessNewPackage, TestBlockValidity"};
    e.stub_components = {"peers / RPC (transactions handed to ProcessTransaction / ProcessNewPackage; unbroadcast marks set directly)", "wall clock (SetMockTime)", "ValidationSignals task runner (immediate)"};
    e.assumptions = {"RefChain model (UTXO, BIP68/113, maturity) is correct (see C08)", "script validity of generator-made transactions comes from the generator's label; of edge spends from this engine's table written from BIPs 65/66/112/141/143/146/147",
                     "the orphanage and other net_processing state are outside ProcessTransaction and not observed here"};
    e.expected_probes = {"test_accept_left_mempool_unchanged", "test_accept_on_nonempty_mempool", "test_accept_with_unbroadcast_set", "test_accept_with_prioritisations", "test_accept_with_rolling_min_fee", "test_accept_of_replacement_ok",
                         "test_then_submit_compared", "test_then_submit_both_valid", "test_then_submit_both_refused", "accepted_tx_validated_in_block", "accepted_tx_has_mempool_ancestors", "edge_coin_created", "edge_valid_spend_accepted",
                         "edge_policy_only_violation_refused_by_script_check", "edge_consensus_violation_refused_by_script_check", "retest", "package_tx_accepted"};
    return e;
}
Engine g_engine = MakeEngine();
SIM_REGISTER_ENGINE(g_engine);

} // namespace
