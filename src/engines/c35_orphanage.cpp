// C35 — the orphan pool stays bounded and peers cannot evict each other's orphans.
// compsim: the real node::TxOrphanage (MakeTxOrphanage(max_global_latency_score, reserved_peer_usage) with
// small limits) driven by 2-8 simulated peers that add orphans / announce existing ones / flood, with peer
// disconnects (EraseForPeer) and blocks (EraseForBlock) arriving at arbitrary points, explicit EraseTx and
// the reconsideration cycle (AddChildrenToWorkSet / GetTxToReconsider), against an announcement-level
// reference model. After every operation the complete announcement set is read back through the query
// interface (GetOrphanTransactions, cross-checked with HaveTxFromPeer/HaveTx/GetTx) and compared with the
// model's state "after the direct effect of the operation, before limiting"; what is missing is the eviction
// set of that limiting step and is judged against the property's clauses.
#include "../core/sim.h"

#include <node/txorphanage.h>
#include <policy/policy.h>
#include <primitives/block.h>
#include <primitives/transaction.h>
#include <random.h>
#include <script/script.h>
#include <serialize.h>
#include <uint256.h>

#include <algorithm>
#include <map>
#include <memory>
#include <set>
#include <vector>

using namespace sim;

namespace {

enum OpKind { ADDTX, ADDANN, ERASETX, DISCONNECT, BLOCK, CHILDREN, RECONSIDER, N_OPS };

// ---------------------------------------------------------------------------------------------------------
// The transaction universe of a run: a pure function of the knobs, so that plans are self-contained and every
// op can refer to "tx t" modulo the universe size.
// ---------------------------------------------------------------------------------------------------------

uint256 U256(uint64_t a, uint64_t b)
{
    uint256 h;
    for (int i = 0; i < 4; ++i) {
        uint64_t v = mix64(a + 0x1234567ULL * (i + 1), b);
        memcpy(h.begin() + 8 * i, &v, 8);
    }
    return h;
}

struct TxDef {
    CMutableTransaction mtx;
    CTransactionRef tx;
    Wtxid wtxid;
    int64_t weight{0};       //!< model's usage of the orphan: 3*stripped size + total size
    unsigned nin{0};
    std::set<COutPoint> ins;
    bool oversize{false};
    int variant_of{-1};
};
struct ParentDef {
    CTransactionRef tx;
    unsigned nout{0};
};
constexpr unsigned GRID_VOUTS = 4; //!< orphans may spend vout 0..3 of a parent (a parent has 1..3 outputs)

struct Universe {
    std::vector<ParentDef> parents;
    std::vector<TxDef> txs;
    std::map<Wtxid, int> by_wtxid;
};

int64_t ModelWeight(const CTransaction& tx)
{
    return (int64_t)::GetSerializeSize(TX_NO_WITNESS(tx)) * 3 + (int64_t)::GetSerializeSize(TX_WITH_WITNESS(tx));
}

void BuildUniverse(Universe& u, int ntx, int nparents, uint64_t txseed, int maxspk, int oversize_tx)
{
    for (int k = 0; k < nparents; ++k) {
        Rng r(mix64(txseed, 0xaa00 + k));
        CMutableTransaction m;
        m.version = 2;
        m.vin.emplace_back(COutPoint(Txid::FromUint256(U256(txseed, 0x70000 + k)), 0));
        unsigned nout = 1 + (unsigned)r.below(3);
        for (unsigned o = 0; o < nout; ++o) m.vout.emplace_back(50'000 + k * 10 + o, CScript() << OP_TRUE);
        u.parents.push_back({MakeTransactionRef(m), nout});
    }
    u.txs.resize(ntx);
    for (int t = 0; t < ntx; ++t) {
        Rng r(mix64(txseed, t));
        TxDef& d = u.txs[t];
        if (t > 0 && r.chance(1, 7)) {
            // same txid, different wtxid: copy an earlier tx and replace the witness of input 0
            int base = (int)r.below(t);
            d.mtx = u.txs[base].mtx;
            d.variant_of = base;
            std::vector<unsigned char> item(2 + r.below(40), (unsigned char)(t + 1));
            item[0] = 0xee; // never the fill byte of a base transaction's witness; item[1] = t+1 tells variants apart
            d.mtx.vin[0].scriptWitness.stack.assign(1, item);
            if (u.txs[base].oversize) d.oversize = true;
        } else {
            unsigned nin = r.chance(1, 6) ? (unsigned)r.range(10, 32) : (unsigned)r.skewed(1, 4);
            d.mtx.version = 2;
            std::set<COutPoint> used;
            for (unsigned j = 0; j < nin; ++j) {
                COutPoint op;
                uint64_t src = r.below(10);
                if (nin >= 10 && j >= 2) src = 9; // many-input orphans: mostly private inputs
                if (src < 5) {
                    op = COutPoint(u.parents[r.below(nparents)].tx->GetHash(), (uint32_t)r.below(GRID_VOUTS));
                } else if (src < 7 && t > 0) {
                    op = COutPoint(u.txs[r.below(t)].tx->GetHash(), (uint32_t)r.below(2));
                } else {
                    op = COutPoint(Txid::FromUint256(U256(txseed, 0x100000 + t * 64 + j)), (uint32_t)r.below(3));
                }
                if (!used.insert(op).second) {
                    op = COutPoint(Txid::FromUint256(U256(txseed, 0x200000 + t * 64 + j)), 0);
                    used.insert(op);
                }
                d.mtx.vin.emplace_back(op);
            }
            unsigned nout = 1 + (unsigned)r.below(2);
            for (unsigned o = 0; o < nout; ++o) {
                std::vector<unsigned char> raw((size_t)r.skewed(0, maxspk), (unsigned char)OP_NOP);
                d.mtx.vout.emplace_back((t + 1) * 1000 + o, CScript(raw.begin(), raw.end()));
            }
            if (r.chance(1, 3)) {
                std::vector<unsigned char> item((size_t)r.skewed(1, 3000), (unsigned char)(t + 1));
                d.mtx.vin[0].scriptWitness.stack.assign(1, item);
            }
            if (t == oversize_tx) {
                // heavier than MAX_STANDARD_TX_WEIGHT: AddTx must refuse it
                std::vector<unsigned char> raw(100'200, (unsigned char)OP_NOP);
                d.mtx.vout[0].scriptPubKey = CScript(raw.begin(), raw.end());
                d.oversize = true;
            }
        }
        d.tx = MakeTransactionRef(d.mtx);
        d.wtxid = d.tx->GetWitnessHash();
        d.weight = ModelWeight(*d.tx);
        d.nin = (unsigned)d.tx->vin.size();
        for (const auto& in : d.tx->vin) d.ins.insert(in.prevout);
        if (d.oversize != (d.weight > MAX_STANDARD_TX_WEIGHT)) d.oversize = d.weight > MAX_STANDARD_TX_WEIGHT;
        u.by_wtxid.emplace(d.wtxid, t); // (wtxids are distinct by construction: distinct output values / witness tag)
    }
}

// ---------------------------------------------------------------------------------------------------------
// Plan generation
// ---------------------------------------------------------------------------------------------------------

Plan Gen(uint64_t seed, Tier tier)
{
    Rng rng(seed);
    Plan p;
    int npeers = (int)rng.range(2, 8);
    int ntx = (int)rng.range(6, 40);
    int nparents = (int)rng.range(1, 4);
    p.knobs["peers"] = npeers;
    p.knobs["txs"] = ntx;
    p.knobs["parents"] = nparents;
    p.knobs["txseed"] = (int64_t)(rng.next() & 0x7fffffff);
    int maxspk = (int)std::vector<int>{40, 400, 2500}[rng.below(3)];
    p.knobs["maxspk"] = maxspk;
    p.knobs["nodeid_base"] = rng.chance(1, 4) ? 1000 : 0;
    p.knobs["oversize_tx"] = rng.chance(1, 10) ? (int64_t)rng.below(ntx) : -1;
    // limits: tight / medium / loose, independently for latency score and usage, so that each limit binds alone in
    // some runs and both in others (the latency limit must be >= peers: a per-peer share of 0 is outside the contract)
    switch (rng.below(3)) {
    case 0: p.knobs["max_latency"] = rng.range(npeers, 2 * npeers); break;
    case 1: p.knobs["max_latency"] = rng.range(2 * npeers, 6 * npeers); break;
    default: p.knobs["max_latency"] = rng.range(40, 400); break;
    }
    int64_t unit = 240 + 2 * maxspk; // a typical orphan weight for this run
    switch (rng.below(3)) {
    case 0: p.knobs["reserved_usage"] = rng.range(unit / 2, 2 * unit); break;
    case 1: p.knobs["reserved_usage"] = rng.range(2 * unit, 8 * unit); break;
    default: p.knobs["reserved_usage"] = rng.range(20 * unit, 100 * unit); break;
    }
    // swarm: per-run op weights
    std::vector<uint32_t> w(N_OPS);
    w[ADDTX] = 20 + rng.below(40);
    w[ADDANN] = rng.below(25);
    w[ERASETX] = rng.below(8);
    w[DISCONNECT] = rng.chance(3, 4) ? 1 + rng.below(8) : 0;
    w[BLOCK] = rng.chance(3, 4) ? 1 + rng.below(8) : 0;
    w[CHILDREN] = rng.chance(2, 3) ? 1 + rng.below(12) : 0;
    w[RECONSIDER] = rng.chance(2, 3) ? 1 + rng.below(14) : 0;
    int flooder = rng.chance(1, 2) ? (int)rng.below(npeers) : -1;
    auto pick_peer = [&]() -> int64_t { return (flooder >= 0 && rng.chance(1, 2)) ? flooder : (int64_t)rng.below(npeers); };
    int nops = (int)rng.range(20, tier == Tier::THOROUGH ? 260 : 130);
    while ((int)p.ops.size() < nops) {
        int k = (int)rng.pick(w);
        Op op;
        op.kind = k;
        switch (k) {
        case ADDTX: {
            int64_t peer = pick_peer();
            if (rng.chance(1, 4)) { // burst: one peer sends a run of orphans
                int n = (int)rng.range(2, 10);
                int64_t t0 = (int64_t)rng.below(ntx);
                bool seq = rng.coin();
                for (int i = 0; i < n; ++i) p.ops.push_back(Op(ADDTX, {peer, seq ? t0 + i : (int64_t)rng.below(ntx)}));
                continue;
            }
            op.a = {peer, (int64_t)rng.below(ntx)};
            break;
        }
        case ADDANN:
            op.a = {(int64_t)rng.below(npeers), (int64_t)rng.below(ntx)};
            break;
        case ERASETX:
            op.a = {(int64_t)rng.below(ntx)};
            break;
        case DISCONNECT:
            op.a = {(int64_t)rng.below(npeers)};
            break;
        case BLOCK: {
            // n entries of (mode, x, y): 0 = the block includes universe tx x; 1 = a block tx spends vout y of parent x;
            // 2 = a block tx spends vout y of universe tx x; 3 = unrelated tx
            int n = (int)rng.range(1, 3);
            op.a.push_back(n);
            for (int i = 0; i < n; ++i) {
                int64_t mode = (int64_t)rng.pick({40, 35, 15, 10});
                op.a.push_back(mode);
                op.a.push_back(mode == 1 ? (int64_t)rng.below(nparents) : (int64_t)rng.below(ntx));
                op.a.push_back((int64_t)rng.below(GRID_VOUTS));
            }
            break;
        }
        case CHILDREN:
            // parent kind (0 = a parent tx, 1 = a universe tx), index, seed of the FastRandomContext that picks the peer
            op.a = {(int64_t)rng.pick({70, 30}), (int64_t)rng.below(64), (int64_t)(rng.next() & 0xffffff)};
            break;
        case RECONSIDER:
            op.a = {(int64_t)rng.below(npeers)};
            break;
        }
        p.ops.push_back(op);
    }
    return p;
}

std::string Describe(const Op& op)
{
    char b[256];
    switch (op.kind) {
    case ADDTX: snprintf(b, sizeof b, "AddTx(tx=%ld, peer=%ld)", (long)op.arg(1), (long)op.arg(0)); break;
    case ADDANN: snprintf(b, sizeof b, "AddAnnouncer(tx=%ld, peer=%ld)", (long)op.arg(1), (long)op.arg(0)); break;
    case ERASETX: snprintf(b, sizeof b, "EraseTx(tx=%ld)", (long)op.arg(0)); break;
    case DISCONNECT: snprintf(b, sizeof b, "FAULT EraseForPeer(peer=%ld)", (long)op.arg(0)); break;
    case BLOCK: {
        std::string s = "FAULT EraseForBlock(";
        int n = (int)std::clamp<int64_t>(op.arg(0), 0, 3);
        for (int i = 0; i < n; ++i) {
            char e[64];
            int64_t mode = op.arg(1 + 3 * i) & 3, x = op.arg(2 + 3 * i), y = op.arg(3 + 3 * i);
            if (mode == 0) snprintf(e, sizeof e, "include tx%ld", (long)x);
            else if (mode == 1) snprintf(e, sizeof e, "spend parent%ld:%ld", (long)x, (long)y);
            else if (mode == 2) snprintf(e, sizeof e, "spend tx%ld:%ld", (long)x, (long)y);
            else snprintf(e, sizeof e, "unrelated");
            s += (i ? "; " : "") + std::string(e);
        }
        return s + ")";
    }
    case CHILDREN: snprintf(b, sizeof b, "AddChildrenToWorkSet(%s %ld, rng=%ld)", op.arg(0) ? "tx" : "parent", (long)op.arg(1), (long)op.arg(2)); break;
    case RECONSIDER: snprintf(b, sizeof b, "GetTxToReconsider(peer=%ld)", (long)op.arg(0)); break;
    default: snprintf(b, sizeof b, "?");
    }
    return b;
}

// ---------------------------------------------------------------------------------------------------------
// Reference model: the set of announcements (tx, peer) with entry order and work-set flag.
// ---------------------------------------------------------------------------------------------------------

struct AnnM {
    uint64_t seq{0};
    bool recon{false};
};
using State = std::map<std::pair<int, int>, AnnM>; // (tx, peer)

struct PeerStat {
    int64_t count{0}, lat{0}, usage{0};
};
struct Stats {
    int64_t nann{0}, nuniq{0}, lat{0}, usage{0};
    std::map<int, PeerStat> peers;
};

enum class Lim { ADD, DISC, BLK, ERASE, NONE };

struct Sim {
    Ctx& ctx;
    int npeers, ntx, nparents;
    int64_t G;        //!< max global latency score
    int64_t R;        //!< reserved usage per peer
    int64_t base;     //!< NodeId of peer 0
    Universe U;
    std::unique_ptr<node::TxOrphanage> orph;
    State m;
    uint64_t next_seq{0};
    uint64_t evictions{0};

    explicit Sim(Ctx& c) : ctx(c)
    {
        npeers = (int)std::clamp<int64_t>(c.knob("peers", 3), 1, 16);
        ntx = (int)std::clamp<int64_t>(c.knob("txs", 8), 1, 64);
        nparents = (int)std::clamp<int64_t>(c.knob("parents", 2), 1, 8);
        G = std::clamp<int64_t>(c.knob("max_latency", 20), npeers, 100000);
        R = std::clamp<int64_t>(c.knob("reserved_usage", 2000), 1, 100'000'000);
        base = std::clamp<int64_t>(c.knob("nodeid_base", 0), 0, 1'000'000);
        BuildUniverse(U, ntx, nparents, (uint64_t)c.knob("txseed", 1), (int)std::clamp<int64_t>(c.knob("maxspk", 40), 0, 10000), (int)c.knob("oversize_tx", -1));
        orph = node::MakeTxOrphanage((node::TxOrphanage::Count)G, (node::TxOrphanage::Usage)R);
    }

    NodeId Nid(int p) const { return (NodeId)(base + p); }
    unsigned LatOf(int t) const { return 1 + U.txs[t].nin / 10; } //!< latency score of one announcement of tx t

    Stats Compute(const State& s) const
    {
        Stats st;
        int last = -1;
        for (const auto& [k, a] : s) {
            const TxDef& d = U.txs[k.first];
            ++st.nann;
            if (k.first != last) {
                last = k.first;
                ++st.nuniq;
                st.usage += d.weight;
                st.lat += d.nin / 10;
            }
            st.lat += 1;
            PeerStat& ps = st.peers[k.second];
            ps.count += 1;
            ps.lat += LatOf(k.first);
            ps.usage += d.weight;
        }
        return st;
    }
    int64_t MaxUsage(const Stats& st) const { return R * std::max<int64_t>(1, (int64_t)st.peers.size()); }
    bool Over(const Stats& st) const { return st.lat > G || st.usage > MaxUsage(st); }

    /** a's DoS score >= b's, each the larger of latency/max_lat and usage/R (exact integer comparison) */
    static bool ScoreGE(const PeerStat& a, const PeerStat& b, int64_t max_lat, int64_t max_mem)
    {
        auto ge = [](int64_t n1, int64_t d1, int64_t n2, int64_t d2) { return (__int128)n1 * d2 >= (__int128)n2 * d1; };
        // max(a1,a2) >= max(b1,b2)  <=>  for each bi some aj >= bi
        bool lat_ok = ge(a.lat, max_lat, b.lat, max_lat) || ge(a.usage, max_mem, b.lat, max_lat);
        bool mem_ok = ge(a.lat, max_lat, b.usage, max_mem) || ge(a.usage, max_mem, b.usage, max_mem);
        return lat_ok && mem_ok;
    }

    uint64_t Fingerprint() const
    {
        uint64_t h = 35;
        for (const auto& [k, a] : m) h = mix64(h, (uint64_t)k.first * 64 + k.second * 2 + a.recon);
        return h;
    }

    /** Read the complete state back, judge the difference to `s0` (model state after the direct effect of the
     *  operation, before limiting) and adopt the observed state. `prev` is the model state before the operation. */
    void Settle(const char* what, Lim kind, const State& prev, const State& s0)
    {
        // -- observe -------------------------------------------------------------------------------------
        std::set<std::pair<int, int>> r;
        std::set<int> listed;
        for (const auto& oi : orph->GetOrphanTransactions()) {
            auto it = U.by_wtxid.find(oi.tx->GetWitnessHash());
            if (it == U.by_wtxid.end()) ctx.failf("unknown-orphan", "%s: GetOrphanTransactions lists a transaction that was never added", what);
            int t = it->second;
            if (!listed.insert(t).second) ctx.failf("orphan-listed-twice", "%s: tx%d", what, t);
            if (oi.announcers.empty()) ctx.failf("orphan-without-announcement", "%s: tx%d is listed with no announcer", what, t);
            for (NodeId n : oi.announcers) {
                if (n < base || n >= base + npeers) ctx.failf("unknown-announcer", "%s: tx%d announcer %ld", what, t, (long)n);
                r.insert({t, (int)(n - base)});
            }
        }
        // independent view through the point queries; an orphan exists iff it has an announcement
        for (int t = 0; t < ntx; ++t) {
            bool any = false;
            for (int p = 0; p < npeers; ++p) {
                bool have = orph->HaveTxFromPeer(U.txs[t].wtxid, Nid(p));
                any |= have;
                if (have != (r.count({t, p}) > 0)) ctx.failf("query-inconsistent", "%s: HaveTxFromPeer(tx%d,peer%d)=%d but GetOrphanTransactions says %d", what, t, p, have, !have);
            }
            bool have_tx = orph->HaveTx(U.txs[t].wtxid);
            CTransactionRef got = orph->GetTx(U.txs[t].wtxid);
            if (any && (!have_tx || !got)) ctx.failf("orphan-vanished-with-announcements", "%s: tx%d still has announcements but HaveTx=%d GetTx=%d", what, t, have_tx, got != nullptr);
            if (!any && (have_tx || got)) ctx.failf("orphan-without-announcement", "%s: tx%d has no announcement left but HaveTx=%d GetTx=%d", what, t, have_tx, got != nullptr);
            if (got && got->GetWitnessHash() != U.txs[t].wtxid) ctx.failf("query-inconsistent", "%s: GetTx(tx%d) returned another transaction", what, t);
        }

        // -- nothing but s0 may be there -----------------------------------------------------------------------
        for (const auto& k : r) {
            if (s0.count(k)) continue;
            if (prev.count(k)) {
                const char* cls = kind == Lim::DISC ? "disconnect-left-announcement" : kind == Lim::BLK ? "block-left-orphan" : kind == Lim::ERASE ? "erasetx-left-announcement" : "announcement-not-removed";
                ctx.failf(cls, "%s: announcement (tx%d,peer%d) should have been removed and is still there", what, k.first, k.second);
            }
            ctx.failf("announcement-appeared", "%s: announcement (tx%d,peer%d) exists although nobody made it", what, k.first, k.second);
        }
        std::vector<std::pair<int, int>> evicted;
        State after;
        for (const auto& [k, a] : s0) {
            if (r.count(k)) after.emplace(k, a); else evicted.push_back(k);
        }
        const Stats st0 = Compute(s0);
        const Stats st = Compute(after);
        const bool over0 = Over(st0);

        // -- clause 1: within the global limits after the limiting step ------------------------------------------
        if (st.nann > G) ctx.failf("global-announcement-limit-exceeded", "%s: %ld announcements, limit %ld", what, (long)st.nann, (long)G);
        if (st.lat > G) ctx.failf("global-latency-limit-exceeded", "%s: total latency score %ld, limit %ld", what, (long)st.lat, (long)G);
        if (st.usage > MaxUsage(st)) ctx.failf("global-usage-limit-exceeded", "%s: total usage %ld, limit %ld (%zu peers x %ld)", what, (long)st.usage, (long)MaxUsage(st), st.peers.size(), (long)R);

        // -- clauses 2-4: what disappeared beyond the direct effect -----------------------------------------------
        if (!evicted.empty()) {
            if (!over0) {
                const char* cls = kind == Lim::DISC ? "disconnect-removed-unaffected" : kind == Lim::BLK ? "block-removed-unaffected" : kind == Lim::ERASE ? "erasetx-removed-unaffected"
                                : kind == Lim::ADD ? "evicted-within-global-limits" : "announcement-lost-without-limiting";
                ctx.failf(cls, "%s: (tx%d,peer%d) and %zu more disappeared although the pool was within its limits (latency %ld/%ld, usage %ld/%ld)", what,
                          evicted[0].first, evicted[0].second, evicted.size() - 1, (long)st0.lat, (long)G, (long)st0.usage, (long)MaxUsage(st0));
            }
            // limiting ran on s0; shares are fixed at that moment
            const int64_t max_lat = G / std::max<int64_t>(1, (int64_t)st0.peers.size());
            std::map<int, std::vector<std::pair<int, int>>> by_peer;
            for (const auto& k : evicted) by_peer[k.second].push_back(k);
            bool some_last_was_needed = false;
            for (const auto& [p, ev] : by_peer) {
                const PeerStat& ps0 = st0.peers.at(p);
                // clause 4
                if (ps0.lat <= max_lat && ps0.usage <= R)
                    ctx.failf("protected-peer-evicted", "%s: peer%d was within its share (latency %ld<=%ld, usage %ld<=%ld) and lost (tx%d,peer%d)", what, p,
                              (long)ps0.lat, (long)max_lat, (long)ps0.usage, (long)R, ev[0].first, ev[0].second);
                // documented eviction order within the peer: oldest first, work-set entries last
                std::vector<std::tuple<bool, uint64_t, int>> order;
                for (const auto& [k, a] : s0)
                    if (k.second == p) order.emplace_back(a.recon, a.seq, k.first);
                std::sort(order.begin(), order.end());
                size_t nev = ev.size();
                bool spared_recon = false;
                for (size_t i = 0; i < order.size(); ++i) {
                    bool gone = !r.count({std::get<2>(order[i]), p});
                    if (gone != (i < nev))
                        ctx.failf("eviction-not-oldest-first", "%s: peer%d lost %zu announcements but not its %zu oldest (tx%d %s)", what, p, nev, nev, std::get<2>(order[i]), gone ? "evicted" : "kept");
                    if (!gone && std::get<0>(order[i]) && nev > 0 && std::get<1>(order[i]) < std::get<1>(order[nev - 1])) spared_recon = true;
                }
                if (spared_recon) ctx.probe("workset_entry_outlived_younger");
                const int last_t = std::get<2>(order[nev - 1]);
                // "from the most resource-intensive peer": just before its last eviction this peer's score was not
                // below the (final, hence not larger than then) score of any other peer
                PeerStat before = st.peers.count(p) ? st.peers.at(p) : PeerStat{};
                before.count += 1;
                before.lat += LatOf(last_t);
                before.usage += U.txs[last_t].weight;
                for (const auto& [q, qs] : st.peers) {
                    if (q == p) continue;
                    if (!ScoreGE(before, qs, max_lat, R))
                        ctx.failf("eviction-not-from-worst-peer", "%s: peer%d (latency %ld, usage %ld before its last eviction) was evicted while peer%d keeps latency %ld, usage %ld (shares %ld, %ld)", what, p,
                                  (long)before.lat, (long)before.usage, q, (long)qs.lat, (long)qs.usage, (long)max_lat, (long)R);
                }
                // the overall last eviction was some peer's last one, and the pool was over a limit before it
                State plus = after;
                plus.emplace(std::make_pair(last_t, p), s0.at({last_t, p}));
                if (Over(Compute(plus))) some_last_was_needed = true;
            }
            if (!some_last_was_needed)
                ctx.failf("evicted-more-than-needed", "%s: %zu announcements evicted, but the pool was already within its limits before the last eviction of every affected peer", what, evicted.size());

            // evidence
            ++evictions;
            ctx.nontrivial = true;
            ctx.fault("overflow_eviction", evicted.size());
            if (st0.lat > G) ctx.probe("trim_latency_limit");
            if (st0.usage > MaxUsage(st0)) ctx.probe("trim_usage_limit");
            if (by_peer.size() > 1) ctx.probe("eviction_from_several_peers");
            for (const auto& [p, ps0] : st0.peers)
                if (ps0.lat <= max_lat && ps0.usage <= R) { ctx.probe("protected_peer_kept_all"); break; }
            if (st.nuniq < st0.nuniq) ctx.probe("orphan_evicted_entirely");
            if (st.nann - st.nuniq < st0.nann - st0.nuniq) ctx.probe("duplicate_announcement_evicted");
            switch (kind) {
            case Lim::ADD: ctx.probe("trim_on_add"); break;
            case Lim::DISC: ctx.probe("trim_after_disconnect"); break;
            case Lim::BLK: ctx.probe("trim_after_block"); break;
            case Lim::ERASE: ctx.probe("trim_after_erasetx"); break;
            default: break;
            }
        }
        m = std::move(after);

        // -- the accounting the limits are computed from -----------------------------------------------------------
        const int64_t n_peers_now = std::max<int64_t>(1, (int64_t)st.peers.size());
        if ((int64_t)orph->CountAnnouncements() != st.nann || (int64_t)orph->CountUniqueOrphans() != st.nuniq || (int64_t)orph->TotalOrphanUsage() != st.usage ||
            (int64_t)orph->TotalLatencyScore() != st.lat)
            ctx.failf("counter-mismatch", "%s: orphanage announcements/unique/usage/latency=%u/%u/%ld/%u model=%ld/%ld/%ld/%ld", what, orph->CountAnnouncements(), orph->CountUniqueOrphans(),
                      (long)orph->TotalOrphanUsage(), orph->TotalLatencyScore(), (long)st.nann, (long)st.nuniq, (long)st.usage, (long)st.lat);
        if ((int64_t)orph->MaxGlobalLatencyScore() != G || (int64_t)orph->ReservedPeerUsage() != R || (int64_t)orph->MaxPeerLatencyScore() != G / n_peers_now || (int64_t)orph->MaxGlobalUsage() != R * n_peers_now)
            ctx.failf("limit-formula-mismatch", "%s: with %ld peers MaxPeerLatencyScore=%u (expected %ld) MaxGlobalUsage=%ld (expected %ld)", what, (long)n_peers_now, orph->MaxPeerLatencyScore(),
                      (long)(G / n_peers_now), (long)orph->MaxGlobalUsage(), (long)(R * n_peers_now));
        for (int p = 0; p < npeers; ++p) {
            PeerStat ps = st.peers.count(p) ? st.peers.at(p) : PeerStat{};
            if ((int64_t)orph->AnnouncementsFromPeer(Nid(p)) != ps.count || (int64_t)orph->LatencyScoreFromPeer(Nid(p)) != ps.lat || (int64_t)orph->UsageByPeer(Nid(p)) != ps.usage)
                ctx.failf("counter-mismatch", "%s: peer%d announcements/latency/usage=%u/%u/%ld model=%ld/%ld/%ld", what, p, orph->AnnouncementsFromPeer(Nid(p)), orph->LatencyScoreFromPeer(Nid(p)),
                          (long)orph->UsageByPeer(Nid(p)), (long)ps.count, (long)ps.lat, (long)ps.usage);
            bool work = false;
            for (const auto& [k, a] : m)
                if (k.second == p && a.recon) work = true;
            if (orph->HaveTxToReconsider(Nid(p)) != work) ctx.failf("workset-mismatch", "%s: HaveTxToReconsider(peer%d)=%d, model %d", what, p, !work, work);
        }
        // the component's own consistency check (asserts; last, so that the specific classes above win)
        orph->SanityCheck();
        ctx.evf("  -> ann=%ld uniq=%ld lat=%ld/%ld usage=%ld/%ld evicted=%zu", (long)st.nann, (long)st.nuniq, (long)st.lat, (long)G, (long)st.usage, (long)MaxUsage(st), evicted.size());
        ctx.fingerprint(Fingerprint());
    }

    bool HasTx(const State& s, int t) const
    {
        auto it = s.lower_bound({t, -1});
        return it != s.end() && it->first.first == t;
    }

    void Run()
    {
        for (const Op& op : ctx.plan.ops) {
            const std::string what = Describe(op);
            const State prev = m;
            State s0 = m;
            switch (op.kind) {
            case ADDTX: {
                int p = (int)op.mod(0, npeers), t = (int)op.mod(1, ntx);
                const TxDef& d = U.txs[t];
                bool had = HasTx(m, t);
                // every other call hands over an equal but distinct transaction object (what a second peer's deserialised message is):
                // nothing in the interface says announcements of one orphan share a CTransactionRef
                const bool fresh_object = ((op.arg(1) / (int64_t)std::max(1, ntx)) ^ op.arg(0)) & 1;
                if (fresh_object) ctx.probe("addtx_distinct_object");
                bool ret = orph->AddTx(fresh_object ? MakeTransactionRef(*d.tx) : d.tx, Nid(p));
                if (d.oversize) ctx.probe("oversize_rejected");
                else if (!m.count({t, p})) {
                    s0[{t, p}] = AnnM{next_seq++, false};
                    if (had) ctx.probe("addtx_second_announcer");
                    if (d.nin >= 10) ctx.probe("many_input_orphan");
                    if (d.variant_of >= 0 && HasTx(m, d.variant_of)) ctx.probe("same_txid_two_wtxids");
                } else ctx.probe("duplicate_add_ignored");
                ctx.evf("addtx t%d p%d -> %d", t, p, ret);
                Settle(what.c_str(), Lim::ADD, prev, s0);
                if (!d.oversize && !prev.count({t, p}) && !m.count({t, p})) ctx.probe("new_announcement_evicted_at_once");
                break;
            }
            case ADDANN: {
                int p = (int)op.mod(0, npeers), t = (int)op.mod(1, ntx);
                bool ret = orph->AddAnnouncer(U.txs[t].wtxid, Nid(p));
                if (HasTx(m, t) && !m.count({t, p})) {
                    s0[{t, p}] = AnnM{next_seq++, false};
                    ctx.probe("announcer_added");
                }
                ctx.evf("addann t%d p%d -> %d", t, p, ret);
                Settle(what.c_str(), Lim::ADD, prev, s0);
                break;
            }
            case ERASETX: {
                int t = (int)op.mod(0, ntx);
                bool ret = orph->EraseTx(U.txs[t].wtxid);
                size_t n = 0;
                for (auto it = s0.begin(); it != s0.end();) {
                    if (it->first.first == t) { it = s0.erase(it); ++n; } else ++it;
                }
                if (n) ctx.probe("erasetx_removed");
                ctx.evf("erasetx t%d -> %d (%zu announcements)", t, ret, n);
                Settle(what.c_str(), Lim::ERASE, prev, s0);
                break;
            }
            case DISCONNECT: {
                int p = (int)op.mod(0, npeers);
                orph->EraseForPeer(Nid(p));
                size_t n = 0, orphans_gone = 0;
                for (auto it = s0.begin(); it != s0.end();) {
                    if (it->first.second == p) { it = s0.erase(it); ++n; } else ++it;
                }
                for (const auto& [k, a] : prev)
                    if (k.second == p) {
                        if (HasTx(s0, k.first)) ctx.probe("announcer_left_orphan_stays"); else { ctx.probe("last_announcer_left"); ++orphans_gone; }
                    }
                if (n) ctx.fault("peer_disconnect");
                ctx.evf("disconnect p%d (%zu announcements, %zu orphans)", p, n, orphans_gone);
                Settle(what.c_str(), Lim::DISC, prev, s0);
                break;
            }
            case BLOCK: {
                CBlock block;
                int n = (int)std::clamp<int64_t>(op.arg(0), 0, 3);
                std::set<COutPoint> spent;
                for (int i = 0; i < n; ++i) {
                    int64_t mode = op.arg(1 + 3 * i) & 3;
                    if (mode == 0) {
                        block.vtx.push_back(U.txs[op.mod(2 + 3 * i, ntx)].tx);
                    } else {
                        CMutableTransaction bt;
                        bt.version = 2;
                        if (mode == 1) bt.vin.emplace_back(COutPoint(U.parents[op.mod(2 + 3 * i, nparents)].tx->GetHash(), (uint32_t)op.mod(3 + 3 * i, GRID_VOUTS)));
                        else if (mode == 2) bt.vin.emplace_back(COutPoint(U.txs[op.mod(2 + 3 * i, ntx)].tx->GetHash(), (uint32_t)op.mod(3 + 3 * i, 2)));
                        bt.vin.emplace_back(COutPoint(Txid::FromUint256(U256(0xb10c, (uint64_t)op.arg(2 + 3 * i) * 8 + i)), 7));
                        bt.vout.emplace_back(1234, CScript() << OP_TRUE);
                        block.vtx.push_back(MakeTransactionRef(bt));
                    }
                    for (const auto& in : block.vtx.back()->vin) spent.insert(in.prevout);
                }
                orph->EraseForBlock(block);
                // model: an orphan goes iff it spends an outpoint (txid AND index) that a block transaction spends
                std::set<int> hit;
                for (const auto& [k, a] : m) {
                    if (hit.count(k.first)) continue;
                    for (const auto& in : U.txs[k.first].ins)
                        if (spent.count(in)) { hit.insert(k.first); break; }
                }
                for (auto it = s0.begin(); it != s0.end();) it = hit.count(it->first.first) ? s0.erase(it) : std::next(it);
                if (!hit.empty()) ctx.fault("block_connected");
                // coverage of the near misses: an orphan that spends another output of a transaction the block spends from
                for (const auto& [k, a] : s0) {
                    bool near = false;
                    for (const auto& in : U.txs[k.first].ins)
                        for (const auto& sp : spent)
                            if (sp.hash == in.hash && sp.n != in.n) near = true;
                    if (near) { ctx.probe("block_same_parent_other_output_kept"); break; }
                }
                for (int t : hit) {
                    bool included = false;
                    for (const auto& btx : block.vtx) {
                        if (btx->GetWitnessHash() == U.txs[t].wtxid) included = true;
                        else if (btx->GetHash() == U.txs[t].tx->GetHash()) ctx.probe("block_erases_other_witness_of_same_txid");
                    }
                    if (!included) ctx.probe("block_conflict_erased");
                    else ctx.probe("block_inclusion_erased");
                }
                ctx.evf("block n=%d -> %zu orphans hit", n, hit.size());
                Settle(what.c_str(), Lim::BLK, prev, s0);
                break;
            }
            case CHILDREN: {
                CTransactionRef parent;
                unsigned nout;
                if (op.arg(0) & 1) {
                    const TxDef& d = U.txs[op.mod(1, ntx)];
                    parent = d.tx;
                    nout = (unsigned)d.tx->vout.size();
                } else {
                    const ParentDef& pd = U.parents[op.mod(1, nparents)];
                    parent = pd.tx;
                    nout = pd.nout;
                }
                FastRandomContext frc{U256(0xc411d, (uint64_t)op.arg(2))};
                auto ret = orph->AddChildrenToWorkSet(*parent, frc);
                // model: every orphan that spends one of the parent's existing outputs and is in nobody's work set is
                // assigned to exactly one of its announcers (which one is the implementation's random choice)
                std::set<int> expect;
                for (const auto& [k, a] : m) {
                    bool child = false;
                    for (const auto& in : U.txs[k.first].ins)
                        if (in.hash == parent->GetHash() && in.n < nout) child = true;
                    if (child) expect.insert(k.first);
                }
                for (const auto& [k, a] : m)
                    if (a.recon) expect.erase(k.first);
                std::set<int> got;
                for (const auto& [wtxid, nid] : ret) {
                    auto it = U.by_wtxid.find(wtxid);
                    int t = it == U.by_wtxid.end() ? -1 : it->second;
                    int p = (int)(nid - base);
                    if (t < 0 || !expect.count(t) || !got.insert(t).second) ctx.failf("workset-mismatch", "%s: returned tx%d which is not an unassigned child orphan (or twice)", what.c_str(), t);
                    auto ia = m.find({t, p});
                    if (nid < base || nid >= base + npeers || ia == m.end()) ctx.failf("workset-mismatch", "%s: tx%d assigned to node %ld which did not announce it", what.c_str(), t, (long)nid);
                    ia->second.recon = true;
                    s0[{t, p}].recon = true;
                    size_t nann = 0;
                    for (int q = 0; q < npeers; ++q) nann += m.count({t, q});
                    if (nann > 1) ctx.probe("workset_peer_chosen_among_several");
                }
                if (got != expect) ctx.failf("workset-mismatch", "%s: %zu child orphans assigned, model expects %zu", what.c_str(), got.size(), expect.size());
                if (!got.empty()) ctx.probe("workset_assigned");
                ctx.evf("children nout=%u -> %zu assigned", nout, ret.size());
                Settle(what.c_str(), Lim::NONE, m, s0);
                break;
            }
            case RECONSIDER: {
                int p = (int)op.mod(0, npeers);
                CTransactionRef tx = orph->GetTxToReconsider(Nid(p));
                std::set<int> work;
                for (const auto& [k, a] : m)
                    if (k.second == p && a.recon) work.insert(k.first);
                int t = -1;
                if (tx) {
                    auto it = U.by_wtxid.find(tx->GetWitnessHash());
                    t = it == U.by_wtxid.end() ? -1 : it->second;
                    if (!work.count(t)) ctx.failf("workset-mismatch", "%s: returned tx%d which is not in the peer's work set", what.c_str(), t);
                    m[{t, p}].recon = false;
                    s0[{t, p}].recon = false;
                    ctx.probe("reconsidered");
                } else if (!work.empty()) {
                    ctx.failf("workset-mismatch", "%s: nothing returned, model work set has %zu entries", what.c_str(), work.size());
                }
                ctx.evf("reconsider p%d -> t%d", p, t);
                Settle(what.c_str(), Lim::NONE, m, s0);
                break;
            }
            default:
                break;
            }
        }
    }
};

void Run(Ctx& ctx)
{
    Sim s(ctx);
    s.Run();
}

Engine MakeEngine()
{
    Engine e;
    e.prop = "C35";
    e.name = "compsim/orphanage";
    e.level = "exploration";
    e.gen = Gen;
    e.run = Run;
    e.describe = Describe;
    e.chunk = 400;
    e.quick_runs = 200000;
    e.thorough_runs = 3000000;
    e.quick_budget_s = 50;
    e.thorough_budget_s = 900;
    e.rule = "seeded histories of 20-260 orphanage operations (AddTx incl. bursts from a flooding peer/AddAnnouncer/EraseTx/EraseForPeer/EraseForBlock with included, conflicting, "
             "same-parent-other-output and unrelated transactions/AddChildrenToWorkSet/GetTxToReconsider) over 2-8 peers and a per-run universe of 6-40 orphans (1-32 inputs, "
             "weights 240..~15000 and one oversize, same-txid witness variants, inputs shared on a grid of 1-4 parents x 4 outputs and chained on other orphans) with per-run limits "
             "(max global latency score from `peers` to 400, reserved usage per peer from half an orphan to 100 orphans) and per-run op weights; after every operation the full "
             "announcement set is read back and compared with the reference model; non-trivial = at least one limiting step evicted something; distinct = distinct fingerprints of "
             "the model's announcement set (tx,peer,work-set flag) after an operation (first 64 per run)";
    e.real_components = {"node::TxOrphanage / TxOrphanageImpl (node/txorphanage.cpp) created by MakeTxOrphanage(max_global_latency_score, reserved_peer_usage)"};
    e.stub_components = {"peers (scripted NodeIds that add, announce, flood, disconnect)", "blocks (hand-built CBlock with included/conflicting/unrelated transactions; no validation)",
                         "FastRandomContext of AddChildrenToWorkSet (seeded from the op)"};
    e.assumptions = {"max_global_latency_score >= number of peers (a per-peer latency share of 0 trips an assert in GetDosScore and is outside the component's contract)",
                     "this version has no separate announcement-count limit: 'global announcement limit' is checked as announcements <= max global latency score, which the latency limit implies",
                     "per-peer shares at the moment limiting runs: latency score <= max_global_latency_score / peers-with-announcements (integer division), usage <= reserved_peer_usage, "
                     "peers counted after the direct effect of the operation",
                     "disconnect/block/EraseTx remove exactly the affected announcements unless the pool is over a global limit afterwards (fewer peers => smaller usage limit); what "
                     "disappears in addition is then judged as an eviction",
                     "beyond the statement, three necessary conditions taken from the documented contract in txorphanage.h are checked on every eviction set and hold for any tie-break: "
                     "per peer the evicted announcements are its oldest ones with work-set entries last; a peer is evicted only while no other peer has a strictly higher DoS score; "
                     "eviction stops once the pool is within its limits",
                     "which announcer AddChildrenToWorkSet picks and which work-set entry GetTxToReconsider returns are free; the model adopts the observed choice after validating it",
                     "usage is computed by the model as 3*stripped size + total size of the serialized transaction"};
    e.expected_probes = {"trim_on_add", "trim_after_disconnect", "trim_after_block", "trim_after_erasetx", "trim_latency_limit", "trim_usage_limit", "protected_peer_kept_all",
                         "eviction_from_several_peers", "orphan_evicted_entirely", "duplicate_announcement_evicted", "new_announcement_evicted_at_once", "workset_entry_outlived_younger",
                         "announcer_left_orphan_stays", "last_announcer_left", "block_same_parent_other_output_kept", "block_conflict_erased", "block_inclusion_erased",
                         "block_erases_other_witness_of_same_txid", "same_txid_two_wtxids", "many_input_orphan", "oversize_rejected", "workset_assigned", "reconsidered",
                         "workset_peer_chosen_among_several"};
    return e;
}
Engine g_engine = MakeEngine();
SIM_REGISTER_ENGINE(g_engine);

} // namespace
