// C62 — the wallet never hands out the same new address twice.
// crashsim over walletsim: a real descriptor CWallet on a production SQLite database (synchronous=FULL, rollback journal,
// exclusive locking) whose directory lives under simfs. The workload requests new receiving / change addresses of every
// output type (GetNewDestination, GetNewChangeDestination, ReserveDestination keep/return), tops the keypool up, restarts the
// wallet cleanly (optionally with another -keypool), receives payments to look-ahead addresses, and CRASHES: the recorded I/O
// log is cut at an index k (process kill, or power loss where a suffix of not-yet-synced operations is dropped, optionally
// with a torn last append), the directory such a crash leaves is rebuilt and
//   * probed: a second wallet object is loaded from the image and asked for new addresses of all 8 (type, receive|change)
//     chains, or
//   * continued: the live wallet is thrown away, the image becomes the directory of the next incarnation and the workload
//     goes on there (several incarnations per run, nested crashes during the load of an image included).
// Oracle (own code, set membership only): an address returned by a call that had returned at log index r is never returned
// again by any later call of any incarnation, unless the crash image was cut at k < r (the call had not returned in that
// timeline) or the address was handed back through ReserveDestination::ReturnDestination.
#include "../core/sim.h"
#include "../nodesim/walletsim.h"
#include "../simfs/simfs.h"

#include <addresstype.h>
#include <key_io.h>
#include <outputtype.h>
#include <primitives/transaction.h>
#include <script/script.h>
#include <util/time.h>
#include <wallet/scriptpubkeyman.h>
#include <wallet/wallet.h>

#include <fcntl.h>
#include <sys/stat.h>
#include <unistd.h>

#include <algorithm>
#include <filesystem>
#include <fstream>
#include <map>
#include <set>

using namespace sim;
using namespace nodesim;

// Note on determinism: the wallet's I/O log depends on the heap addresses of its ScriptPubKeyMan objects (CWallet::TopUpKeyPool
// iterates a std::set<ScriptPubKeyMan*>); walletsim's slot allocator (walletsim.h, "Determinism") makes it a function of the plan.
// Crash points are log indices, so without it a replay file could miss the crash point it was written for.

namespace {

enum AOp { A_NEW = 0, A_CHANGE, A_RESERVE, A_KEEP, A_RETURN, A_TOPUP, A_RESTART, A_PAY, A_CRASH, A_CLOCK, A_NOPS,
           A_IOFAULT = 20 /* exploratory, never generated: see OpIoFault */, A_ENCLOCK = 21 };

const char* kTypeName[4] = {"legacy", "p2sh-segwit", "bech32", "bech32m"};
const char* kSelName[4] = {"uniform", "sync/unlink/truncate boundary", "inside address call", "at return of address call"};
const char* kModeName[4] = {"kill", "powerloss(j=k)", "powerloss(j=last sync)", "powerloss(j seeded)"};

std::string Describe(const Op& op)
{
    char b[256];
    switch (op.kind) {
    case A_NEW: snprintf(b, sizeof b, "getnewaddress(%s)", kTypeName[op.mod(0, 4)]); break;
    case A_CHANGE: snprintf(b, sizeof b, "getrawchangeaddress(%s)", kTypeName[op.mod(0, 4)]); break;
    case A_RESERVE: snprintf(b, sizeof b, "ReserveDestination(%s,%s).GetReservedDestination", kTypeName[op.mod(0, 4)], op.mod(1, 2) ? "change" : "receive"); break;
    case A_KEEP: snprintf(b, sizeof b, "KeepDestination(reservation#%ld)", (long)op.arg(0)); break;
    case A_RETURN: snprintf(b, sizeof b, "ReturnDestination(reservation#%ld)", (long)op.arg(0)); break;
    case A_TOPUP: snprintf(b, sizeof b, "keypoolrefill(%ld)", (long)op.arg(0)); break;
    case A_RESTART: snprintf(b, sizeof b, "clean restart: unloadwallet, loadwallet with -keypool=%ld", (long)op.arg(0)); break;
    case A_PAY: snprintf(b, sizeof b, "payment to look-ahead address #%ld arrives (mempool notification)", (long)op.arg(0)); break;
    case A_CRASH:
        snprintf(b, sizeof b, "FAULT crash at io[%s #%ld/%ld] %s torn=%ld -> %s", kSelName[op.mod(1, 4)], (long)op.arg(2), (long)op.arg(7), kModeName[op.mod(3, 4)], (long)(op.arg(5) & 1),
                 op.arg(0) & 1 ? "continue on the image (next incarnation)" : "probe the image");
        break;
    case A_CLOCK: snprintf(b, sizeof b, "clock += %lds", (long)op.arg(0)); break;
    case A_ENCLOCK: snprintf(b, sizeof b, "encryptwallet (first time) and lock: addresses now come from the pre-derived keypool only"); break;
    case A_IOFAULT: snprintf(b, sizeof b, "FAULT (exploratory) %s at the %ld-th next write/sync of the wallet files", op.mod(0, 3) == 0 ? "ENOSPC on write" : op.mod(0, 3) == 1 ? "EIO on write" : "EIO on fsync", (long)op.arg(1)); break;
    default: snprintf(b, sizeof b, "?");
    }
    return b;
}

Plan Gen(uint64_t seed, Tier tier)
{
    Rng rng(seed);
    Plan p;
    p.knobs["wallet_seed"] = (int64_t)(rng.next() >> 8);
    p.knobs["keypool"] = rng.range(1, 6);
    p.knobs["pay"] = rng.chance(1, 3);
    p.knobs["reserve"] = rng.chance(2, 3);
    p.knobs["enumerate"] = tier == Tier::THOROUGH && rng.chance(1, 3);
    std::vector<uint32_t> w(A_NOPS, 0);
    w[A_NEW] = 30; w[A_CHANGE] = 20; w[A_TOPUP] = 4; w[A_RESTART] = 6; w[A_CLOCK] = 2;
    w[A_RESERVE] = p.knobs["reserve"] ? 9 : 0; w[A_KEEP] = p.knobs["reserve"] ? 4 : 0; w[A_RETURN] = p.knobs["reserve"] ? 7 : 0;
    w[A_PAY] = p.knobs["pay"] ? 5 : 0;
    w[A_CRASH] = p.knobs["enumerate"] ? 4 : 22;
    // swarm
    if (rng.chance(1, 4)) w[A_RESTART] = 0;
    if (rng.chance(1, 4)) w[A_TOPUP] = 12;
    if (rng.chance(1, 5)) { w[A_NEW] = 45; w[A_CHANGE] = 5; }
    if (rng.chance(1, 5)) { w[A_NEW] = 5; w[A_CHANGE] = 45; }
    const int ntypes = rng.chance(1, 4) ? 1 : 4; // some runs hammer one chain pair
    const int type0 = (int)rng.below(4);
    auto Type = [&] { return (int64_t)(ntypes == 1 ? type0 : rng.below(4)); };
    const int cont_pct = (int)rng.range(15, 45);
    auto CrashOp = [&](bool targeted) {
        Op op;
        op.kind = A_CRASH;
        int sel = targeted ? (int)rng.pick({0, 0, 3, 2}) : (int)rng.pick({3, 3, 3, 2});
        // a0 continue?, a1 selection, a2 index selector, a3 semantics, a4 j selector, a5 torn, a6 torn selector, a7 call selector (0 = most recent)
        op.a = {(int64_t)((int)rng.below(100) < cont_pct), sel, (int64_t)(rng.next() >> 20), (int64_t)rng.pick({4, 1, 4, 4}), (int64_t)(rng.next() >> 20), (int64_t)rng.below(2), (int64_t)(rng.next() >> 20),
                (int64_t)(targeted ? rng.skewed(0, 2) : rng.skewed(0, 12))};
        return op;
    };
    int nops = (int)rng.range(16, tier == Tier::THOROUGH ? 70 : 40);
    for (int i = 0; i < nops; ++i) {
        Op op;
        op.kind = (int)rng.pick(w);
        switch (op.kind) {
        case A_NEW: case A_CHANGE: op.a = {Type()}; break;
        case A_RESERVE: op.a = {Type(), (int64_t)rng.below(2)}; break;
        case A_KEEP: case A_RETURN: op.a = {(int64_t)rng.below(4)}; break;
        case A_TOPUP: op.a = {(int64_t)(rng.chance(1, 3) ? 0 : rng.range(1, 12))}; break;
        case A_RESTART: op.a = {(int64_t)rng.range(1, 8)}; break;
        case A_PAY: op.a = {(int64_t)rng.below(64), (int64_t)(rng.next() >> 16)}; break;
        case A_CRASH: op = CrashOp(false); break;
        case A_CLOCK: op.a = {(int64_t)rng.skewed(1, 86400)}; break;
        }
        p.ops.push_back(op);
        // the situation the property is about: a crash placed inside / right at the end of the address call that just ran
        if ((op.kind == A_NEW || op.kind == A_CHANGE || op.kind == A_RETURN) && !p.knobs["enumerate"] && rng.chance(1, 4)) p.ops.push_back(CrashOp(true));
    }
    // drawn last: a blank wallet with imported descriptors whose last derivation step is hardened (the shape of every migrated legacy
    // wallet: extending the keypool needs the private keys), encrypted and locked somewhere in the first half of the history
    p.knobs["hardened"] = rng.chance(1, 5);
    if (p.knobs["hardened"]) {
        Op e;
        e.kind = A_ENCLOCK;
        p.ops.insert(p.ops.begin() + rng.below(p.ops.size() / 2 + 1), e);
    }
    return p;
}

// ---------------------------------------------------------------------------------------------------------------------------

struct Rec {
    int inc;         //!< incarnation that returned it
    int session;     //!< wallet session (load) that returned it
    size_t r;        //!< simfs log index (of that incarnation's log) when the call returned
    size_t kept_at;  //!< log index from which on the address is definitely handed out (reservations: KeepDestination)
    bool pending;    //!< reserved through ReserveDestination and neither kept nor returned yet
    int slot;        //!< type * 2 + change
    CScript spk;
};
struct Call { size_t start, ret; };
struct Reservation {
    std::unique_ptr<wallet::ReserveDestination> rd;
    std::string addr;
};

constexpr size_t kNever = (size_t)-1;

struct AddrSim {
    Ctx& ctx;
    std::unique_ptr<SimNode> node;
    std::unique_ptr<WalletNode> wn;
    std::shared_ptr<wallet::CWallet> w;
    std::vector<Reservation> pending;
    const std::string wname{"w0"};

    std::string root;
    int inc{0};
    int session{0};
    size_t k0{0};                     //!< log index of this incarnation from which crash points are taken
    size_t enum_from{0};
    std::vector<Call> calls;          //!< address-returning calls of this incarnation
    std::vector<bool> inc_powerloss;  //!< [i]: the crash that ended incarnation i lost recorded operations
    int keypool{4};
    int64_t now{0}, start_time{0};
    int images{0};
    bool io_fault_fired{false};

    // ---- the model: every address the wallet has handed out and not taken back ----
    std::map<std::string, Rec> issued;
    std::set<std::string> lost;       //!< addresses whose call had not returned when the incarnation crashed
    std::set<CScript> paid;
    uint64_t count[8]{};

    explicit AddrSim(Ctx& c) : ctx(c) {}
    ~AddrSim()
    {
        simfs::Disarm();
        DropReservations();
    }

    // ====================================================== oracle =========================================================
    /** Was the address of `rec` handed out for good in the timeline that ends with a crash at log index k of the current incarnation? */
    bool CountsAt(const Rec& rec, size_t k) const
    {
        if (rec.inc < inc) return true; // earlier incarnations were filtered when they crashed
        return rec.r <= k && rec.kept_at <= k;
    }
    [[noreturn]] void FailDup(const std::string& addr, const Rec& rec, const std::string& where, bool probe, bool probe_lost_ops)
    {
        const char* cls;
        bool crash_between = probe || rec.inc < inc, pl = probe && probe_lost_ops;
        for (int i = rec.inc; i < inc; ++i) pl = pl || inc_powerloss[i];
        if (io_fault_fired) cls = "address-reissued-after-io-error"; // exploratory configuration only (storage errors are outside the statement)
        else if (rec.pending) cls = "address-handed-out-while-reserved";
        else if (crash_between) cls = pl ? "address-reissued-after-power-loss" : "address-reissued-after-crash";
        else if (rec.session != session) cls = "address-reissued-after-clean-restart";
        else cls = "address-reissued-in-same-session";
        ctx.failf(cls, "%s: the wallet returned %s (%s %s), which it had already returned in incarnation %d session %d (call returned at io %zu); now incarnation %d session %d", where.c_str(), addr.c_str(),
                  kTypeName[rec.slot / 2], rec.slot & 1 ? "change" : "receive", rec.inc, rec.session, rec.r, inc, session);
    }
    /** The live wallet returned `dest` from a call that began at log index `start`. */
    std::string Issue(const CTxDestination& dest, int slot, size_t start, bool reservation, const std::string& where)
    {
        std::string addr = EncodeDestination(dest);
        size_t r = simfs::LogSize();
        auto it = issued.find(addr);
        if (it != issued.end()) FailDup(addr, it->second, where, false, false);
        if (lost.erase(addr)) ctx.probe("unreturned_address_reissued_after_crash");
        issued[addr] = Rec{inc, session, r, reservation ? kNever : r, reservation, slot, GetScriptForDestination(dest)};
        calls.push_back({start, r});
        ++count[slot];
        ctx.nontrivial = true;
        ctx.probe(slot & 1 ? "change_address_returned" : "receive_address_returned");
        return addr;
    }
    uint64_t Fingerprint() const
    {
        uint64_t h = mix64(inc, session);
        for (int i = 0; i < 8; ++i) h = mix64(h, count[i]);
        h = mix64(h, pending.size());
        h = mix64(h, mix64(lost.size(), paid.size()));
        return h;
    }

    // ================================================== wallet life cycle ==================================================
    void StartWalletNode()
    {
        WalletNodeOpts wo;
        wo.walletdir = root + "/wallets";
        wo.keypool = keypool;
        wo.unsafe_sync = false; // production: PRAGMA synchronous=FULL
        wn = std::make_unique<WalletNode>(*node, wo);
    }
    void DropReservations()
    {
        if (pending.empty()) return;
        if (w) {
            LOCK(w->cs_wallet);
            pending.clear(); // ~ReserveDestination returns the address to the keypool
        } else {
            for (auto& p : pending) (void)p.rd.release(); // wallet already gone (stack unwinding): never touch it
            pending.clear();
        }
    }
    void Load(const char* why)
    {
        w = wn->LoadWallet(wname);
        if (!w) ctx.failf("wallet-load-failed", "%s: %s", why, wn->last_error.c_str());
        ++session;
    }
    void CleanRestart(int new_keypool)
    {
        for (auto& p : pending) { // handed back by the destructor
            auto it = issued.find(p.addr);
            if (it == issued.end()) continue;
            --count[it->second.slot];
            issued.erase(it);
        }
        if (!pending.empty()) ctx.probe("reservation_returned_by_unload");
        DropReservations();
        wn->UnloadWallet(w);
        keypool = std::clamp(new_keypool, 1, 50);
        wn->args().ForceSetArg("-keypool", std::to_string(keypool));
        Load("clean restart");
        ctx.probe("clean_restart");
        ctx.evf("restart keypool=%d io=%zu", keypool, simfs::LogSize());
    }

    // ====================================================== crashes ========================================================
    size_t LastSyncBefore(size_t k) const
    {
        const auto& log = simfs::Log();
        for (size_t i = std::min(k, log.size()); i-- > k0;)
            if (log[i].kind == simfs::OpKind::SYNC || log[i].kind == simfs::OpKind::SYNCDIR) return i + 1;
        return k0;
    }
    simfs::CrashSpec MakeSpec(size_t k, int mode, uint64_t jsel, bool torn, uint32_t torn_sel) const
    {
        const size_t end = simfs::LogSize();
        simfs::CrashSpec s;
        s.k = std::clamp(k, k0, end);
        s.powerloss = mode != 0;
        if (mode == 1) s.j = s.k;
        else if (mode == 2) s.j = LastSyncBefore(s.k);
        else if (mode == 3) {
            const int how = (int)(jsel % 3);
            jsel /= 3;
            if (how == 2) {
                // right after a page-sized write that is still unsynced at k (the only place where a torn write can occur)
                const auto& log = simfs::Log();
                std::vector<size_t> big, appending;
                std::map<uint32_t, uint64_t> size;
                const size_t lo = LastSyncBefore(s.k);
                for (size_t i = 0; i < s.k; ++i) {
                    const simfs::LogOp& o = log[i];
                    if (o.kind == simfs::OpKind::TRUNC) size[o.ino] = o.off;
                    if (o.kind != simfs::OpKind::WRITE) continue;
                    uint64_t& sz = size[o.ino];
                    if (i >= lo && o.len > 512) (o.off + o.len > sz ? appending : big).push_back(i + 1);
                    sz = std::max(sz, o.off + o.len);
                }
                if (!appending.empty()) s.j = appending[jsel % appending.size()];
                else s.j = big.empty() ? s.k : big[jsel % big.size()];
            } else {
                size_t lo = how == 1 ? k0 : LastSyncBefore(s.k);
                s.j = lo + (s.k > lo ? jsel % (s.k - lo + 1) : 0);
            }
        }
        s.j = std::clamp(s.j, k0, s.k);
        s.torn = s.powerloss && torn && s.j > k0;
        s.torn_sel = torn_sel;
        return s;
    }
    simfs::CrashSpec SpecFromOp(const Op& op)
    {
        const size_t end = simfs::LogSize();
        size_t k = k0 + op.mod(2, end - k0 + 1);
        int sel = (int)op.mod(1, 4);
        if (sel == 1) {
            std::vector<size_t> b;
            for (size_t x : simfs::BoundaryPoints())
                if (x >= k0 && x <= end) b.push_back(x);
            if (!b.empty()) k = b[op.mod(2, b.size())];
        } else if (sel >= 2 && !calls.empty()) {
            const Call& c = calls[calls.size() - 1 - op.mod(7, calls.size())];
            if (sel == 2) {
                k = c.start + op.mod(2, c.ret - c.start + 1);
                ctx.probe(k < c.ret ? "crash_inside_address_call" : "crash_exactly_at_return");
            } else {
                k = std::min(end, c.ret + op.mod(2, 3));
                if (k == c.ret) ctx.probe("crash_exactly_at_return");
            }
        }
        return MakeSpec(k, (int)op.mod(3, 4), (uint64_t)op.arg(4), op.arg(5) & 1, (uint32_t)op.arg(6));
    }
    static bool HotJournal(const std::string& img)
    {
        std::ifstream f(img + "/wallets/w0/wallet.dat-journal", std::ios::binary);
        unsigned char h[8]{};
        static const unsigned char magic[8] = {0xd9, 0xd5, 0x05, 0xf9, 0x20, 0xa1, 0x63, 0xd7};
        return f && f.read((char*)h, 8) && memcmp(h, magic, 8) == 0;
    }
    void NoteImage(const simfs::CrashSpec& spec, const simfs::ImageInfo& ii, const std::string& img)
    {
        const bool lost_ops = ii.dropped > 0 || ii.tore;
        ctx.fault(lost_ops ? "crash_powerloss" : "crash_kill");
        if (ii.tore) ctx.fault("torn_write");
        if (ii.dropped) ctx.probe("unsynced_ops_dropped", ii.dropped);
        if (HotJournal(img)) ctx.probe("hot_journal_in_image");
        bool any_lost = false, any_counted = false;
        for (auto& [a, rec] : issued)
            if (rec.inc == inc) (CountsAt(rec, spec.k) ? any_counted : any_lost) = true;
        if (any_lost) ctx.probe("crash_before_return_of_some_address");
        if (any_counted) ctx.probe("crash_after_return_of_some_address");
        if (inc > 0 && calls.empty()) ctx.probe("nested_crash_before_first_call_of_incarnation");
        ++images;
    }

    /** Load a second wallet object from the image of `spec` and ask every chain for new addresses. */
    void Probe(const simfs::CrashSpec& spec, int ndraw, const char* tag)
    {
        const std::string img = RunDir() + "/probe";
        std::error_code ec;
        std::filesystem::remove_all(img, ec);
        simfs::ImageInfo ii;
        if (!simfs::Materialize(spec, img, &ii)) ctx.failf("sim-materialize-failed", "probe image k=%zu", spec.k);
        NoteImage(spec, ii, img);
        const bool lost_ops = ii.dropped > 0 || ii.tore;
        char where[200];
        snprintf(where, sizeof where, "image of incarnation %d cut at io %zu/%zu (%s, j=%zu, dropped=%zu, torn=%d)", inc, spec.k, simfs::LogSize(), spec.powerloss ? "power loss" : "kill", spec.j, ii.dropped, (int)ii.tore);
        uint64_t h = 0;
        int ndup_ok = 0;
        {
            WalletNodeOpts wo;
            wo.walletdir = img + "/wallets";
            wo.keypool = keypool;
            WalletNode pw(*node, wo);
            std::shared_ptr<wallet::CWallet> w2 = pw.LoadWallet(wname);
            if (!w2) ctx.failf("wallet-load-failed", "%s: %s", where, pw.last_error.c_str());
            std::set<std::string> seen;
            for (int slot = 0; slot < 8; ++slot) {
                for (int d = 0; d < ndraw; ++d) {
                    OutputType t = OUTPUT_TYPES[slot / 2];
                    auto dest = (slot & 1) ? pw.NewChangeAddress(*w2, t) : pw.NewAddress(*w2, t);
                    if (!dest) { ctx.probe("address_call_failed"); continue; }
                    std::string addr = EncodeDestination(*dest);
                    h = mix64(h, strhash(addr));
                    auto it = issued.find(addr);
                    if (it != issued.end()) {
                        if (CountsAt(it->second, spec.k)) FailDup(addr, it->second, where, true, lost_ops);
                        ++ndup_ok;
                    }
                    if (!seen.insert(addr).second) ctx.failf("address-reissued-in-same-session", "%s: the recovered wallet returned %s twice", where, addr.c_str());
                }
            }
            pw.UnloadWallet(w2);
        }
        if (ndup_ok) ctx.probe("unreturned_address_reissued_after_crash", ndup_ok);
        ctx.probe("crash_probe");
        ctx.evf("probe[%s] k=%zu j=%zu pl=%d drop=%zu torn=%d -> %s reissued_unreturned=%d", tag, spec.k - k0, spec.j - k0, (int)spec.powerloss, ii.dropped, (int)ii.tore, HexU64(h).c_str(), ndup_ok);
        std::filesystem::remove_all(img, ec);
    }

    /** Copy a crash image into the (empty, freshly armed) root through the recorded file calls: the baseline of the next incarnation. */
    void ImportImage(const std::string& img)
    {
        namespace sfs = std::filesystem;
        std::vector<sfs::path> entries;
        for (auto& e : sfs::recursive_directory_iterator(img)) entries.push_back(e.path());
        std::sort(entries.begin(), entries.end());
        std::set<std::string> dirs;
        for (auto& p : entries) {
            std::string rel = sfs::relative(p, img).string();
            std::string dst = root + "/" + rel;
            if (sfs::is_directory(p)) {
                ::mkdir(dst.c_str(), 0700);
                dirs.insert(dst);
                continue;
            }
            std::ifstream in(p, std::ios::binary);
            std::vector<char> data((std::istreambuf_iterator<char>(in)), std::istreambuf_iterator<char>());
            int fd = ::open(dst.c_str(), O_CREAT | O_WRONLY | O_TRUNC, 0600);
            if (fd < 0) ctx.failf("sim-import-failed", "cannot create %s", rel.c_str());
            size_t off = 0;
            while (off < data.size()) {
                ssize_t n = ::write(fd, data.data() + off, data.size() - off);
                if (n <= 0) ctx.failf("sim-import-failed", "cannot write %s", rel.c_str());
                off += (size_t)n;
            }
            ::fsync(fd);
            ::close(fd);
        }
        dirs.insert(root);
        for (auto& d : dirs) {
            int fd = ::open(d.c_str(), O_RDONLY | O_DIRECTORY);
            if (fd >= 0) { ::fsync(fd); ::close(fd); }
        }
    }

    /** The live wallet dies at `spec`; the image becomes the next incarnation. */
    void CrashContinue(const simfs::CrashSpec& spec)
    {
        const std::string img = RunDir() + "/img";
        std::error_code ec;
        std::filesystem::remove_all(img, ec);
        simfs::ImageInfo ii;
        if (!simfs::Materialize(spec, img, &ii)) ctx.failf("sim-materialize-failed", "image k=%zu", spec.k);
        NoteImage(spec, ii, img);
        const size_t end = simfs::LogSize();
        // the old process is gone: whatever its objects still write is not recorded and lands in a directory nobody reads again
        simfs::Disarm();
        DropReservations();
        wn->UnloadWallet(w);
        wn.reset();
        // model: calls that had not returned at the crash index never returned; open reservations died with the process
        size_t nlost = 0;
        for (auto it = issued.begin(); it != issued.end();) {
            if (it->second.inc == inc && !CountsAt(it->second, spec.k)) {
                lost.insert(it->first);
                --count[it->second.slot];
                it = issued.erase(it);
                ++nlost;
            } else {
                it->second.pending = false;
                ++it;
            }
        }
        inc_powerloss.push_back(ii.dropped > 0 || ii.tore);
        ++inc;
        calls.clear();
        root = RunDir() + "/inc" + std::to_string(inc);
        std::filesystem::create_directories(root);
        simfs::Arm(root);
        ImportImage(img);
        std::filesystem::remove_all(img, ec);
        k0 = enum_from = simfs::LogSize();
        now += 30;
        SetMockTime(std::chrono::seconds{now});
        StartWalletNode();
        ctx.evf("crash k=%zu/%zu j=%zu pl=%d drop=%zu torn=%d lost_calls=%zu -> incarnation %d baseline_io=%zu", spec.k, end, spec.j, (int)spec.powerloss, ii.dropped, (int)ii.tore, nlost, inc, k0);
        Load("load after crash");
        ctx.probe("crash_continued");
        if (inc >= 2) ctx.probe("third_or_later_incarnation");
        ctx.evf("loaded io=%zu", simfs::LogSize());
    }

    /** Thorough tier: every log index since the last enumeration, kill and power loss. */
    void EnumerateSoFar()
    {
        const size_t end = simfs::LogSize();
        size_t from = enum_from;
        if (inc == 0 && !calls.empty()) from = std::max(from, calls.front().start);
        if (inc == 0 && calls.empty()) from = end;
        for (size_t k = from; k <= end; ++k) {
            Probe(MakeSpec(k, 0, 0, false, 0), 1, "enum-kill");
            Probe(MakeSpec(k, 2, 0, (k & 1) != 0, (uint32_t)mix64(k, 3)), 1, "enum-powerloss");
            if (k % 4 == 0) Probe(MakeSpec(k, 3, mix64(k, ctx.plan.seed), true, (uint32_t)mix64(k, 5)), 1, "enum-powerloss-seeded");
        }
        if (end >= from) ctx.probe("enumerated_every_io_index", end - from + 1);
        enum_from = end + 1;
    }

    // ========================================================= ops =========================================================
    void Setup()
    {
        NodeOpts no;
        no.dir = RunDir() + "/node"; // the node itself is not under simfs: only the wallet's files are crashed
        no.make_runner = &MakeDeferredTaskRunner;
        no.mempool_check_ratio = 0;
        node = std::make_unique<SimNode>(no);
        if (!node->Start()) ctx.failf("sim-node-start-failed", "%s", node->last_error.c_str());
        now = start_time = GetTime();
        keypool = (int)std::clamp<int64_t>(ctx.knob("keypool", 4), 1, 50);
        root = RunDir() + "/inc0";
        std::filesystem::create_directories(root);
        simfs::Arm(root);
        StartWalletNode();
        WalletCreateOpts co;
        co.seed = (uint64_t)ctx.knob("wallet_seed", 1);
        const bool hardened = ctx.knob("hardened", 0) != 0;
        co.blank = hardened;
        w = wn->CreateWallet(wname, co);
        if (!w) ctx.failf("wallet-create-failed", "%s", wn->last_error.c_str());
        if (hardened) {
            unsigned char seed[32];
            for (int i = 0; i < 32; ++i) seed[i] = (unsigned char)(mix64(co.seed, 0x6864 + i) & 0xff);
            CExtKey master;
            master.SetSeed(MakeByteSpan(seed));
            const std::string x = EncodeExtKey(master);
            static const char* kFmt[4][2] = {{"pkh(", ")"}, {"sh(wpkh(", "))"}, {"wpkh(", ")"}, {"tr(", ")"}};
            static const int kPurpose[4] = {44, 49, 84, 86};
            for (int t = 0; t < 4; ++t)
                for (int c = 0; c < 2; ++c) {
                    std::string d = std::string(kFmt[t][0]) + x + "/" + std::to_string(kPurpose[t]) + "h/1h/0h/" + std::to_string(c) + "/*h" + kFmt[t][1];
                    if (!wn->ImportDescriptor(*w, d, /*active=*/true, /*internal=*/c == 1, 0, keypool, 0, /*timestamp=*/1)) ctx.failf("sim-import-failed", "%s", wn->last_error.c_str());
                }
            ctx.probe("wallet_with_hardened_range_descriptors");
        }
        // crash points start here: the one-time creation of the wallet file is outside the property
        k0 = enum_from = simfs::LogSize();
        if (simfs::OpsFromOtherThreads()) ctx.failf("sim-io-from-other-thread", "%lu recorded operations came from another thread", (unsigned long)simfs::OpsFromOtherThreads());
        ctx.evf("setup keypool=%d io=%zu", keypool, k0);
    }

    void OpAddress(const Op& op, bool change)
    {
        int type = (int)op.mod(0, 4);
        int slot = type * 2 + (change ? 1 : 0);
        size_t start = simfs::LogSize();
        std::optional<CTxDestination> dest;
        try {
            dest = change ? wn->NewChangeAddress(*w, OUTPUT_TYPES[type]) : wn->NewAddress(*w, OUTPUT_TYPES[type]);
        } catch (const std::exception& e) {
            // the keypool top-up throws when its database transaction cannot be committed (only reachable with injected I/O errors)
            if (!simfs::FaultFired()) throw;
            wn->last_error = std::string("exception: ") + e.what();
        }
        NoteIoFault();
        if (!dest) {
            ctx.probe("address_call_failed");
            ctx.evf("%s %s -> error %s", change ? "change" : "new", kTypeName[type], wn->last_error.c_str());
            return;
        }
        std::string a = Issue(*dest, slot, start, false, Describe(op));
        ctx.evf("%s %s -> %s io %zu..%zu", change ? "change" : "new", kTypeName[type], a.c_str(), start - k0, simfs::LogSize() - k0);
    }
    void OpReserve(const Op& op)
    {
        if (pending.size() >= 4) return;
        int type = (int)op.mod(0, 4);
        bool change = op.mod(1, 2) != 0;
        size_t start = simfs::LogSize();
        Reservation res;
        res.rd = std::make_unique<wallet::ReserveDestination>(w.get(), OUTPUT_TYPES[type]);
        util::Result<CTxDestination> dest = WITH_LOCK(w->cs_wallet, return res.rd->GetReservedDestination(change));
        if (!dest) { ctx.probe("address_call_failed"); ctx.ev("reserve -> error"); return; }
        res.addr = Issue(*dest, type * 2 + (change ? 1 : 0), start, true, Describe(op));
        ctx.evf("reserve %s %d -> %s", kTypeName[type], (int)change, res.addr.c_str());
        pending.push_back(std::move(res));
        ctx.probe("address_reserved");
    }
    void OpKeep(const Op& op)
    {
        if (pending.empty()) return;
        size_t i = op.mod(0, pending.size());
        WITH_LOCK(w->cs_wallet, pending[i].rd->KeepDestination());
        Rec& rec = issued.at(pending[i].addr);
        rec.pending = false;
        rec.kept_at = simfs::LogSize();
        ctx.evf("keep %s", pending[i].addr.c_str());
        pending.erase(pending.begin() + i);
        ctx.probe("reservation_kept");
    }
    void OpReturn(const Op& op)
    {
        if (pending.empty()) return;
        size_t i = op.mod(0, pending.size());
        const Rec& rec = issued.at(pending[i].addr);
        // reach probe only: was it the most recently issued address of its chain?
        bool most_recent = true;
        for (auto& [a, o] : issued)
            if (o.slot == rec.slot && o.inc == rec.inc && o.r > rec.r) most_recent = false;
        WITH_LOCK(w->cs_wallet, pending[i].rd->ReturnDestination());
        ctx.probe(most_recent ? "reservation_returned_most_recent" : "reservation_returned_not_most_recent");
        ctx.evf("return %s most_recent=%d io=%zu", pending[i].addr.c_str(), (int)most_recent, simfs::LogSize() - k0);
        --count[rec.slot];
        issued.erase(pending[i].addr); // handed back: the wallet may give it to somebody else
        pending.erase(pending.begin() + i);
    }
    void OpPay(const Op& op)
    {
        // somebody pays a script of the wallet's look-ahead window (an address the wallet never handed out in this timeline)
        std::set<CScript> handed;
        for (auto& [a, rec] : issued) handed.insert(rec.spk);
        std::vector<CScript> cand;
        for (const CScript& s : wn->AllScripts(*w))
            if (!handed.count(s) && !paid.count(s)) cand.push_back(s);
        if (cand.empty()) { ctx.ev("pay: no look-ahead script"); return; }
        const CScript& spk = cand[op.mod(0, cand.size())];
        CMutableTransaction mtx;
        mtx.version = 2;
        uint256 prev;
        Rng r((uint64_t)op.arg(1));
        r.fill(prev.begin(), 32);
        mtx.vin.emplace_back(COutPoint(Txid::FromUint256(prev), 0));
        mtx.vout.emplace_back(50000, spk);
        w->transactionAddedToMempool(MakeTransactionRef(mtx));
        node->DrainSignals();
        paid.insert(spk);
        ctx.probe("lookahead_payment");
        ctx.evf("pay cand=%zu io=%zu", cand.size(), simfs::LogSize() - k0);
    }
    /** Exploratory, outside the property's quantifier (which lists crashes and restarts, not storage errors) and therefore never
     *  generated by Gen: hand-written plans with knob io_faults=1 can make the n-th next write or sync of the wallet files fail. */
    void OpIoFault(const Op& op)
    {
        if (!ctx.knob("io_faults", 0) || simfs::FaultFired()) return;
        static const simfs::FaultKind kinds[] = {simfs::FaultKind::ENOSPC_WRITE, simfs::FaultKind::EIO_WRITE, simfs::FaultKind::EIO_SYNC};
        simfs::SetFault(kinds[op.mod(0, 3)], (uint64_t)std::clamp<int64_t>(op.arg(1), 0, 100000));
        ctx.evf("iofault armed kind=%d after=%ld", (int)op.mod(0, 3), (long)op.arg(1));
    }
    void NoteIoFault()
    {
        if (io_fault_fired || !simfs::FaultFired()) return;
        io_fault_fired = true;
        ctx.fault("io_error_injected");
        ctx.evf("iofault fired io=%zu", simfs::LogSize() - k0);
    }
    void OpCrash(const Op& op)
    {
        if (ctx.knob("enumerate", 0)) EnumerateSoFar();
        simfs::CrashSpec spec = SpecFromOp(op);
        if (op.arg(0) & 1) CrashContinue(spec);
        else Probe(spec, 2, "seeded");
    }

    void Exec(const Op& op)
    {
        switch (op.kind) {
        case A_NEW: OpAddress(op, false); break;
        case A_CHANGE: OpAddress(op, true); break;
        case A_RESERVE: OpReserve(op); break;
        case A_KEEP: OpKeep(op); break;
        case A_RETURN: OpReturn(op); break;
        case A_TOPUP: {
            unsigned before = WITH_LOCK(w->cs_wallet, return w->GetKeyPoolSize());
            bool ok = w->TopUpKeyPool((unsigned)std::clamp<int64_t>(op.arg(0), 0, 40));
            unsigned after = WITH_LOCK(w->cs_wallet, return w->GetKeyPoolSize());
            if (after > before) ctx.probe("keypool_topup_extended_range");
            ctx.evf("topup %ld -> %d pool %u->%u io=%zu", (long)op.arg(0), (int)ok, before, after, simfs::LogSize() - k0);
            break;
        }
        case A_ENCLOCK: {
            if (!w->HasEncryptionKeys()) {
                SecureString pass{"correct horse"};
                if (!wn->Encrypt(*w, pass)) ctx.failf("sim-encrypt-failed", "EncryptWallet returned false");
                ctx.probe("wallet_encrypted");
            }
            w->Lock();
            ctx.evf("encrypted and locked io=%zu", simfs::LogSize() - k0);
            break;
        }
        case A_RESTART: CleanRestart((int)op.arg(0)); break;
        case A_PAY: OpPay(op); break;
        case A_CRASH: OpCrash(op); break;
        case A_IOFAULT: OpIoFault(op); break;
        case A_CLOCK:
            now += std::clamp<int64_t>(op.arg(0), 1, 1000000);
            SetMockTime(std::chrono::seconds{now});
            break;
        default: break;
        }
        if (simfs::OpsFromOtherThreads()) ctx.failf("sim-io-from-other-thread", "%lu recorded operations came from another thread", (unsigned long)simfs::OpsFromOtherThreads());
        ctx.fingerprint(Fingerprint());
    }

    void Run()
    {
        Setup();
        for (const Op& op : ctx.plan.ops) Exec(op);
        // epilogue: the final state is crashed (kill at the very end), restarted cleanly, and every chain is asked once more
        if (ctx.knob("enumerate", 0)) EnumerateSoFar();
        else Probe(MakeSpec(simfs::LogSize(), 0, 0, false, 0), 1, "final");
        CleanRestart(keypool);
        for (int slot = 0; slot < 8; ++slot) {
            Op op;
            op.kind = slot & 1 ? A_CHANGE : A_NEW;
            op.a = {slot / 2};
            OpAddress(op, slot & 1);
        }
        ctx.probe("crash_images", images);
        if (SpkmSlotAllocations()) ctx.probe("spkm_objects_at_deterministic_addresses", SpkmSlotAllocations());
        ctx.sim_ms = (uint64_t)(now - start_time) * 1000;
        DropReservations();
        wn->UnloadWallet(w);
        simfs::Disarm();
        wn->Detach();
        wn.reset();
        node->Stop(true);
    }
};

void Run(Ctx& ctx)
{
    AddrSim s(ctx);
    s.Run();
}

Engine MakeEngine()
{
    Engine e;
    e.prop = "C62";
    e.name = "crashsim/wallet-address-uniqueness";
    e.level = "fault_enumeration";
    e.gen = Gen;
    e.run = Run;
    e.describe = Describe;
    e.chunk = 1;
    e.quick_runs = 400;
    e.thorough_runs = 1500;
    e.quick_budget_s = 50;
    e.thorough_budget_s = 900;
    e.run_timeout_s = 600;
    e.rule = "each run = one descriptor wallet (HD seed and -keypool 1-6 from the plan, production SQLite options) driven through 16-70 operations: getnewaddress / getrawchangeaddress of the four output types, "
             "ReserveDestination reserve/keep/return, keypoolrefill, clean unload+load (with a changed -keypool), payments to look-ahead addresses, clock steps, and crash operations. A crash operation cuts the recorded "
             "I/O log of the current incarnation at an index chosen uniformly / at a sync-unlink-truncate boundary / inside the I/O of a recent address call / at (or 1-2 operations after) the index at which such a call "
             "returned, with semantics kill | power loss j=k | power loss j=last sync | power loss seeded j, optional torn last append; the image is either probed (second wallet object, 2 new addresses from each of "
             "the 8 chains) or becomes the next incarnation on which the workload continues (nested crashes during the load of an image included). Thorough tier, 1/3 of the runs: EVERY log index from the first address "
             "call on x {kill, power loss j=last sync, every 4th: seeded j + torn}. Every run ends with a kill image of the final state, a clean restart and one more address from every chain. "
             "non-trivial = at least one address was returned; distinct = fingerprints of (incarnation, session, addresses handed out per chain, open reservations, lost and paid counts). The probe `crash_images` counts "
             "crash images recovered (the evaluations of the fault space); `evaluations` counts workloads.";
    e.real_components = {"wallet::CWallet::GetNewDestination / GetNewChangeDestination / TopUpKeyPool / ReserveDestination / LoadExisting / transactionAddedToMempool", "DescriptorScriptPubKeyMan (GetNewDestination, TopUp, ReturnDestination, MarkUnusedAddresses, Load)",
                         "WalletBatch / walletdb.cpp (WriteDescriptor, cache items, load)", "SQLiteDatabase/SQLiteBatch (sqlite.cpp) on the system SQLite with production pragmas (synchronous=FULL, rollback journal, exclusive locking)",
                         "interfaces::Chain (node/interfaces.cpp) over a real regtest node at genesis"};
    e.stub_components = {"disk and page cache (simfs: recorded pass-through to tmpfs; crash = log cut + rebuild; each incarnation starts from an image copied in through recorded, synced writes)", "process crash (never a real kill: the old wallet object is closed unrecorded)",
                         "HD seed (derived from the plan instead of GetStrongRandBytes)", "payments (fabricated transaction handed to the wallet's mempool notification; the node never sees it)", "clock (SetMockTime)", "peers, scheduler (none)",
                         "heap placement of DescriptorScriptPubKeyMan objects (walletsim's slot array while a WalletNode exists: CWallet::TopUpKeyPool rewrites the descriptor records in the pointer order of a std::set<ScriptPubKeyMan*>, which would make the I/O log depend on malloc history)"};
    e.assumptions = {"power-loss model of simfs: a suffix of not-yet-synced operations is discarded; fsync/fdatasync of an inode makes its earlier writes and its directory entry durable; torn writes only at 512-byte boundaries of an unsynced append",
                     "an address counts as returned before a crash at log index k iff the call that returned it had returned at index r <= k (a reservation additionally: KeepDestination had been called); otherwise reissuing it is legal",
                     "an address handed back with ReserveDestination::ReturnDestination (or by destroying an unkept reservation: unload, crash) may be reissued",
                     "wallet encryption (new HD seed from GetStrongRandBytes), descriptor import and backup/restore are not part of the histories",
                     "a wallet that cannot be loaded from a crash image is reported as wallet-load-failed (C43's concern, but the history cannot continue)",
                     "storage errors (ENOSPC/EIO) are outside the statement's quantifier: the operation that injects them (kind 20, knob io_faults) exists for hand-written exploratory plans only and is never generated"};
    e.expected_probes = {"receive_address_returned", "change_address_returned", "keypool_topup_extended_range", "clean_restart", "crash_probe", "crash_continued", "third_or_later_incarnation",
                         "crash_kill", "crash_powerloss", "unsynced_ops_dropped", "hot_journal_in_image", "crash_inside_address_call", "crash_exactly_at_return", "crash_before_return_of_some_address",
                         "crash_after_return_of_some_address", "unreturned_address_reissued_after_crash", "nested_crash_before_first_call_of_incarnation", "address_reserved", "reservation_kept", "reservation_returned_most_recent",
                         "reservation_returned_not_most_recent", "reservation_returned_by_unload", "lookahead_payment", "crash_images"};
    return e;
}
Engine g_engine = MakeEngine();
SIM_REGISTER_ENGINE(g_engine);

} // namespace
