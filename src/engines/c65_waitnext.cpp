// C65 — waiting for a new block template returns only what it promises.
// threadsim: a real regtest node (ChainstateManager + CTxMemPool + node::KernelNotifications) whose only clock is the
// simulated one. 1-3 waiter threads call node::WaitAndCreateNewBlock (what BlockTemplate::waitNext runs) on their own
// template with seeded timeouts and fee thresholds; the driver (main thread) connects blocks, reorganises, delivers stale
// blocks, adds and replaces mempool transactions so that the total fees land exactly on / one below / one above
// "previous fees + threshold", calls InterruptWait (what BlockTemplate::interruptWait runs), sleeps on the simulated
// clock and (knob) jumps it. Exactly one thread runs at a time; the seed decides every switch. Every call is recorded as
// (start event, return event, simulated times, previous template, result) together with the history of tip
// notifications, mempool states and interrupts; the oracle is evaluated on that record after all threads are joined.
#include "../core/sim.h"
#include "../nodesim/chaingen.h"
#include "../nodesim/refchain.h"
#include "../threadsim/threadsim.h"

#include <chainparams.h>
#include <consensus/amount.h>
#include <consensus/validation.h>
#include <kernel/caches.h>
#include <kernel/mempool_options.h>
#include <node/blockstorage.h>
#include <node/chainstate.h>
#include <node/kernel_notifications.h>
#include <node/miner.h>
#include <node/mining_types.h>
#include <node/warnings.h>
#include <policy/policy.h>
#include <txmempool.h>
#include <util/fs.h>
#include <util/signalinterrupt.h>
#include <util/task_runner.h>
#include <util/time.h>
#include <util/translation.h>
#include <validation.h>
#include <validationinterface.h>

#include <atomic>
#include <chrono>
#include <memory>
#include <optional>
#include <thread>

using namespace sim;
using namespace nodesim;

namespace {

enum { W_CALL = 1, D_SLEEP, D_BLOCK, D_REORG, D_TX, D_RBF, D_INTERRUPT, D_ADVANCE, D_STALE, N_KINDS };

constexpr uint64_t INF = UINT64_MAX;
constexpr uint64_t MS = 1'000'000ULL, SEC = 1'000'000'000ULL;
constexpr uint64_t TICK_NS = SEC;              // the implementation's fee-check period; also the liveness slack of the design
constexpr uint64_t EPS_NS = 2000;              // deadlines are computed in double nanoseconds (granularity 256 ns at 2030)
constexpr int64_t REAL_BASE_S = 1893456000;    // threadsim's CLOCK_REALTIME at simulated time 0 (2030-01-01)
constexpr int64_t MIN_DIFF_AGE_S = 20 * 60;

// timeouts in ns; INF = MillisecondsDouble::max() (the interface default)
const uint64_t kTimeouts[] = {0, 1 * MS, 250 * MS, 1 * SEC, 1500 * MS, 2 * SEC, 3700 * MS, 30 * SEC, 7200 * SEC, INF};
constexpr int N_TIMEOUTS = 10;
const uint64_t kPauses[] = {0, 0, 0, 100'000, 1 * MS, 137 * MS, 600 * MS, 1 * SEC};
constexpr int N_PAUSES = 8;
const uint64_t kSleeps[] = {100'000, 500'000, 1 * MS, 10 * MS, 300 * MS, 700 * MS, 999'999'000, 1 * SEC, 1'000'001'000, 1300 * MS, 2500 * MS, 5 * SEC};
constexpr int N_SLEEPS = 12;
const uint64_t kJumps[] = {1 * MS, 1 * SEC, 10 * SEC, 90 * SEC, 1260 * SEC};
constexpr int N_JUMPS = 5;

std::string TimeoutName(uint64_t t)
{
    if (t == INF) return "max";
    char b[40];
    snprintf(b, sizeof b, "%.6gms", (double)t / 1e6);
    return b;
}

CAmount Threshold(const Op& op)
{
    switch (op.mod(2, 6)) {
    case 0: return 0;
    case 1: return 1;
    case 2: return std::clamp<int64_t>(op.arg(3), 2, 10'000'000);
    case 4: return std::numeric_limits<int64_t>::max();                          // above MAX_MONEY: fees are ignored just the same
    case 5: return std::numeric_limits<int64_t>::max() - (op.arg(3) % 20000);   // previous fees + threshold must not be computed
    default: return MAX_MONEY;
    }
}

std::string Describe(const Op& op)
{
    char b[240];
    switch (op.kind) {
    case W_CALL:
        snprintf(b, sizeof b, "waiter#%ld: pause %.6gms, %swaitNext(timeout=%s, fee_threshold=%ld)", (long)op.arg(0), (double)kPauses[op.mod(4, N_PAUSES)] / 1e6, op.arg(5) ? "new template, " : "",
                 TimeoutName(kTimeouts[op.mod(1, N_TIMEOUTS)]).c_str(), (long)Threshold(op));
        break;
    case D_SLEEP: snprintf(b, sizeof b, "driver sleeps %.6gms (simulated)", (double)kSleeps[op.mod(0, N_SLEEPS)] / 1e6); break;
    case D_BLOCK: snprintf(b, sizeof b, "connect a block on the tip confirming <=%ld mempool txs (time mode %ld, delta %ld)", (long)op.arg(0), (long)op.mod(1, 4), (long)op.arg(2)); break;
    case D_REORG: snprintf(b, sizeof b, "reorg: fork %ld below the tip, %ld+1 blocks (time mode %ld)", (long)(1 + op.mod(0, 2)), (long)(1 + op.mod(0, 2)), (long)op.mod(1, 4)); break;
    case D_TX: snprintf(b, sizeof b, "add mempool tx (fee mode %ld aimed at waiter#%ld, seed %ld)", (long)op.mod(0, 5), (long)op.arg(1), (long)op.arg(2)); break;
    case D_RBF: snprintf(b, sizeof b, "replace mempool tx #%ld (fee mode %ld aimed at waiter#%ld, seed %ld)", (long)op.arg(3), (long)op.mod(0, 5), (long)op.arg(1), (long)op.arg(2)); break;
    case D_INTERRUPT: snprintf(b, sizeof b, "interruptWait on waiter#%ld's current template", (long)op.arg(0)); break;
    case D_ADVANCE: snprintf(b, sizeof b, "clock jumps forward %.6gms", (double)kJumps[op.mod(0, N_JUMPS)] / 1e6); break;
    case D_STALE: snprintf(b, sizeof b, "deliver a sibling of the tip (no more work: tip must not change)"); break;
    default: snprintf(b, sizeof b, "?");
    }
    return b;
}

Plan Gen(uint64_t seed, Tier tier)
{
    Rng rng(seed);
    Plan p;
    p.knobs["policy"] = rng.pick({2, 5, 3}); // 0 cooperative, 1 preemptive, 2 PCT
    p.knobs["switch_per_1024"] = (int64_t)(32 << rng.below(4));
    p.knobs["pct_depth"] = rng.range(2, 6);
    p.knobs["sched_seed"] = (int64_t)(rng.next() >> 8);
    int nw = (int)rng.range(1, 3);
    p.knobs["waiters"] = nw;
    p.knobs["extra_base"] = rng.range(0, 2);
    p.knobs["fresh_tail"] = rng.range(1, 5);
    p.knobs["zero_floor"] = rng.chance(1, 2);      // -minrelaytxfee=0 -incrementalrelayfee=0 -blockmintxfee=0: 1-sat fee steps are possible
    p.knobs["clock_jumps"] = rng.chance(1, 4);     // AdvanceNs "faults": calls that overlap one are exempt from the timing clauses
    p.knobs["start_ns"] = (int64_t)rng.below(SEC);
    p.knobs["spurious"] = rng.chance(1, 4);        // fault: 1/16 of condition-variable waits return without a signal
    p.knobs["seed_txs"] = rng.range(0, 5);
    // one mempool transaction whose fee puts the pool's total next to 2^31 satoshi (21.47 BTC): later fee steps cross that boundary
    p.knobs["big_fee"] = 0;
    p.knobs["drain_s"] = rng.pick({1, 3}) == 0 ? 4 : 35;
    // thresholds "k": with the default relay floors a step below ~110 sat cannot be produced by one transaction
    const int64_t ks0[] = {2, 7, 1000, 12345, 100000}, ks1[] = {150, 1000, 5000, 12345, 100000};
    const int64_t* ks = p.knobs["zero_floor"] ? ks0 : ks1;
    const int64_t k = ks[rng.below(5)];
    const bool jumps = p.knobs["clock_jumps"] != 0;
    int nops = tier == Tier::THOROUGH ? (int)rng.range(24, 90) : (int)rng.range(16, 48);
    for (int i = 0; i < nops; ++i) {
        Op op;
        if (rng.chance(38, 100)) {
            op.kind = W_CALL;
            int64_t to = (int64_t)rng.pick({6, 10, 10, 14, 10, 8, 5, 1, 7, 8});
            int64_t thk = (int64_t)rng.pick({3, 4, 6, 3, 1, 1});
            op.a = {(int64_t)rng.below(nw), to, thk, rng.chance(3, 4) ? k : ks[rng.below(5)], (int64_t)rng.below(N_PAUSES), (int64_t)rng.chance(2, 5)};
        } else {
            int kd = (int)rng.pick({30, 14, 4, 22, 6, 10, jumps ? 5u : 0u, 3});
            op.kind = D_SLEEP + kd;
            switch (op.kind) {
            case D_SLEEP: op.a = {(int64_t)rng.pick({4, 4, 6, 4, 10, 10, 4, 8, 4, 6, 4, 2})}; break;
            case D_BLOCK: op.a = {(int64_t)rng.skewed(0, 8), (int64_t)rng.pick({6, 5, 2, 1}), rng.range(-3, 3), (int64_t)(rng.next() >> 40)}; break;
            case D_REORG: op.a = {(int64_t)rng.below(2), (int64_t)rng.pick({6, 3, 1, 1}), rng.range(-3, 3), (int64_t)(rng.next() >> 40)}; break;
            case D_TX: op.a = {(int64_t)rng.pick({2, 6, 5, 2, 1}), (int64_t)rng.below(nw), (int64_t)(rng.next() >> 40)}; break;
            case D_RBF: op.a = {(int64_t)rng.pick({2, 6, 5, 2, 1}), (int64_t)rng.below(nw), (int64_t)(rng.next() >> 40), (int64_t)rng.below(64)}; break;
            case D_INTERRUPT: op.a = {(int64_t)rng.below(nw)}; break;
            case D_ADVANCE: op.a = {(int64_t)rng.pick({4, 4, 3, 2, 1})}; break;
            case D_STALE: op.a = {(int64_t)(rng.next() >> 40)}; break;
            }
        }
        p.ops.push_back(op);
    }
    p.knobs["big_fee"] = rng.chance(1, 5) ? (int64_t)rng.range(1, 60000) : 0; // drawn last: the rest of the plan does not depend on it
    return p;
}

// ---------------------------------------------------------------------------------------------
// recorded history

struct TipEv { uint64_t pre, post, ns; uint256 hash; int64_t btime; };
struct StateRec { uint64_t pre, post, ns; uint256 tip; CAmount total; };            //!< state AFTER a driver op (first = when the waiters start)
struct IntrEv { uint64_t pre, post, ns; int waiter, gen; };
struct CallRec {
    int waiter{0}, idx{0}, gen{0};
    uint64_t s_seq{0}, r_seq{0}, s_ns{0}, r_ns{0}, adv_s{0}, adv_r{0};
    uint64_t timeout{0};
    CAmount th{0}, F0{0}, F1{0};
    uint256 P, Q;
    bool nonnull{false};
};
struct TxInfo { CAmount fee; int coin; };
struct Coin { COutPoint op; CAmount value; CScript spk; int height; bool used{false}; };
struct CallSpec { uint64_t timeout; CAmount th; uint64_t pause; bool refresh; };

struct Shared;

class RecNotifications : public node::KernelNotifications
{
public:
    Shared* sh{nullptr};
    std::vector<std::string> fatal;
    using node::KernelNotifications::KernelNotifications;
    kernel::InterruptResult blockTip(SynchronizationState state, const CBlockIndex& index, double progress) override;
    void flushError(const bilingual_str& m) override { fatal.push_back("flush: " + m.original); }
    void fatalError(const bilingual_str& m) override { fatal.push_back("fatal: " + m.original); }
};

/** The node: SimNode's construction sequence with node::KernelNotifications as `.notifications` (SimNode has its own stub). */
struct WNode {
    std::unique_ptr<const CChainParams> params;
    util::SignalInterrupt interrupt;
    std::function<bool()> shutdown_fn{[] { return true; }};
    std::atomic<int> exit_status{0};
    node::Warnings warnings;
    std::unique_ptr<RecNotifications> notif;
    std::unique_ptr<ValidationSignals> signals;
    std::unique_ptr<CTxMemPool> mempool;
    std::unique_ptr<ChainstateManager> chainman;
    std::string err;

    bool Start(const std::string& dirname, bool zero_floor, Shared* sh)
    {
        params = CChainParams::RegTest(CChainParams::RegTestOptions{});
        fs::path dir = fs::PathFromString(dirname);
        fs::create_directories(dir / "blocks");
        notif = std::make_unique<RecNotifications>(shutdown_fn, exit_status, warnings);
        notif->sh = sh;
        signals = std::make_unique<ValidationSignals>(std::make_unique<util::ImmediateTaskRunner>());
        CTxMemPool::Options mo;
        mo.check_ratio = 0;
        mo.signals = signals.get();
        if (zero_floor) {
            mo.min_relay_feerate = CFeeRate{0};
            mo.incremental_relay_feerate = CFeeRate{0};
        }
        bilingual_str e;
        mempool = std::make_unique<CTxMemPool>(mo, e);
        if (!e.empty()) { err = "mempool: " + e.original; return false; }
        kernel::CacheSizes caches{32 << 20};
        ChainstateManager::Options co{
            .chainparams = *params,
            .datadir = dir,
            .check_block_index = 0,
            .notifications = *notif,
            .signals = signals.get(),
            .worker_threads_num = 0,
            .prevoutfetch_threads_num = 0,
        };
        co.max_tip_age = std::chrono::hours{24 * 365 * 100};
        co.signature_cache_bytes = 1 << 20;
        co.script_execution_cache_bytes = 1 << 20;
        node::BlockManager::Options bo{
            .chainparams = *params,
            .blocks_dir = dir / "blocks",
            .notifications = *notif,
            .block_tree_db_params = DBParams{.path = dir / "blocks" / "index", .cache_bytes = caches.block_tree_db, .memory_only = true},
        };
        try {
            chainman = std::make_unique<ChainstateManager>(interrupt, co, bo);
            node::ChainstateLoadOptions lo;
            lo.mempool = mempool.get();
            lo.coins_db_in_memory = true;
            lo.check_blocks = 0;
            lo.check_level = 3;
            auto [st, er] = node::LoadChainstate(*chainman, caches, lo);
            if (st != node::ChainstateLoadStatus::SUCCESS) { err = "LoadChainstate: " + er.original; return false; }
            std::tie(st, er) = node::VerifyLoadedChainstate(*chainman, lo);
            if (st != node::ChainstateLoadStatus::SUCCESS) { err = "VerifyLoadedChainstate: " + er.original; return false; }
        } catch (const std::exception& ex) {
            err = std::string("exception: ") + ex.what();
            return false;
        }
        BlockValidationState state;
        if (!chainman->ActiveChainstate().ActivateBestChain(state)) { err = "ActivateBestChain: " + state.ToString(); return false; }
        return true;
    }
    void Stop()
    {
        if (signals) signals->FlushBackgroundCallbacks();
        chainman.reset();
        mempool.reset();
        signals.reset();
    }
};

struct Blk { uint256 hash; int parent; int height; int64_t time; std::shared_ptr<const CBlock> block; };

struct Waiter {
    int id{0};
    std::vector<CallSpec> specs;
    std::unique_ptr<node::CBlockTemplate> tmpl;
    std::vector<std::unique_ptr<bool>> flags; //!< one interrupt flag per template generation (BlockTemplateImpl::m_interrupt_wait)
    int gen{-1};
    bool in_call{false}, finished{false};
    size_t next_spec{0};
    CAmount tmpl_fees{0};
    int ncalls{0};
    std::thread th;
};

struct Shared {
    Ctx& ctx;
    WNode node;
    bool zero_floor{false};
    uint64_t seq{0}, adv_count{0};
    bool stop{false};
    std::vector<TipEv> tips;
    std::vector<StateRec> states;
    std::vector<IntrEv> intrs;
    std::vector<CallRec> calls;
    std::map<Txid, TxInfo> txs;
    std::vector<Coin> coins;
    std::vector<Blk> blks;
    std::map<uint256, int> by_hash;
    std::vector<std::unique_ptr<Waiter>> waiters;
    std::vector<std::string> errors;
    uint64_t extranonce{1};
    int base_height{0};
    node::BlockCreateOptions copts;

    explicit Shared(Ctx& c) : ctx(c) {}

    int64_t NowS() const { return REAL_BASE_S + (int64_t)(threadsim::NowNs() / SEC); }
    static std::string Hx(const uint256& h) { return h.ToString().substr(0, 10); }

    int64_t MTP(int idx) const
    {
        std::vector<int64_t> t;
        for (int i = idx, n = 0; i >= 0 && n < 11; i = blks[i].parent, ++n) t.push_back(blks[i].time);
        std::sort(t.begin(), t.end());
        return t[t.size() / 2];
    }
    CAmount FeeOf(const CTransaction& tx)
    {
        auto it = txs.find(tx.GetHash());
        if (it == txs.end()) { errors.push_back("transaction " + tx.GetHash().ToString() + " is unknown to the generator"); return 0; }
        return it->second.fee;
    }
    CAmount TemplateFees(const node::CBlockTemplate& t)
    {
        CAmount s = 0;
        for (size_t i = 1; i < t.block.vtx.size(); ++i) s += FeeOf(*t.block.vtx[i]);
        return s;
    }
    /** fees of everything in the mempool, from the generator's own fee table (not the mempool's accounting) */
    CAmount PoolFees()
    {
        CAmount s = 0;
        for (const auto& i : node.mempool->infoAll()) s += FeeOf(*i.tx);
        return s;
    }
    std::vector<Txid> PoolIds()
    {
        std::vector<Txid> v;
        for (const auto& i : node.mempool->infoAll()) v.push_back(i.tx->GetHash());
        std::sort(v.begin(), v.end());
        return v;
    }
    uint256 LastTip() const { return tips.empty() ? uint256{} : tips.back().hash; }
    void RecordState(uint64_t pre)
    {
        StateRec r;
        r.pre = pre;
        r.tip = LastTip();
        r.total = PoolFees();
        r.ns = threadsim::NowNs();
        r.post = ++seq;
        states.push_back(r);
        ctx.fingerprint(mix64(mix64(r.tip.GetUint64(0), (uint64_t)r.total), calls.size()));
    }
    int AddBlk(std::shared_ptr<const CBlock> b, int parent)
    {
        Blk k;
        k.hash = b->GetHash();
        k.parent = parent;
        k.height = parent < 0 ? 0 : blks[parent].height + 1;
        k.time = b->GetBlockTime();
        k.block = std::move(b);
        by_hash[k.hash] = (int)blks.size();
        blks.push_back(std::move(k));
        return (int)blks.size() - 1;
    }
    int Build(int parent, const std::vector<CTransactionRef>& vtx, int64_t want_time)
    {
        int64_t t = std::max(want_time, MTP(parent) + 1);
        if (t != want_time) ctx.probe("block_time_clamped_to_mtp");
        CAmount fees = 0;
        for (auto& tx : vtx) fees += FeeOf(*tx);
        BlockExtras ex;
        ex.cb_extranonce = (uint32_t)extranonce++;
        const int height = blks[parent].height + 1;
        auto b = BuildBlock(blks[parent].hash, height, t, vtx, RefSubsidy(height) + fees, ex, node.params->GetConsensus());
        return AddBlk(b, parent);
    }
    bool Deliver(int idx)
    {
        bool nb = false;
        bool ok = node.chainman->ProcessNewBlock(blks[idx].block, /*force_processing=*/true, /*min_pow_checked=*/true, &nb);
        if (!ok || !nb) errors.push_back("generated block #" + std::to_string(idx) + " not accepted");
        return ok;
    }
    int TipIdx() const
    {
        auto it = by_hash.find(LastTip());
        return it == by_hash.end() ? -1 : it->second;
    }
    int64_t BlockTimeFor(int mode, int64_t delta) const
    {
        const int64_t now = NowS();
        switch (mode) {
        case 1: return now - MIN_DIFF_AGE_S + delta; // crosses "older than 20 minutes" within a few simulated seconds
        case 2: return now - MIN_DIFF_AGE_S + 5;
        case 3: return now + 30;
        default: return now;
        }
    }
    std::unique_ptr<node::CBlockTemplate> FreshTemplate()
    {
        LOCK(cs_main);
        return node::BlockAssembler{node.chainman->ActiveChainstate(), node.mempool.get(), copts}.CreateNewBlock();
    }
};

kernel::InterruptResult RecNotifications::blockTip(SynchronizationState state, const CBlockIndex& index, double progress)
{
    size_t i = 0;
    if (sh) {
        // cs_main is held: nobody can have built on this tip yet, nobody has seen the notification yet
        TipEv e;
        e.pre = ++sh->seq;
        e.post = INF;
        e.ns = threadsim::NowNs();
        e.hash = index.GetBlockHash();
        e.btime = index.GetBlockTime();
        i = sh->tips.size();
        sh->tips.push_back(e);
    }
    auto r = node::KernelNotifications::blockTip(state, index, progress);
    if (sh) {
        sh->tips[i].post = ++sh->seq; // TipBlock() has the new value and the waiters were notified
        if (sh->waiters.size()) sh->ctx.evf("tip -> %s h=%d time=now%+lld", Shared::Hx(index.GetBlockHash()).c_str(), index.nHeight, (long long)(index.GetBlockTime() - sh->NowS()));
    }
    return r;
}

// ---------------------------------------------------------------------------------------------
// waiter threads

void AdoptTemplate(Shared& S, Waiter& w, std::unique_ptr<node::CBlockTemplate> t)
{
    w.tmpl = std::move(t);
    w.tmpl_fees = S.TemplateFees(*w.tmpl);
    w.flags.push_back(std::make_unique<bool>(false));
    w.gen = (int)w.flags.size() - 1;
}

void WaiterMain(Shared* sp, int wi)
{
    Shared& S = *sp;
    Waiter& w = *S.waiters[wi];
    try {
        AdoptTemplate(S, w, S.FreshTemplate());
        for (; w.next_spec < w.specs.size() && !S.stop; ++w.next_spec) {
            const CallSpec spec = w.specs[w.next_spec];
            if (spec.pause) std::this_thread::sleep_for(std::chrono::nanoseconds{(int64_t)spec.pause});
            if (S.stop) break;
            if (spec.refresh) AdoptTemplate(S, w, S.FreshTemplate());
            CallRec c;
            c.waiter = wi;
            c.idx = w.ncalls++;
            c.gen = w.gen;
            c.timeout = spec.timeout;
            c.th = std::min<CAmount>(spec.th, MAX_MONEY); // the oracle's arithmetic stays within MAX_MONEY; the call gets the raw value
            c.P = w.tmpl->block.hashPrevBlock;
            c.F0 = w.tmpl_fees;
            node::BlockWaitOptions wo;
            wo.timeout = spec.timeout == INF ? MillisecondsDouble::max() : MillisecondsDouble{(double)spec.timeout / 1e6};
            wo.fee_threshold = spec.th;
            S.ctx.evf("w%d call#%d start gen=%d prev=%s fees=%lld timeout=%s th=%lld", wi, c.idx, c.gen, Shared::Hx(c.P).c_str(), (long long)c.F0, TimeoutName(c.timeout).c_str(), (long long)c.th);
            bool& flag = *w.flags[c.gen];
            w.in_call = true;
            // No scheduling point between these samples and the function's own first clock read (clock reads do not yield).
            c.adv_s = S.adv_count;
            c.s_ns = threadsim::NowNs();
            c.s_seq = ++S.seq;
            auto nt = node::WaitAndCreateNewBlock(*S.node.chainman, *S.node.notif, S.node.mempool.get(), w.tmpl, wo, S.copts, flag);
            c.r_seq = ++S.seq;
            c.r_ns = threadsim::NowNs();
            c.adv_r = S.adv_count;
            w.in_call = false;
            c.nonnull = nt != nullptr;
            if (nt) {
                c.Q = nt->block.hashPrevBlock;
                c.F1 = S.TemplateFees(*nt);
                CAmount claimed = 0;
                for (CAmount f : nt->vTxFees) claimed += f;
                if (claimed != c.F1) S.errors.push_back("template's vTxFees sum differs from the generator's fee table");
            }
            S.ctx.evf("w%d call#%d -> %s %s fees=%lld at +%llums", wi, c.idx, c.nonnull ? "template on" : "null", c.nonnull ? Shared::Hx(c.Q).c_str() : "", (long long)c.F1, (unsigned long long)((c.r_ns - c.s_ns) / MS));
            S.calls.push_back(c);
            if (nt) AdoptTemplate(S, w, std::move(nt));
        }
    } catch (const std::exception& e) {
        S.errors.push_back(std::string("waiter thread exception: ") + e.what());
    }
    w.in_call = false;
    w.finished = true;
}

// ---------------------------------------------------------------------------------------------
// driver

struct Driver {
    Shared& S;
    Ctx& ctx;
    explicit Driver(Shared& s) : S(s), ctx(s.ctx) {}

    void Setup()
    {
        const int base = 101 + (int)std::clamp<int64_t>(ctx.knob("extra_base", 0), 0, 8);
        const int tail = (int)std::clamp<int64_t>(ctx.knob("fresh_tail", 1), 1, 8);
        S.AddBlk(std::make_shared<const CBlock>(S.node.params->GenesisBlock()), -1);
        const int64_t now = S.NowS();
        int tip = 0;
        for (int h = 1; h <= base; ++h) {
            int64_t t = h > base - tail ? now - (base - h) : now - 1500 - (base - h);
            std::vector<CTransactionRef> vtx;
            if (h == 101) {
                // fan the first coinbase out into independent confirmed coins
                const CBlock& b1 = *S.blks[1].block;
                const CTxOut& cb = b1.vtx[0]->vout[0];
                TxIn in{COutPoint(b1.vtx[0]->GetHash(), 0), RefCoin{cb.nValue, cb.scriptPubKey, 1, true}, 0xffffffff};
                const int n = 64;
                std::vector<CTxOut> outs;
                const bool big = ctx.knob("big_fee", 0) != 0; // coin 0 gets half of the coinbase so that it can pay a fee of about 2^31 sat
                for (int i = 0; i < n; ++i) outs.emplace_back(big ? (i == 0 ? cb.nValue / 2 : cb.nValue / 2 / (n - 1) - 1100) : cb.nValue / n - 1000, Keys().Spk(i % 3 == 2 ? SK::P2TR : SK::P2WPKH, i));
                bool ok = true;
                auto tx = BuildTx({in}, outs, 0, 2, SigDefect::NONE, 0, ok);
                {
                    CAmount outsum = 0;
                    for (auto& o : outs) outsum += o.nValue;
                    S.txs[tx->GetHash()] = TxInfo{cb.nValue - outsum, -1};
                }
                for (int i = 0; i < n; ++i) S.coins.push_back(Coin{COutPoint(tx->GetHash(), (uint32_t)i), outs[i].nValue, outs[i].scriptPubKey, 101});
                vtx.push_back(tx);
            }
            tip = S.Build(tip, vtx, t);
            S.Deliver(tip);
        }
        S.base_height = base;
        if (S.node.chainman->ActiveHeight() != base || S.LastTip() != S.blks[tip].hash) ctx.failf("harness-base-chain", "base chain not connected (height %d, want %d)", S.node.chainman->ActiveHeight(), base);
        Rng r(mix64(ctx.plan.seed, 0x5eed));
        int n = (int)std::clamp<int64_t>(ctx.knob("seed_txs", 0), 0, 16);
        if (const int64_t bf = ctx.knob("big_fee", 0); bf != 0 && !S.coins.empty() && !S.coins[0].used) {
            const CAmount fee = (CAmount{1} << 31) - 30000 + bf; // 2^31 - 30000 .. 2^31 + 30000
            if (fee < S.coins[0].value) {
                auto tx = Spend(0, fee);
                S.coins[0].used = true;
                if (Submit(tx, fee, 0, "add tx with a fee next to 2^31 sat")) ctx.probe("pool_fees_next_to_2_pow_31");
            }
        }
        for (int i = 0; i < n; ++i) AddTx((CAmount)r.range(S.zero_floor ? 1 : 200, 30000));
    }

    int FreeCoin()
    {
        for (size_t i = 0; i < S.coins.size(); ++i)
            if (!S.coins[i].used) return (int)i;
        return -1;
    }
    CTransactionRef Spend(int coin, CAmount fee)
    {
        const Coin& c = S.coins[coin];
        TxIn in{c.op, RefCoin{c.value, c.spk, c.height, false}, 0xfffffffd};
        std::vector<CTxOut> outs{CTxOut(c.value - fee, Keys().Spk(SK::P2WPKH, coin))};
        bool ok = true;
        return BuildTx({in}, outs, 0, 2, SigDefect::NONE, 0, ok);
    }
    CAmount MinFee(const CTransaction& tx) const { return S.zero_floor ? 1 : (100 * GetVirtualTransactionSize(tx) + 999) / 1000; }
    bool Submit(const CTransactionRef& tx, CAmount fee, int coin, const char* what)
    {
        S.txs[tx->GetHash()] = TxInfo{fee, coin}; // before submission: a waiter may assemble it before this thread runs again
        bool valid;
        std::string reason;
        size_t replaced = 0;
        {
            LOCK(cs_main);
            const MempoolAcceptResult res = S.node.chainman->ProcessTransaction(tx);
            valid = res.m_result_type == MempoolAcceptResult::ResultType::VALID;
            reason = res.m_state.GetRejectReason();
            replaced = res.m_replaced_transactions.size();
        }
        ctx.evf("%s %s fee=%lld -> %s %s replaced=%zu", what, tx->GetHash().ToString().substr(0, 10).c_str(), (long long)fee, valid ? "accepted" : "rejected", reason.c_str(), replaced);
        if (valid) ctx.probe(replaced ? "replacement_accepted" : "tx_accepted");
        else ctx.probe("tx_rejected");
        return valid;
    }
    bool AddTx(CAmount fee)
    {
        int coin = FreeCoin();
        if (coin < 0) { ctx.probe("out_of_coins"); return false; }
        auto tx = Spend(coin, fee);
        if (fee < MinFee(*tx)) { fee = MinFee(*tx); tx = Spend(coin, fee); }
        S.coins[coin].used = true;
        return Submit(tx, fee, coin, "add tx");
    }
    /** The amount by which the pool's total fees would have to rise to hit a waiter's return condition (+adj): preferably a
     *  waiter that is inside a call right now on a template of the current tip, else the aimed-at waiter's next call. */
    std::optional<CAmount> AimedDelta(const Op& op, int mode)
    {
        const size_t n = S.waiters.size();
        const Waiter* pick = nullptr;
        for (size_t k = 0; k < n && !pick; ++k) {
            const Waiter& w = *S.waiters[(op.mod(1, n) + k) % n];
            if (w.in_call && w.next_spec < w.specs.size() && w.specs[w.next_spec].th < MAX_MONEY && w.tmpl && w.tmpl->block.hashPrevBlock == S.LastTip()) pick = &w;
        }
        if (!pick) pick = S.waiters[op.mod(1, n)].get();
        if (pick->next_spec >= pick->specs.size() || !pick->tmpl) return std::nullopt;
        const CAmount th = pick->specs[pick->next_spec].th;
        if (th >= MAX_MONEY) return std::nullopt;
        const CAmount adj = mode == 2 ? -1 : mode == 3 ? 1 : 0;
        return pick->tmpl_fees + th + adj - S.PoolFees();
    }
    void OpTx(const Op& op)
    {
        const int mode = (int)op.mod(0, 5);
        Rng r((uint64_t)op.arg(2));
        CAmount fee = (CAmount)r.range(S.zero_floor ? 1 : 200, 20000);
        int coin = FreeCoin();
        if (coin < 0) { ctx.probe("out_of_coins"); return; }
        if (mode >= 1 && mode <= 3 && S.waiters.size()) {
            auto d = AimedDelta(op, mode);
            auto probe_tx = Spend(coin, 1000);
            if (d && *d >= MinFee(*probe_tx) && *d < S.coins[coin].value / 2) {
                fee = *d;
                ctx.probe(mode == 1 ? "fee_aimed_exactly_at_threshold" : mode == 2 ? "fee_aimed_one_below_threshold" : "fee_aimed_one_above_threshold");
            } else {
                ctx.probe("fee_target_unreachable");
            }
        }
        AddTx(fee);
    }
    void OpRbf(const Op& op)
    {
        auto ids = S.PoolIds();
        if (ids.empty()) { OpTx(op); return; }
        const Txid victim = ids[op.mod(3, ids.size())];
        const TxInfo vi = S.txs[victim];
        if (vi.coin < 0) return;
        const int mode = (int)op.mod(0, 5);
        Rng r((uint64_t)op.arg(2));
        auto probe_tx = Spend(vi.coin, vi.fee);
        const CAmount min_delta = MinFee(*probe_tx);
        CAmount delta = min_delta + (CAmount)r.range(0, 3000);
        if (mode >= 1 && mode <= 3 && S.waiters.size()) {
            auto d = AimedDelta(op, mode);
            if (d && *d >= min_delta && vi.fee + *d < S.coins[vi.coin].value / 2) {
                delta = *d;
                ctx.probe(mode == 1 ? "fee_aimed_exactly_at_threshold" : mode == 2 ? "fee_aimed_one_below_threshold" : "fee_aimed_one_above_threshold");
            } else {
                ctx.probe("fee_target_unreachable");
            }
        }
        Submit(Spend(vi.coin, vi.fee + delta), vi.fee + delta, vi.coin, "replace tx");
    }
    void OpBlock(const Op& op)
    {
        int tip = S.TipIdx();
        if (tip < 0) return;
        std::vector<CTransactionRef> vtx;
        size_t want = (size_t)std::clamp<int64_t>(op.arg(0), 0, 1000);
        for (const auto& i : S.node.mempool->infoAll()) vtx.push_back(i.tx);
        std::sort(vtx.begin(), vtx.end(), [](const CTransactionRef& a, const CTransactionRef& b) { return a->GetHash() < b->GetHash(); });
        if (vtx.size() > want) vtx.resize(want);
        int idx = S.Build(tip, vtx, S.BlockTimeFor((int)op.mod(1, 4), op.arg(2)));
        ctx.evf("block #%d h=%d txs=%zu time=now%+lld", idx, S.blks[idx].height, vtx.size(), (long long)(S.blks[idx].time - S.NowS()));
        S.Deliver(idx);
        ctx.probe("block_connected");
    }
    void OpReorg(const Op& op)
    {
        int tip = S.TipIdx();
        if (tip < 0) return;
        int depth = 1 + (int)op.mod(0, 2);
        int fork = tip;
        int d = 0;
        while (d < depth && S.blks[fork].height > S.base_height) { fork = S.blks[fork].parent; ++d; }
        int cur = fork;
        for (int i = 0; i <= d; ++i) {
            cur = S.Build(cur, {}, S.BlockTimeFor(i == d ? (int)op.mod(1, 4) : 0, op.arg(2)));
            S.Deliver(cur);
        }
        ctx.evf("reorg depth=%d new tip #%d h=%d", d, cur, S.blks[cur].height);
        if (d > 0) ctx.probe("reorg");
        else ctx.probe("block_connected");
    }
    void OpStale(const Op&)
    {
        int tip = S.TipIdx();
        if (tip < 0 || S.blks[tip].parent < 0) return;
        int idx = S.Build(S.blks[tip].parent, {}, S.NowS());
        const size_t before = S.tips.size();
        S.Deliver(idx);
        if (S.tips.size() != before) S.errors.push_back("a sibling with equal work changed the tip");
        ctx.probe("stale_block_delivered");
    }
    void OpInterrupt(int wi, const char* why)
    {
        Waiter& w = *S.waiters[wi];
        if (w.gen < 0) return;
        IntrEv e;
        e.waiter = wi;
        e.gen = w.gen;
        e.ns = threadsim::NowNs();
        e.post = INF;
        e.pre = ++S.seq;
        size_t i = S.intrs.size();
        S.intrs.push_back(e);
        ctx.evf("interruptWait w%d gen=%d (%s, waiter %s)", wi, w.gen, why, w.in_call ? "waiting" : "not waiting");
        ctx.probe(w.in_call ? "interrupt_while_waiting" : "interrupt_while_not_waiting");
        node::InterruptWait(*S.node.notif, *w.flags[e.gen]);
        S.intrs[i].post = ++S.seq;
    }
    void Exec(const Op& op)
    {
        const uint64_t pre = ++S.seq;
        switch (op.kind) {
        case D_SLEEP:
            ctx.evf("sleep %llu ns", (unsigned long long)kSleeps[op.mod(0, N_SLEEPS)]);
            std::this_thread::sleep_for(std::chrono::nanoseconds{(int64_t)kSleeps[op.mod(0, N_SLEEPS)]});
            return;
        case D_ADVANCE:
            if (!ctx.knob("clock_jumps", 0)) return;
            ++S.adv_count;
            threadsim::AdvanceNs(kJumps[op.mod(0, N_JUMPS)]);
            ctx.evf("clock jump %llu ns", (unsigned long long)kJumps[op.mod(0, N_JUMPS)]);
            ctx.fault("clock_jump");
            return;
        case D_INTERRUPT: OpInterrupt((int)op.mod(0, S.waiters.size()), "op"); return;
        case D_BLOCK: OpBlock(op); break;
        case D_REORG: OpReorg(op); break;
        case D_TX: OpTx(op); break;
        case D_RBF: OpRbf(op); break;
        case D_STALE: OpStale(op); break;
        default: return;
        }
        S.RecordState(pre);
    }
};

// ---------------------------------------------------------------------------------------------
// oracle (evaluated on the recorded history, single-threaded, after the scheduler is disarmed)

struct Oracle {
    Shared& S;
    Ctx& ctx;
    explicit Oracle(Shared& s) : S(s), ctx(s.ctx) {}

    static uint64_t Add(uint64_t a, uint64_t b) { return a > INF - b ? INF : a + b; }
    static std::string Hx(const uint256& h) { return Shared::Hx(h); }

    void Check(const CallRec& c)
    {
        const bool timed = c.adv_s == c.adv_r;
        const uint64_t D = c.timeout == INF ? INF : Add(c.s_ns, c.timeout);
        char who[160];
        snprintf(who, sizeof who, "waiter %d call %d (timeout=%s, fee_threshold=%lld, previous template on %s with fees %lld, start %.6f s, return %.6f s)", c.waiter, c.idx, TimeoutName(c.timeout).c_str(),
                 (long long)c.th, Hx(c.P).c_str(), (long long)c.F0, (double)c.s_ns / 1e9, (double)c.r_ns / 1e9);
        ctx.probe(timed ? "calls_checked_with_timing_clauses" : "calls_overlapping_a_clock_jump");

        // tips that were the active tip at some instant of [start, return]
        int first = -1;
        for (size_t i = 0; i < S.tips.size(); ++i)
            if (S.tips[i].pre < c.s_seq) first = (int)i;
        if (first < 0) ctx.failf("harness-no-tip", "%s: no tip before the call", who);
        std::vector<const TipEv*> window{&S.tips[first]};
        for (size_t i = first + 1; i < S.tips.size(); ++i)
            if (S.tips[i].pre < c.r_seq) window.push_back(&S.tips[i]);
        // earliest instant at which the notified tip differed from the previous template's parent
        std::optional<uint64_t> tau_tip;
        bool differs_from_then_on = false, visible_before_last_check = false;
        for (size_t i = 0; i < window.size(); ++i) {
            const TipEv& e = *window[i];
            if (e.hash == c.P) { differs_from_then_on = false; visible_before_last_check = false; tau_tip.reset(); continue; }
            if (!tau_tip) {
                tau_tip = std::max(e.ns, c.s_ns);
                differs_from_then_on = true;
                // the waiter's last look at TipBlock() happens at simulated time >= deadline (timing regime only)
                visible_before_last_check = e.post < c.s_seq || (D != INF && Add(e.ns, EPS_NS) < D);
            }
        }
        if (tau_tip) ctx.probe(window[0]->hash != c.P ? "call_started_on_stale_template" : "tip_changed_during_call");

        // interrupts that may still have been pending for this call
        bool possibly_intr = false, intr_at_start = false;
        std::optional<uint64_t> tau_intr;
        for (const IntrEv& I : S.intrs) {
            if (I.waiter != c.waiter || I.gen != c.gen || I.pre > c.r_seq) continue;
            // An earlier call on the same template that started after the flag was set has consumed it (it returns nothing at
            // once and resets the flag); one that merely overlapped the interruptWait call may or may not have.
            bool resolved = false, maybe_consumed = false;
            for (const CallRec& o : S.calls) {
                if (o.waiter != c.waiter || o.gen != c.gen || o.idx >= c.idx) continue;
                if (o.s_seq > I.post) resolved = true;
                else if (o.r_seq > I.pre) maybe_consumed = true;
            }
            if (resolved) continue;
            possibly_intr = true;
            if (maybe_consumed) continue;
            if (I.post < c.s_seq) intr_at_start = true;
            else if (I.post < c.r_seq) tau_intr = tau_intr ? std::min(*tau_intr, I.ns) : I.ns;
        }

        // state (tip, pool fees) at the waiter's last fee check, when it is unambiguous
        std::optional<StateRec> at_last_check;
        std::optional<uint64_t> tau_fee; // since when (tip == P and pool fees >= F0 + th) held without interruption until the return
        if (c.th < MAX_MONEY) {
            int last_before = -1;
            bool ambiguous = false;
            for (size_t i = 0; i < S.states.size(); ++i) {
                const StateRec& st = S.states[i];
                if (st.pre > c.r_seq) break;
                const bool before = st.post < c.s_seq || (D != INF && Add(st.ns, EPS_NS) < D);
                if (before && !ambiguous) last_before = (int)i;
                else ambiguous = true;
            }
            if (!ambiguous && last_before >= 0) at_last_check = S.states[last_before];
            // continuity scan
            int start = -1;
            for (size_t i = 0; i < S.states.size(); ++i)
                if (S.states[i].post < c.s_seq) start = (int)i;
            if (start >= 0) {
                for (size_t i = start; i < S.states.size() && S.states[i].pre < c.r_seq; ++i) {
                    const StateRec& st = S.states[i];
                    const bool holds = st.tip == c.P && st.total >= c.F0 + c.th;
                    if (!holds) tau_fee.reset();
                    else if (!tau_fee) tau_fee = std::max(st.ns, c.s_ns);
                }
            }
        }

        if (c.nonnull) {
            bool current = false;
            int64_t qtime = 0;
            for (const TipEv* e : window)
                if (e->hash == c.Q) { current = true; qtime = e->btime; }
            if (!current)
                ctx.failf("template-not-on-a-current-tip", "%s returned a template on %s, which was not the active tip at any instant between the start of the call and its return (tip at start %s, %zu tip changes during the call)", who,
                          Hx(c.Q).c_str(), Hx(window[0]->hash).c_str(), window.size() - 1);
            if (c.Q == c.P) {
                const bool fee_ok = c.F1 >= c.F0 + c.th;
                const bool old_tip = (int64_t)(c.r_ns / SEC) + REAL_BASE_S > qtime + MIN_DIFF_AGE_S || ((int64_t)(c.r_ns / SEC) + REAL_BASE_S == qtime + MIN_DIFF_AGE_S && c.r_ns % SEC > 0);
                if (!fee_ok && !old_tip)
                    ctx.failf("same-tip-template-without-fee-rise", "%s returned a template on the same tip with fees %lld < %lld + %lld, and the tip is only %lld s old at the return", who, (long long)c.F1, (long long)c.F0,
                              (long long)c.th, (long long)((int64_t)(c.r_ns / SEC) + REAL_BASE_S - qtime));
                ctx.probe(fee_ok ? (c.th == 0 ? "returned_same_tip_threshold_zero" : "returned_same_tip_fee_rise") : "returned_same_tip_min_difficulty_rule");
                if (fee_ok && c.th > 0 && c.F1 == c.F0 + c.th) ctx.probe("returned_same_tip_fees_exactly_at_threshold");
            } else {
                ctx.probe("returned_new_tip");
            }
        } else {
            const bool before_deadline = D == INF || Add(c.r_ns, EPS_NS) < D;
            if (before_deadline && !possibly_intr)
                ctx.failf("null-before-timeout", "%s returned nothing %s although no interruptWait was pending for its template", who, D == INF ? "with an unbounded timeout" : "before the timeout had passed");
            ctx.probe(before_deadline ? "returned_null_interrupted" : "returned_null_timeout");
            if (timed && !possibly_intr) {
                if (tau_tip && differs_from_then_on && visible_before_last_check)
                    ctx.failf("null-despite-tip-change", "%s returned nothing although the tip had differed from the previous template's parent since %.6f s, before the deadline", who, (double)*tau_tip / 1e9);
                if (at_last_check && c.th < MAX_MONEY) {
                    ctx.probe("null_checked_against_fee_condition");
                    if (at_last_check->tip == c.P && at_last_check->total >= c.F0 + c.th)
                        ctx.failf("null-despite-fee-rise", "%s returned nothing although at the deadline the tip was unchanged and the mempool paid %lld >= %lld + %lld", who, (long long)at_last_check->total, (long long)c.F0,
                                  (long long)c.th);
                    if (at_last_check->tip == c.P && c.th > 0 && at_last_check->total == c.F0 + c.th - 1) ctx.probe("null_with_fees_one_below_threshold");
                }
            }
        }
        if (timed) {
            if (D != INF && c.r_ns > Add(D, EPS_NS))
                ctx.failf("return-after-deadline", "%s returned %.6f s after its deadline with no clock jump and every thread scheduled", who, (double)(c.r_ns - D) / 1e9);
            if (tau_tip && differs_from_then_on && c.r_ns > Add(*tau_tip, TICK_NS + EPS_NS))
                ctx.failf("tip-change-return-late", "%s: the tip differed from the previous template's parent from %.6f s on, the call returned more than one tick later", who, (double)*tau_tip / 1e9);
            if (intr_at_start && c.r_ns > Add(c.s_ns, TICK_NS + EPS_NS)) ctx.failf("interrupt-return-late", "%s: interruptWait was pending at the start, the call returned more than one tick later", who);
            if (tau_intr && c.r_ns > Add(*tau_intr, TICK_NS + EPS_NS)) ctx.failf("interrupt-return-late", "%s: interruptWait at %.6f s, the call returned more than one tick later", who, (double)*tau_intr / 1e9);
            if (tau_fee && c.r_ns > Add(*tau_fee, TICK_NS + EPS_NS))
                ctx.failf("fee-rise-return-late", "%s: from %.6f s on the tip was unchanged and the mempool paid at least previous fees + threshold, the call returned more than one tick later", who, (double)*tau_fee / 1e9);
        }
    }
};

// ---------------------------------------------------------------------------------------------

void Run(Ctx& ctx)
{
    SetMockTime(std::chrono::seconds{0}); // every clock is the simulated one
    threadsim::Config tc;
    const int pol = (int)ctx.knob("policy", 1);
    tc.policy = pol == 0 ? threadsim::Policy::COOPERATIVE : pol == 2 ? threadsim::Policy::PCT : threadsim::Policy::PREEMPTIVE;
    tc.seed = (uint64_t)ctx.knob("sched_seed", 1);
    tc.switch_per_1024 = (uint32_t)std::clamp<int64_t>(ctx.knob("switch_per_1024", 128), 1, 1024);
    tc.pct_depth = (int)std::clamp<int64_t>(ctx.knob("pct_depth", 3), 1, 16);
    tc.pct_expected_points = 12000; // re-drawn below for the concurrent phase (setup alone takes ~9500 scheduling points)
    tc.spurious_wakeups = ctx.knob("spurious", 0) != 0;
    threadsim::Arm(tc);
    threadsim::AdvanceNs((uint64_t)std::clamp<int64_t>(ctx.knob("start_ns", 0), 0, (int64_t)SEC));

    auto sp = std::make_unique<Shared>(ctx);
    Shared& S = *sp;
    S.zero_floor = ctx.knob("zero_floor", 0) != 0;
    if (S.zero_floor) S.copts.block_min_fee_rate = CFeeRate{0};
    if (!S.node.Start(RunDir() + "/node", S.zero_floor, &S)) ctx.failf("harness-node-start", "%s", S.node.err.c_str());
    Driver drv(S);
    drv.Setup();

    // distribute the calls
    const int nw = (int)std::clamp<int64_t>(ctx.knob("waiters", 1), 1, 6);
    for (int i = 0; i < nw; ++i) {
        S.waiters.push_back(std::make_unique<Waiter>());
        S.waiters.back()->id = i;
    }
    for (const Op& op : ctx.plan.ops)
        if (op.kind == W_CALL) S.waiters[op.mod(0, nw)]->specs.push_back(CallSpec{kTimeouts[op.mod(1, N_TIMEOUTS)], Threshold(op), kPauses[op.mod(4, N_PAUSES)], op.arg(5) != 0});
    S.RecordState(++S.seq);
    const uint64_t t0 = threadsim::NowNs();
    const uint64_t points0 = threadsim::GetStats().points;
    threadsim::RedrawPct(3000);
    for (int i = 0; i < nw; ++i) S.waiters[i]->th = std::thread(WaiterMain, &S, i);

    for (const Op& op : ctx.plan.ops)
        if (op.kind != W_CALL) drv.Exec(op);

    // quiet period: no more events, the waiters run into their timeouts
    auto all_finished = [&] {
        for (auto& w : S.waiters)
            if (!w->finished) return false;
        return true;
    };
    const int drain = (int)std::clamp<int64_t>(ctx.knob("drain_s", 35), 0, 120);
    for (int i = 0; i < drain * 4 && !all_finished(); ++i) std::this_thread::sleep_for(std::chrono::milliseconds{250});
    // teardown: remaining waits are ended through interruptWait (ordinary, recorded interrupts)
    S.stop = true;
    bool stuck = false;
    for (int round = 0; !all_finished(); ++round) {
        if (round >= 400) { stuck = true; break; }
        for (int i = 0; i < nw; ++i)
            if (!S.waiters[i]->finished && S.waiters[i]->in_call) drv.OpInterrupt(i, "teardown");
        std::this_thread::sleep_for(std::chrono::milliseconds{20}); // a waiter may be in its pause (<= 1 s) before noticing `stop`
    }
    for (auto& w : S.waiters) {
        if (stuck && !w->finished) w->th.detach();
        else w->th.join();
    }
    const uint64_t t1 = threadsim::NowNs();
    if (!stuck) S.node.Stop();
    auto st = threadsim::GetStats();
    threadsim::Disarm();

    ctx.sim_ms = (t1 - t0) / MS;
    ctx.sched_points = st.points;
    ctx.probe("sched_points_setup", points0);
    ctx.probe("sched_points_concurrent_phase", st.points - points0);
    ctx.probe("threads_created", st.threads_created);
    ctx.probe("thread_switches", st.switches);
    if (st.timed_out_waits) ctx.probe("timed_waits_expired", st.timed_out_waits);
    if (st.clock_jumps) ctx.probe("clock_advanced_to_next_deadline", st.clock_jumps);
    if (st.spurious) ctx.fault("spurious_wakeup", st.spurious);
    ctx.fingerprint(st.schedule_hash);
    ctx.evf("schedule hash %016llx switches %llu calls %zu tips %zu", (unsigned long long)st.schedule_hash, (unsigned long long)st.switches, S.calls.size(), S.tips.size());
    if (stuck) {
        std::string who;
        for (auto& w : S.waiters)
            if (!w->finished) who += " w" + std::to_string(w->id);
        (void)sp.release(); // parked threads still reference the node (and may hold its locks): leak it, the process ends here
        ctx.failf("wait-does-not-end-after-interrupt", "waiter(s)%s did not return although interruptWait was called every 20 ms for 8 simulated seconds", who.c_str());
    }
    if (!S.node.notif->fatal.empty()) ctx.failf("node-fatal-error", "%s", S.node.notif->fatal[0].c_str());
    if (!S.errors.empty()) ctx.failf("harness-error", "%s (%zu in total)", S.errors[0].c_str(), S.errors.size());
    if (S.calls.size() >= 2 && st.switches > 10) ctx.nontrivial = true;
    std::sort(S.calls.begin(), S.calls.end(), [](const CallRec& a, const CallRec& b) { return a.r_seq < b.r_seq; });
    Oracle orc(S);
    uint64_t fp = 0;
    for (const CallRec& c : S.calls) {
        orc.Check(c);
        fp = mix64(fp, mix64((uint64_t)c.waiter * 4 + c.nonnull * 2 + (c.Q == c.P), (c.r_ns - c.s_ns) / MS));
    }
    ctx.fingerprint(fp);
    ctx.probe("calls_completed", S.calls.size());
}

Engine MakeEngine()
{
    Engine e;
    e.prop = "C65";
    e.name = "threadsim/waitnext";
    e.level = "exploration";
    e.gen = Gen;
    e.run = Run;
    e.describe = Describe;
    e.chunk = 1;
    e.quick_runs = 800;
    e.thorough_runs = 16000;
    e.quick_budget_s = 50;
    e.thorough_budget_s = 900;
    e.run_timeout_s = 300;
    e.rule = "each run = one seeded schedule (uniform preemption with switch probability 1/32..1/4 per scheduling point, PCT with depth 2-6 re-drawn for the concurrent phase, or cooperative; in a quarter of the runs 1/16 of all condition-variable waits wake spuriously) of 1-3 waiter threads and one driver thread over a real regtest node "
             "(101-103 block base chain, 64 confirmed coins, 0-5 mempool transactions) whose clocks are all the simulated clock. Waiters and driver run 16-90 seeded operations between them: waitNext with timeout in "
             "{0, 1 ms, 250 ms, 1 s, 1.5 s, 2 s, 3.7 s, 30 s, 2 h, max} and fee threshold in {0, 1 sat, k, MAX_MONEY}, on their current (possibly stale) or a fresh template, after pauses of 0-1 s. The driver sleeps 0.1 ms-5 s "
             "between events: blocks on the tip confirming part of the mempool (timestamps now, now-20min+-3s, now+30s), 1-2 deep reorgs, stale siblings, new and replacement transactions whose fee puts the mempool total exactly "
             "at / one below / one above the aimed-at waiter's previous fees + threshold, interruptWait on waiting and non-waiting templates; with knob clock_jumps also forward clock jumps of 1 ms-21 min (calls overlapping a jump "
             "are exempt from the timing clauses). A quiet period of 4 or 35 simulated seconds follows, then remaining waits are ended by interruptWait. Oracle per call, from the recorded event order and simulated times: "
             "(1) a returned template's parent was the active tip at some instant between call start and return; (2) a template on the previous template's parent has fees >= previous fees + threshold or the tip is more than "
             "20 min old at the return; (3) nothing is returned only after the timeout or when an interruptWait may have been pending for that template; (4) without clock jumps: nothing is not returned when the tip differed "
             "from the previous parent before the deadline, or when at the deadline tip and mempool satisfied the fee condition; every call ends by its deadline; it ends within one tick (1 s) of a tip change, an interrupt, or "
             "the fee condition becoming true. non-trivial = at least 2 completed calls and more than 10 thread switches; distinct = schedule hash x outcome vector.";
    e.real_components = {"node::WaitAndCreateNewBlock / node::InterruptWait (src/node/miner.cpp)", "node::KernelNotifications (blockTip, m_tip_block_mutex, m_tip_block_cv, TipBlock)", "BlockAssembler::CreateNewBlock + TestBlockValidity",
                         "ChainstateManager::ProcessNewBlock / ActivateBestChain / ProcessTransaction, CTxMemPool (RBF, reorg re-insertion)", "libstdc++ condition_variable::wait_until on NodeClock (through interposed pthread_cond_clockwait)"};
    e.stub_components = {"OS thread scheduler (token passing: one thread runs at a time, the seed decides switches at every pthread/futex call)", "clocks (simulated; time passes only when every thread is blocked, or by explicit jumps)", "condition variables (knob: spurious wake-ups)",
                         "BlockTemplateImpl / NodeContext wrapper (the free functions are called directly, one interrupt flag per template generation as in BlockTemplateImpl)", "peers, RPC"};
    e.assumptions = {"threads are serialised: weak-memory effects are invisible", "every mempool transaction of the workload fits into and qualifies for the next block, so 'fees of a fresh template' = fees of the mempool (checked: vTxFees sum = generator's fee table)",
                     "only regtest can be driven: the 20-minute rule is always a legal reason, its restriction to test networks is not decided", "reorganisations are natural (more work); InvalidateBlock-style tip regressions are not generated",
                     "shutdown (chainman.m_interrupt) is not exercised", "the liveness slack is one tick (1 s) as in the design; a notification lost entirely is only seen through null-despite-tip-change / return-after-deadline"};
    e.expected_probes = {"returned_new_tip", "returned_same_tip_fee_rise", "returned_same_tip_fees_exactly_at_threshold", "returned_same_tip_threshold_zero", "returned_same_tip_min_difficulty_rule", "returned_null_timeout", "returned_null_interrupted",
                         "null_checked_against_fee_condition", "null_with_fees_one_below_threshold", "call_started_on_stale_template", "tip_changed_during_call", "interrupt_while_waiting", "interrupt_while_not_waiting", "reorg",
                         "replacement_accepted", "fee_aimed_exactly_at_threshold", "fee_aimed_one_below_threshold", "calls_overlapping_a_clock_jump", "thread_switches"};
    return e;
}
Engine g_engine = MakeEngine();
SIM_REGISTER_ENGINE(g_engine);

} // namespace
