// C63 — validation notifications describe exactly what happened, in order.
//
// One real regtest node (ChainstateManager + CTxMemPool + ValidationSignals) driven through the shared mempool/chain history
// workload (submissions, replacements, packages, blocks confirming and conflicting with mempool entries, reorgs, invalid blocks in
// the middle of a reorg, invalidateblock/reconsiderblock, expiry, trimming) with a recording CValidationInterface.
//
//  (a) threads=0: util::ImmediateTaskRunner — every callback runs inside validation; the recorder additionally samples the real
//      tip inside each callback.
//  (b) threads=1: the REAL CScheduler + SerialTaskRunner; the scheduler's service thread is a threadsim thread, so callbacks run
//      arbitrarily late relative to validation and interleave with further operations of the driver thread(s) under a seeded
//      schedule (cooperative / uniform preemption / PCT). "race" operations add a second driver thread (competing branch and
//      transactions submitted concurrently with the main thread's blocks).
//
// Truth (independent of the queued notifications): the exact sequence of tip changes is reconstructed from samples taken under
// cs_main: the synchronous BlockChecked(valid) call inside ConnectTip (tip = parent, block about to be connected), the synchronous
// ActiveTipChange call and a sample after every call of a driver thread. Between two samples only disconnections can have
// happened, so the path is determined. The true mempool membership is read from the mempool itself at drain points.
//
// Oracle: see Engine::rule below and the clause comments in Sim::ProcessEvents().
#include "../core/sim.h"
#include "../nodesim/chainsim.h"
#include "../nodesim/mempoolsim.h"
#include "../threadsim/threadsim.h"

#include <chain.h>
#include <consensus/validation.h>
#include <kernel/mempool_entry.h>
#include <kernel/mempool_removal_reason.h>
#include <kernel/types.h>
#include <scheduler.h>
#include <streams.h>
#include <util/task_runner.h>
#include <util/time.h>

#include <atomic>
#include <cstring>
#include <deque>
#include <mutex>
#include <thread>

using namespace sim;
using namespace nodesim;

namespace {

enum { X_DRAIN = 300, X_RACE = 301 };

std::string Hx(const uint256& h) { return h.ToString().substr(0, 10); }

// ---------------------------------------------------------------------------------------------------------------------
// recorder

struct Ev {
    enum Kind { CONNECT, DISCONNECT, TX_ADD, TX_REMOVE, BLOCK_TXS, UPDATED_TIP, FLUSHED } kind{CONNECT};
    std::shared_ptr<const CBlock> block;
    uint256 index_hash, index_prev;   //!< from the CBlockIndex handed to the callback
    int index_height{-1};
    CTransactionRef tx;
    int reason{-1};
    uint64_t seq{0};
    std::vector<CTransactionRef> removed;
    unsigned height{0};
    uint256 new_tip, fork_tip;
    bool has_fork{false};
    int thread{-1};                   //!< threadsim id of the delivering thread (-1: not armed)
    bool has_real_tip{false};         //!< immediate runner only: the real tip sampled inside the callback
    uint256 real_tip;
};

struct Sample {
    enum Kind { CHECKED_VALID, TIP_CHANGE, CALL_END } kind{CALL_END};
    uint256 tip;   //!< real active tip (null hash: no tip yet)
    uint256 block; //!< CHECKED_VALID: the block that ConnectTip is about to connect
    int64_t now{0}; //!< node clock (mock time) when the sample was taken
};

class Recorder final : public CValidationInterface
{
public:
    std::mutex mu;                 //!< callbacks run on the scheduler thread in part (b)
    std::vector<Ev> events;        //!< in delivery order
    std::vector<Sample> samples;   //!< in cs_main order
    std::unique_ptr<SimNode>* slot{nullptr};
    bool immediate{true};
    std::atomic<int> in_callback{0};
    uint64_t overlapped{0};

    uint256 RealTip()
    {
        SimNode* n = slot ? slot->get() : nullptr;
        if (!n || !n->chainman) return uint256{};
        LOCK(cs_main);
        const CBlockIndex* t = n->chainman->ActiveChain().Tip();
        return t ? t->GetBlockHash() : uint256{};
    }
    void SampleNow(Sample::Kind k, const uint256& block = uint256{})
    {
        // cs_main is taken first (recursive), so that the order of `samples` is the order of the tip changes
        LOCK(cs_main);
        Sample s{k, RealTip(), block, TicksSinceEpoch<std::chrono::seconds>(Now<NodeSeconds>())};
        std::lock_guard<std::mutex> g(mu);
        samples.push_back(s);
    }
    void Push(Ev&& e)
    {
        if (in_callback.fetch_add(1) != 0) ++overlapped;
        e.thread = threadsim::Armed() ? threadsim::CurrentThreadId() : -1;
        if (immediate) { e.has_real_tip = true; e.real_tip = RealTip(); }
        {
            std::lock_guard<std::mutex> g(mu);
            events.push_back(std::move(e));
        }
        in_callback.fetch_sub(1);
    }
    static void FillIndex(Ev& e, const CBlockIndex* pindex)
    {
        if (!pindex) return;
        e.index_hash = pindex->GetBlockHash();
        e.index_height = pindex->nHeight;
        e.index_prev = pindex->pprev ? pindex->pprev->GetBlockHash() : uint256{};
    }

protected:
    // synchronous (never queued): sources of truth
    void BlockChecked(const std::shared_ptr<const CBlock>& block, const BlockValidationState& state) override
    {
        if (state.IsValid()) SampleNow(Sample::CHECKED_VALID, block->GetHash());
    }
    void ActiveTipChange(const CBlockIndex&, bool) override { SampleNow(Sample::TIP_CHANGE); }

    // queued: the notifications under test
    void BlockConnected(const kernel::ChainstateRole&, const std::shared_ptr<const CBlock>& block, const CBlockIndex* pindex) override
    {
        Ev e;
        e.kind = Ev::CONNECT;
        e.block = block;
        FillIndex(e, pindex);
        Push(std::move(e));
    }
    void BlockDisconnected(const std::shared_ptr<const CBlock>& block, const CBlockIndex* pindex) override
    {
        Ev e;
        e.kind = Ev::DISCONNECT;
        e.block = block;
        FillIndex(e, pindex);
        Push(std::move(e));
    }
    void TransactionAddedToMempool(const NewMempoolTransactionInfo& tx, uint64_t mempool_sequence) override
    {
        Ev e;
        e.kind = Ev::TX_ADD;
        e.tx = tx.info.m_tx;
        e.seq = mempool_sequence;
        Push(std::move(e));
    }
    void TransactionRemovedFromMempool(const CTransactionRef& tx, MemPoolRemovalReason reason, uint64_t mempool_sequence) override
    {
        Ev e;
        e.kind = Ev::TX_REMOVE;
        e.tx = tx;
        e.reason = (int)reason;
        e.seq = mempool_sequence;
        Push(std::move(e));
    }
    void MempoolTransactionsRemovedForBlock(const std::shared_ptr<const CBlock>& block, const std::vector<RemovedMempoolTransactionInfo>& txs, unsigned int block_height) override
    {
        Ev e;
        e.kind = Ev::BLOCK_TXS;
        e.block = block;
        e.height = block_height;
        for (auto& t : txs) e.removed.push_back(t.info.m_tx);
        Push(std::move(e));
    }
    void UpdatedBlockTip(const CBlockIndex* pindexNew, const CBlockIndex* pindexFork, bool) override
    {
        Ev e;
        e.kind = Ev::UPDATED_TIP;
        e.new_tip = pindexNew ? pindexNew->GetBlockHash() : uint256{};
        e.has_fork = pindexFork != nullptr;
        if (pindexFork) e.fork_tip = pindexFork->GetBlockHash();
        Push(std::move(e));
    }
    void ChainStateFlushed(const kernel::ChainstateRole&, const CBlockLocator&) override
    {
        Ev e;
        e.kind = Ev::FLUSHED;
        Push(std::move(e));
    }
};

// ---------------------------------------------------------------------------------------------------------------------
// part (b): the real CScheduler + SerialTaskRunner behind a thin forwarding runner.
// ChainSim/MempoolSim call SyncWithValidationInterfaceQueue after every node call (SimNode::DrainSignals). To let callbacks
// run late ACROSS operations, the forwarding runner answers that barrier at once while `g_lazy` is set (the barrier task is
// recognised by the type name of its closure) unless more than 10 tasks are pending, which is the node's own back-pressure rule
// (LimitValidationInterfaceQueue). Every other task is forwarded untouched; real drains happen at seeded X_DRAIN ops and at the end.

struct SchedBox {
    CScheduler sched;
};
SchedBox* g_box = nullptr;
std::atomic<bool> g_lazy{false};
std::atomic<uint64_t> g_barriers_skipped{0};
std::atomic<uint64_t> g_barriers_forwarded{0};

class ForwardingRunner final : public util::TaskRunnerInterface
{
    SerialTaskRunner m_inner;

public:
    explicit ForwardingRunner(CScheduler& s) : m_inner(s) {}
    void insert(std::function<void()> func) override
    {
        const char* tn = func.target_type().name();
        const bool barrier = tn && strstr(tn, "SyncWithValidationInterfaceQueue") != nullptr;
        if (barrier) {
            if (g_lazy.load() && m_inner.size() <= 10) {
                ++g_barriers_skipped;
                func();
                return;
            }
            ++g_barriers_forwarded;
        }
        m_inner.insert(std::move(func));
    }
    void flush() override { m_inner.flush(); }
    size_t size() override { return m_inner.size(); }
};

std::unique_ptr<util::TaskRunnerInterface> MakeRunner()
{
    return std::make_unique<ForwardingRunner>(g_box->sched);
}

// ---------------------------------------------------------------------------------------------------------------------
// plan

std::string Describe(const Op& op)
{
    char b[200];
    switch (op.kind) {
    case X_DRAIN: snprintf(b, sizeof b, "drain the notification queue (SyncWithValidationInterfaceQueue) and compare everything"); return b;
    case X_RACE:
        snprintf(b, sizeof b, "race(fork_depth=%ld, main_branch=%ld blocks, other_branch=+%ld blocks, ntx=%ld, seed=%ld, other_thread=%s)", (long)op.arg(0), (long)op.arg(1), (long)op.arg(2), (long)op.arg(3), (long)op.arg(4),
                 op.mod(5, 3) == 0 ? "blocks" : op.mod(5, 3) == 1 ? "transactions" : "blocks+transactions");
        return b;
    default: return DescribeMempoolOp(op);
    }
}

Plan Gen(uint64_t seed, Tier tier)
{
    Plan p = GenMempoolPlan(seed, tier, "c22");
    Rng rng(mix64(seed, 0xC63C63));
    const bool threads = rng.chance(2, 5);
    p.knobs["on_disk"] = 0;
    p.knobs["threads"] = threads;
    {
        // (own stream: the rest of the plan is unchanged by these two knobs)
        Rng ri(mix64(seed, 0x1BD0C63));
        p.knobs["ibd_prefix"] = ri.chance(1, 4);
        p.knobs["ibd_exit_op"] = ri.range(1, 14);
    }
    if (threads) {
        p.knobs["policy"] = (int64_t)rng.pick({1, 5, 2}); // 0 cooperative, 1 preemptive, 2 PCT
        p.knobs["switch_per_1024"] = (int64_t)(8 << rng.below(6)); // 8..256
        p.knobs["pct_depth"] = rng.range(2, 6);
        p.knobs["sched_seed"] = (int64_t)(rng.next() >> 8);
        p.knobs["lazy"] = rng.chance(5, 6);
        p.knobs["spurious"] = rng.chance(1, 4);
        p.knobs["base"] = rng.range(101, 108);
        // thread runs cost more per operation
        size_t keep = (size_t)rng.range(25, tier == Tier::THOROUGH ? 90 : 55);
        if (p.ops.size() > keep) p.ops.resize(keep);
    }
    // extra operations of the chain workload (forks, defects in the middle of a branch, delivery out of order, manual
    // invalidation) and of this engine (drain points, two-thread races), inserted at seeded positions
    const int extra = (int)std::max<size_t>(6, p.ops.size() / 4);
    for (int i = 0; i < extra; ++i) {
        Op op;
        switch (rng.pick({22, 8, 8, 5, 14, 10, (uint32_t)(threads ? 12 : 5)})) {
        case 0: {
            const bool fork = rng.chance(2, 5);
            int defect = D_NONE;
            if (rng.chance(1, 4)) defect = (int)rng.pick({0, 4, 3, 0, 0, 0, 3, 3, 0, 0, 2, 0, 0, 0, 0, 0, 0, 4, 0, 2, 0, 0, 0, 0, 0, 0, 0});
            op = Op(OP_MINE, {fork ? 1 : 0, (int64_t)(fork ? rng.below(1000) : rng.skewed(0, 3)), (int64_t)rng.range(0, 3), (int64_t)(rng.next() >> 16), defect, 0, (int64_t)rng.below(3),
                              rng.chance(3, 5) ? 1 : (rng.chance(1, 2) ? 2 : 0)});
            break;
        }
        case 1: op = Op(OP_DELIVER, {(int64_t)rng.below(2), (int64_t)rng.below(1000), 1, (int64_t)rng.range(1, 2)}); break;
        case 2:
            if (rng.chance(1, 6)) op = Op(OP_INVALIDATE, {1, (int64_t)rng.below(1000)}); // any block: deep invalidations (> 10 disconnections) included
            else op = Op(OP_INVALIDATE, {0, (int64_t)rng.skewed(0, 6)});
            break;
        case 3: op = Op(OP_RECONSIDER, {(int64_t)rng.below(1000)}); break;
        case 4: op = Op(OP_REORG, {(int64_t)rng.skewed(1, 5), (int64_t)rng.range(1, 2), (int64_t)rng.range(0, 3), (int64_t)(rng.next() >> 16), (int64_t)rng.below(3)}); break;
        case 5: op = Op(X_DRAIN, {}); break;
        default: op = Op(X_RACE, {(int64_t)rng.range(0, 3), (int64_t)rng.range(1, 3), (int64_t)rng.range(0, 2), (int64_t)rng.range(0, 3), (int64_t)(rng.next() >> 16), (int64_t)rng.below(3)}); break;
        }
        p.ops.insert(p.ops.begin() + rng.below(p.ops.size() + 1), op);
    }
    return p;
}

// ---------------------------------------------------------------------------------------------------------------------
// simulation + oracle

struct Step {
    bool connect;
    uint256 block;
    bool operator==(const Step& o) const { return connect == o.connect && block == o.block; }
};

const char* ReasonName(int r)
{
    switch ((MemPoolRemovalReason)r) {
    case MemPoolRemovalReason::EXPIRY: return "expiry";
    case MemPoolRemovalReason::SIZELIMIT: return "sizelimit";
    case MemPoolRemovalReason::REORG: return "reorg";
    case MemPoolRemovalReason::BLOCK: return "block";
    case MemPoolRemovalReason::CONFLICT: return "conflict";
    case MemPoolRemovalReason::REPLACED: return "replaced";
    }
    return "?";
}

struct Sim {
    Ctx& ctx;
    MempoolSim ms;
    std::shared_ptr<Recorder> rec;
    const bool threaded;
    const bool lazy;

    // processed prefixes of the recorder's vectors
    std::vector<Ev> evs;
    size_t ev_done{0};
    size_t smp_done{0};
    // truth
    std::vector<Step> truth;
    uint256 true_tip; //!< null: before genesis
    // fold of the delivered notifications
    std::vector<Step> fold;
    uint256 ftip;
    std::deque<uint256> announced; //!< MempoolTransactionsRemovedForBlock delivered, BlockConnected not yet
    std::map<Txid, Wtxid> fmempool; //!< folded mempool
    uint64_t last_seq{0};
    bool have_seq{false};
    // known transactions (generator registry + transactions of generated blocks)
    std::map<Txid, std::set<Wtxid>> block_txs;
    size_t blocks_indexed{0};
    std::map<Txid, int> evicted_on_entry; //!< single submissions answered "mempool full" (accepted, then trimmed/expired by their own LimitMempoolSize)
    std::optional<Violation> deferred;
    size_t marker{0}; //!< immediate runner: events[marker..] belong to the node call in progress
    uint64_t n_connect{0}, n_disconnect{0}, n_add{0}, n_remove{0};
    bool after_base{false};
    // initial-block-download phase (knob ibd_prefix): reference latch, kept on the true tip-change sequence
    const bool ibd_mode;
    size_t ibd_exit_step{SIZE_MAX}; //!< index in `truth` of the connection that ended initial block download
    static constexpr int64_t IBD_MAX_TIP_AGE = 3600;
    static constexpr int64_t IBD_CLOCK_LEAD = 1000LL * 86400;

    explicit Sim(Ctx& c)
        : ctx(c), ms(c, MempoolSimConfig{.check_consistency = false, .snapshots = false, .bias = "c63"}), rec(std::make_shared<Recorder>()), threaded(c.knob("threads", 0) != 0),
          lazy(c.knob("threads", 0) != 0 && c.knob("lazy", 1) != 0), ibd_mode(c.knob("ibd_prefix", 0) != 0)
    {
    }

    RefChain& ref() { return *ms.cs.ref; }

    uint256 ParentOf(const uint256& h, const char* where)
    {
        int i = ref().Find(h);
        if (i < 0) ctx.failf("tip-samples-not-a-path", "%s: sampled tip %s is not a generated block", where, Hx(h).c_str());
        int p = ref().blocks[i].parent;
        return p < 0 ? uint256{} : ref().blocks[p].hash;
    }

    /** truth: the node's tip went from true_tip down to `to` by disconnections only */
    void DescendTo(const uint256& to, const char* where)
    {
        int guard = 0;
        while (true_tip != to) {
            if (true_tip.IsNull() || ++guard > 100000) ctx.failf("tip-samples-not-a-path", "%s: sampled tip %s is not an ancestor of the previously sampled tip", where, Hx(to).c_str());
            truth.push_back({false, true_tip});
            true_tip = ParentOf(true_tip, where);
        }
    }

    void ProcessSamples(const std::vector<Sample>& smp)
    {
        for (const Sample& s : smp) {
            switch (s.kind) {
            case Sample::CHECKED_VALID: {
                DescendTo(s.tip, "BlockChecked(valid)");
                // ConnectTip asserts pindexNew->pprev == tip
                if (!s.tip.IsNull() && ParentOf(s.block, "BlockChecked(valid)") != s.tip) ctx.failf("tip-samples-not-a-path", "BlockChecked(valid) for %s while the tip is %s", Hx(s.block).c_str(), Hx(s.tip).c_str());
                truth.push_back({true, s.block});
                true_tip = s.block;
                // ChainstateManager::UpdateIBDStatus(): latched off by the first tip that is at most max_tip_age behind the clock
                // (regtest: no minimum chain work; the clock never goes back, so a disconnection cannot be the first such tip)
                if (ibd_mode && ibd_exit_step == SIZE_MAX) {
                    const int bi = ref().Find(s.block);
                    if (bi >= 0 && ref().blocks[bi].time >= s.now - IBD_MAX_TIP_AGE) {
                        ibd_exit_step = truth.size() - 1;
                        ctx.probe("ibd_ended_by_block");
                    }
                }
                break;
            }
            case Sample::TIP_CHANGE: DescendTo(s.tip, "ActiveTipChange"); break;
            case Sample::CALL_END: DescendTo(s.tip, "after call"); break;
            }
        }
    }

    void IndexBlocks()
    {
        for (; blocks_indexed < ref().blocks.size(); ++blocks_indexed)
            for (auto& tx : ref().blocks[blocks_indexed].block->vtx) block_txs[tx->GetHash()].insert(tx->GetWitnessHash());
    }
    bool KnownTx(const CTransaction& tx)
    {
        auto m = ms.made.find(tx.GetHash());
        if (m != ms.made.end() && m->second.tx->GetWitnessHash() == tx.GetWitnessHash()) return true;
        auto b = block_txs.find(tx.GetHash());
        return b != block_txs.end() && b->second.count(tx.GetWitnessHash());
    }

    /** "Each reported block is the one that was actually connected/disconnected": bytes and index entry */
    int CheckReportedBlock(const Ev& e, const char* what)
    {
        if (!e.block) ctx.failf("reported-block-null", "%s carries no block", what);
        const uint256 h = e.block->GetHash();
        int idx = ref().Find(h);
        if (idx < 0) ctx.failf("reported-block-unknown", "%s reports block %s which was never generated", what, Hx(h).c_str());
        const RefBlock& B = ref().blocks[idx];
        DataStream a, b;
        a << TX_WITH_WITNESS(*e.block);
        b << TX_WITH_WITNESS(*B.block);
        if (a.size() != b.size() || memcmp(a.data(), b.data(), a.size()) != 0) ctx.failf("reported-block-bytes-differ", "%s: block %s (h=%d) is reported with %zu bytes that differ from the %zu generated bytes", what, Hx(h).c_str(), B.height, a.size(), b.size());
        if (e.kind != Ev::BLOCK_TXS) {
            if (e.index_hash != h) ctx.failf("reported-index-is-not-the-blocks", "%s: block %s comes with the index entry of %s (h=%d)", what, Hx(h).c_str(), Hx(e.index_hash).c_str(), e.index_height);
            if (e.index_height != B.height || e.index_prev != e.block->hashPrevBlock) ctx.failf("reported-index-is-not-the-blocks", "%s: block %s: index height %d / prev %s, generated height %d / prev %s", what, Hx(h).c_str(), e.index_height, Hx(e.index_prev).c_str(), B.height, Hx(e.block->hashPrevBlock).c_str());
        }
        return idx;
    }

    void SeqCheck(const Ev& e, const char* what)
    {
        if (have_seq && e.seq <= last_seq) ctx.failf("mempool-sequence-not-increasing", "%s %s carries mempool_sequence %lu after %lu", what, Hx(e.tx->GetHash().ToUint256()).c_str(), (unsigned long)e.seq, (unsigned long)last_seq);
        last_seq = e.seq;
        have_seq = true;
    }

    void ProcessEvents(size_t from)
    {
        IndexBlocks();
        for (size_t i = from; i < evs.size(); ++i) {
            const Ev& e = evs[i];
            if (e.thread > 0) ctx.probe("callback_on_scheduler_thread");
            switch (e.kind) {
            case Ev::CONNECT: {
                const int idx = CheckReportedBlock(e, "BlockConnected");
                const uint256 h = e.block->GetHash();
                // fold: connect(B) only when B.hashPrevBlock is the folded tip
                if (e.block->hashPrevBlock != ftip) ctx.failf("block-connected-not-on-folded-tip", "BlockConnected(%s, h=%d) builds on %s but the notifications so far fold to tip %s", Hx(h).c_str(), ref().blocks[idx].height, Hx(e.block->hashPrevBlock).c_str(), Hx(ftip).c_str());
                // interface contract: MempoolTransactionsRemovedForBlock(B) is fired before BlockConnected(B) (the node is never in IBD here, except possibly for genesis)
                const bool ibd_silent = ibd_mode && fold.size() < ibd_exit_step && (announced.empty() || announced.front() != h);
                if (!announced.empty() && !ibd_silent) {
                    if (announced.front() != h) ctx.failf("block-connected-out-of-order-with-removed-for-block", "BlockConnected(%s) while MempoolTransactionsRemovedForBlock announced %s first", Hx(h).c_str(), Hx(announced.front()).c_str());
                    if (announced.size() >= 2) ctx.probe("multi_block_connect_step");
                    announced.pop_front();
                } else if (ibd_silent) {
                    // initial block download: removeForBlock() ran, MempoolTransactionsRemovedForBlock is documented not to fire; the
                    // block that ends it (truth step ibd_exit_step) and every later one must be announced again
                    for (size_t k = 1; k < e.block->vtx.size(); ++k)
                        if (fmempool.erase(e.block->vtx[k]->GetHash())) ctx.probe("ibd_block_confirmed_mempool_tx_silently");
                    ctx.probe("ibd_connect_without_removed_for_block");
                } else if (ref().blocks[idx].height > 0) {
                    ctx.failf("block-connected-without-removed-for-block", "BlockConnected(%s, h=%d) was not preceded by its MempoolTransactionsRemovedForBlock", Hx(h).c_str(), ref().blocks[idx].height);
                }
                if (e.has_real_tip) {
                    // immediate runner: the reported block is in the real active chain when the callback runs
                    int t = ref().Find(e.real_tip);
                    if (t < 0 || !ref().IsAncestor(idx, t)) ctx.failf("block-connected-not-in-active-chain", "BlockConnected(%s) ran while the real tip was %s", Hx(h).c_str(), Hx(e.real_tip).c_str());
                }
                ftip = h;
                fold.push_back({true, h});
                ++n_connect;
                ctx.probe("ev_block_connected");
                ctx.evf("ev C %s h=%d", Hx(h).c_str(), ref().blocks[idx].height);
                break;
            }
            case Ev::DISCONNECT: {
                const int idx = CheckReportedBlock(e, "BlockDisconnected");
                const uint256 h = e.block->GetHash();
                // fold: disconnect(B) only when B is the folded tip
                if (h != ftip) ctx.failf("block-disconnected-is-not-folded-tip", "BlockDisconnected(%s, h=%d) but the notifications so far fold to tip %s", Hx(h).c_str(), ref().blocks[idx].height, Hx(ftip).c_str());
                if (!announced.empty()) ctx.failf("block-disconnected-out-of-order-with-removed-for-block", "BlockDisconnected(%s) while the connection of %s was announced by MempoolTransactionsRemovedForBlock but not yet reported", Hx(h).c_str(), Hx(announced.front()).c_str());
                if (e.has_real_tip && e.real_tip != e.block->hashPrevBlock) ctx.failf("block-disconnected-real-tip-mismatch", "BlockDisconnected(%s) ran (immediate runner) while the real tip was %s, not its parent %s", Hx(h).c_str(), Hx(e.real_tip).c_str(), Hx(e.block->hashPrevBlock).c_str());
                ftip = e.block->hashPrevBlock;
                fold.push_back({false, h});
                ++n_disconnect;
                ctx.probe("ev_block_disconnected");
                ctx.evf("ev D %s h=%d", Hx(h).c_str(), ref().blocks[idx].height);
                break;
            }
            case Ev::BLOCK_TXS: {
                const int idx = CheckReportedBlock(e, "MempoolTransactionsRemovedForBlock");
                const uint256 h = e.block->GetHash();
                const RefBlock& B = ref().blocks[idx];
                if ((int)e.height != B.height) ctx.failf("removed-for-block-wrong-height", "MempoolTransactionsRemovedForBlock(%s) says height %u, generated height %d", Hx(h).c_str(), e.height, B.height);
                // order: it describes the connection of B on top of what the earlier notifications describe
                const uint256& on = announced.empty() ? ftip : announced.back();
                // (one ActivateBestChainStep may connect silent initial-block-download blocks and then the block that ends it: the
                // announcement of the latter is delivered before the BlockConnected of the former)
                const bool silent_pending = ibd_mode && fold.size() + announced.size() < ibd_exit_step;
                if (e.block->hashPrevBlock != on && !silent_pending) ctx.failf("removed-for-block-out-of-order", "MempoolTransactionsRemovedForBlock(%s, h=%d) builds on %s but the notifications so far describe tip %s", Hx(h).c_str(), B.height, Hx(e.block->hashPrevBlock).c_str(), Hx(on).c_str());
                if (e.has_real_tip && e.real_tip != h) ctx.failf("removed-for-block-real-tip-mismatch", "MempoolTransactionsRemovedForBlock(%s) ran (immediate runner) while the real tip was %s", Hx(h).c_str(), Hx(e.real_tip).c_str());
                announced.push_back(h);
                // exactly the block's transactions that were in the (folded) mempool
                std::set<Txid> want, got;
                for (size_t k = 1; k < e.block->vtx.size(); ++k)
                    if (fmempool.count(e.block->vtx[k]->GetHash())) want.insert(e.block->vtx[k]->GetHash());
                for (auto& t : e.removed) {
                    if (!t) ctx.failf("removed-for-block-list-mismatch", "null transaction in the list for %s", Hx(h).c_str());
                    if (!got.insert(t->GetHash()).second) ctx.failf("removed-for-block-list-mismatch", "MempoolTransactionsRemovedForBlock(%s) lists %s twice", Hx(h).c_str(), Hx(t->GetHash().ToUint256()).c_str());
                    auto f = fmempool.find(t->GetHash());
                    if (f != fmempool.end() && f->second != t->GetWitnessHash()) ctx.failf("removed-tx-differs-from-added", "MempoolTransactionsRemovedForBlock(%s): %s is listed with another witness than it was added with", Hx(h).c_str(), Hx(t->GetHash().ToUint256()).c_str());
                }
                if (want != got) {
                    std::string d;
                    for (auto& t : want) if (!got.count(t)) d += " missing:" + Hx(t.ToUint256());
                    for (auto& t : got) if (!want.count(t)) d += " extra:" + Hx(t.ToUint256());
                    ctx.failf("removed-for-block-list-mismatch", "MempoolTransactionsRemovedForBlock(%s, h=%d) lists %zu transactions, %zu of the block's transactions were in the mempool per the notifications so far:%s", Hx(h).c_str(), B.height, got.size(), want.size(), d.c_str());
                }
                for (auto& t : got) fmempool.erase(t);
                if (!got.empty()) ctx.probe("ev_removed_for_block_nonempty");
                if (ibd_mode && announced.size() == 1 && fold.size() == ibd_exit_step && !got.empty()) ctx.probe("ibd_exit_block_reports_mempool_txs");
                ctx.evf("ev B %s h=%u n=%zu", Hx(h).c_str(), e.height, got.size());
                break;
            }
            case Ev::UPDATED_TIP: {
                // UpdatedBlockTip is enqueued after the BlockConnected notifications of the tip it names
                if (e.new_tip != ftip) ctx.failf("updated-tip-is-not-folded-tip", "UpdatedBlockTip(new=%s) but the block notifications delivered before it fold to tip %s", Hx(e.new_tip).c_str(), Hx(ftip).c_str());
                if (e.has_fork) {
                    int f = ref().Find(e.fork_tip), t = ref().Find(ftip);
                    if (f < 0 || t < 0 || !ref().IsAncestor(f, t)) ctx.failf("updated-tip-fork-not-ancestor", "UpdatedBlockTip(new=%s, fork=%s): fork is not an ancestor of the new tip", Hx(e.new_tip).c_str(), Hx(e.fork_tip).c_str());
                }
                if (e.has_real_tip && e.real_tip != e.new_tip) ctx.failf("updated-tip-real-tip-mismatch", "UpdatedBlockTip(new=%s) ran (immediate runner) while the real tip was %s", Hx(e.new_tip).c_str(), Hx(e.real_tip).c_str());
                ctx.evf("ev U %s", Hx(e.new_tip).c_str());
                break;
            }
            case Ev::TX_ADD: {
                SeqCheck(e, "TransactionAddedToMempool");
                const Txid id = e.tx->GetHash();
                if (!KnownTx(*e.tx)) ctx.failf("reported-tx-unknown", "TransactionAddedToMempool reports %s (wtxid %s) which was never generated", Hx(id.ToUint256()).c_str(), Hx(e.tx->GetWitnessHash().ToUint256()).c_str());
                if (fmempool.count(id)) ctx.failf("tx-added-twice", "TransactionAddedToMempool(%s) while the notifications so far say it is already in the mempool", Hx(id.ToUint256()).c_str());
                fmempool[id] = e.tx->GetWitnessHash();
                ++n_add;
                ctx.probe("ev_tx_added");
                ctx.evf("ev A %s seq=%lu", Hx(id.ToUint256()).c_str(), (unsigned long)e.seq);
                break;
            }
            case Ev::TX_REMOVE: {
                SeqCheck(e, "TransactionRemovedFromMempool");
                const Txid id = e.tx->GetHash();
                if (e.reason == (int)MemPoolRemovalReason::BLOCK) ctx.failf("tx-removed-with-reason-block", "TransactionRemovedFromMempool(%s, reason=block): that reason is reported through MempoolTransactionsRemovedForBlock only", Hx(id.ToUint256()).c_str());
                auto f = fmempool.find(id);
                if (f == fmempool.end()) {
                    // reported removed without having been reported added
                    auto ev = evicted_on_entry.find(id);
                    const bool entry_eviction = ev != evicted_on_entry.end() && ev->second > 0 && (e.reason == (int)MemPoolRemovalReason::SIZELIMIT || e.reason == (int)MemPoolRemovalReason::EXPIRY);
                    if (!entry_eviction)
                        ctx.failf("tx-removed-before-added", "TransactionRemovedFromMempool(%s, reason=%s) but no TransactionAddedToMempool for it was delivered before (since its last removal)", Hx(id.ToUint256()).c_str(), ReasonName(e.reason));
                    --ev->second;
                    ctx.probe("removed_never_added_evicted_on_entry");
                    // Known finding (see /verif/known_findings.txt): raised at the end of the run so that it never masks another clause.
                    if (!deferred) {
                        char buf[500];
                        snprintf(buf, sizeof buf, "TransactionRemovedFromMempool(%s, reason=%s) was delivered but TransactionAddedToMempool never: the submission was accepted, trimmed again by its own LimitMempoolSize and answered 'mempool full'",
                                 Hx(id.ToUint256()).c_str(), ReasonName(e.reason));
                        deferred = Violation{"tx-removed-never-added-evicted-on-entry", buf};
                    }
                } else {
                    if (f->second != e.tx->GetWitnessHash()) ctx.failf("removed-tx-differs-from-added", "TransactionRemovedFromMempool(%s) carries another witness than the transaction that was reported added", Hx(id.ToUint256()).c_str());
                    fmempool.erase(f);
                }
                ++n_remove;
                ctx.probe((std::string("ev_tx_removed_") + ReasonName(e.reason)).c_str());
                ctx.evf("ev R %s %s seq=%lu", Hx(id.ToUint256()).c_str(), ReasonName(e.reason), (unsigned long)e.seq);
                break;
            }
            case Ev::FLUSHED: ctx.probe("ev_chainstate_flushed"); break;
            }
        }
    }

    /** Take what the recorder has, extend truth and fold, compare. `drained`: the queue is known to be empty. */
    void Process(bool drained, const char* where)
    {
        std::vector<Sample> smp;
        size_t from = evs.size();
        {
            std::lock_guard<std::mutex> g(rec->mu);
            smp.assign(rec->samples.begin() + smp_done, rec->samples.end());
            smp_done = rec->samples.size();
            evs.insert(evs.end(), rec->events.begin() + ev_done, rec->events.end());
            ev_done = rec->events.size();
        }
        ProcessSamples(smp);
        ProcessEvents(from);
        // the delivered block notifications, applied in order, are a prefix of / equal to the real sequence of tip changes
        const size_t n = std::min(fold.size(), truth.size());
        for (size_t i = 0; i < n; ++i)
            if (!(fold[i] == truth[i]))
                ctx.failf("block-notifications-differ-from-tip-changes", "%s: tip change #%zu was %s(%s) but notification #%zu says %s(%s)", where, i, truth[i].connect ? "connect" : "disconnect", Hx(truth[i].block).c_str(), i,
                          fold[i].connect ? "connect" : "disconnect", Hx(fold[i].block).c_str());
        if (fold.size() > truth.size()) ctx.failf("block-notification-for-tip-change-that-did-not-happen", "%s: %zu block notifications delivered but only %zu tip changes happened; first extra: %s(%s)", where, fold.size(), truth.size(), fold[truth.size()].connect ? "connect" : "disconnect", Hx(fold[truth.size()].block).c_str());
        if (fold.size() < truth.size()) ctx.probe("notifications_behind_validation_at_op_end");
        if (drained) {
            if (fold.size() != truth.size())
                ctx.failf("block-notifications-missing-after-drain", "%s: the queue is drained, %zu tip changes happened but only %zu block notifications were delivered; first missing: %s(%s)", where, truth.size(), fold.size(), truth[fold.size()].connect ? "connect" : "disconnect", Hx(truth[fold.size()].block).c_str());
            if (ftip != true_tip) ctx.failf("block-notifications-differ-from-tip-changes", "%s: folded tip %s, real tip %s", where, Hx(ftip).c_str(), Hx(true_tip).c_str());
            if (!announced.empty()) ctx.failf("block-connected-missing-after-drain", "%s: MempoolTransactionsRemovedForBlock(%s) was delivered, its BlockConnected never", where, Hx(announced.front()).c_str());
            // folded mempool == real mempool
            std::map<Txid, Wtxid> real;
            for (auto& info : ms.pool().infoAll()) real.emplace(info.tx->GetHash(), info.tx->GetWitnessHash());
            for (auto& [id, w] : real) {
                auto f = fmempool.find(id);
                if (f == fmempool.end()) ctx.failf("folded-mempool-misses-real-entry", "%s: %s is in the mempool but the notifications (added/removed/removed-for-block, applied in order) say it is not", where, Hx(id.ToUint256()).c_str());
                if (f->second != w) ctx.failf("reported-tx-differs-from-mempool-entry", "%s: %s was reported added with another witness than the mempool entry has", where, Hx(id.ToUint256()).c_str());
            }
            for (auto& [id, w] : fmempool)
                if (!real.count(id)) ctx.failf("folded-mempool-has-extra-entry", "%s: the notifications say %s is in the mempool but it is not", where, Hx(id.ToUint256()).c_str());
            ctx.probe("full_comparison_after_drain");
        }
        marker = ev_done;
        uint64_t mh = 0;
        for (auto& [id, w] : fmempool) mh = mix64(mh, id.ToUint256().GetUint64(0));
        ctx.fingerprint(mix64(mix64(ftip.GetUint64(0), mh), fold.size()));
        if (after_base && n_connect && n_add) ctx.nontrivial = true;
    }

    void RealDrain()
    {
        if (!threaded) return;
        const bool was = g_lazy.exchange(false);
        ms.node().DrainSignals();
        g_lazy = was;
        ctx.probe("real_drain");
    }

    // ---- immediate runner: attribute the events of one submission exactly ------------------------------------------------
    void AfterSubmit(const SubmitRecord& r)
    {
        if (!r.is_package && !r.test_accept && r.result_type == MempoolAcceptResult::ResultType::INVALID && r.reject_reason == "mempool full") ++evicted_on_entry[r.txs[0]->GetHash()];
        if (threaded) return;
        // (ImmediateTaskRunner: everything this call generated has been delivered; nothing else ran since `marker`)
        std::vector<const Ev*> mine;
        for (size_t i = marker; i < rec->events.size(); ++i) {
            const Ev& e = rec->events[i];
            if (e.kind == Ev::TX_ADD || e.kind == Ev::TX_REMOVE || e.kind == Ev::BLOCK_TXS || e.kind == Ev::CONNECT || e.kind == Ev::DISCONNECT) mine.push_back(&e);
        }
        marker = rec->events.size();
        if (r.test_accept) {
            if (!mine.empty()) ctx.failf("test-accept-emitted-notification", "a test_accept submission generated %zu mempool/block notifications", mine.size());
            ctx.probe("test_accept_silent");
            return;
        }
        std::set<Wtxid> submitted;
        for (auto& t : r.txs) submitted.insert(t->GetWitnessHash());
        std::set<Txid> replaced_ev;
        std::map<Wtxid, int> added;
        for (const Ev* e : mine) {
            if (e->kind == Ev::TX_ADD) {
                if (!submitted.count(e->tx->GetWitnessHash())) ctx.failf("added-tx-is-not-the-submitted-one", "a submission generated TransactionAddedToMempool(%s) which is not among the submitted transactions", Hx(e->tx->GetHash().ToUint256()).c_str());
                ++added[e->tx->GetWitnessHash()];
            } else if (e->kind == Ev::TX_REMOVE && e->reason == (int)MemPoolRemovalReason::REPLACED) {
                replaced_ev.insert(e->tx->GetHash());
            }
        }
        if (!r.is_package) {
            const Wtxid w = r.txs[0]->GetWitnessHash();
            const int n = added.count(w) ? added[w] : 0;
            if (r.result_type == MempoolAcceptResult::ResultType::VALID) {
                if (n != 1) ctx.failf("accepted-tx-not-reported-added", "submission of %s was accepted but generated %d TransactionAddedToMempool notifications", Hx(r.txs[0]->GetHash().ToUint256()).c_str(), n);
                std::set<Txid> replaced_res(r.replaced.begin(), r.replaced.end());
                if (replaced_res != replaced_ev) ctx.failf("replaced-notifications-differ-from-result", "submission of %s replaced %zu transactions per its result, %zu TransactionRemovedFromMempool(replaced) notifications", Hx(r.txs[0]->GetHash().ToUint256()).c_str(), replaced_res.size(), replaced_ev.size());
                if (!replaced_ev.empty()) ctx.probe("replacement_notifications_match_result");
            } else if (n != 0) {
                ctx.failf("rejected-tx-reported-added", "submission of %s was refused (%s) but generated TransactionAddedToMempool", Hx(r.txs[0]->GetHash().ToUint256()).c_str(), r.reject_reason.c_str());
            }
        } else {
            for (auto& [w, res] : r.pkg_tx_results)
                if (res.first != MempoolAcceptResult::ResultType::VALID && added.count(w)) ctx.failf("rejected-tx-reported-added", "package member (wtxid %s) was not accepted (%s) but generated TransactionAddedToMempool", Hx(w.ToUint256()).c_str(), res.second.c_str());
        }
    }

    // ---- two driver threads ---------------------------------------------------------------------------------------------
    void Race(const Op& op)
    {
        const int tip = ms.TipIdx();
        if (tip < 0) return;
        Rng r(mix64((uint64_t)op.arg(4), 0x72616365));
        const int depth = (int)std::clamp<int64_t>(op.arg(0), 0, 4);
        const int la = (int)std::clamp<int64_t>(op.arg(1), 1, 3), lb = (int)std::clamp<int64_t>(op.arg(2), 0, 3);
        const int ntx = (int)std::clamp<int64_t>(op.arg(3), 0, 4);
        const int mode = (int)op.mod(5, 3);
        std::vector<int> A, B;
        int parent = tip;
        for (int i = 0; i < la; ++i) { parent = ms.cs.MineOn(parent, ntx, r.next(), D_NONE, B_NONE, 0); A.push_back(parent); }
        if (mode != 1) {
            const int fork = ref().Ancestor(tip, std::max(0, ref().blocks[tip].height - depth));
            const int nb = ref().blocks[tip].height - ref().blocks[fork].height + lb;
            parent = fork;
            for (int i = 0; i < nb; ++i) { parent = ms.cs.MineOn(parent, ntx, r.next(), D_NONE, B_NONE, 0); B.push_back(parent); }
        }
        std::vector<CTransactionRef> txs;
        if (mode != 0) {
            const Keyring& kr = Keys();
            auto conf = ms.FreeConfirmed();
            std::vector<MempoolSim::Spendable> usable;
            for (auto& s : conf)
                if (kr.Classify(s.coin.spk).kind != SK::TRUE_BARE) usable.push_back(s);
            for (int i = 0; i < 4 && !usable.empty(); ++i) {
                size_t k = r.below(usable.size());
                MempoolSim::Spendable s = usable[k];
                usable.erase(usable.begin() + k);
                txs.push_back(ms.MakeTx({s}, {CTxOut(0, kr.Spk(SK::P2WPKH, (int)r.below(N_KEYS)))}, 2000 + (int64_t)r.below(20000), 0, 2, 0, {}, SigDefect::NONE, TS_SIMPLE));
            }
        }
        std::vector<std::shared_ptr<const CBlock>> ablocks, bblocks;
        for (int i : A) ablocks.push_back(ref().blocks[i].block);
        for (int i : B) bblocks.push_back(ref().blocks[i].block);
        ChainstateManager& cm = ms.node().cm();
        Recorder* rc = rec.get();
        std::vector<int> bres(bblocks.size() + txs.size(), -1), ares(ablocks.size(), -1);
        auto other = [&cm, rc, &bblocks, &txs, &bres] {
            size_t k = 0;
            for (auto& b : bblocks) {
                bres[k++] = cm.ProcessNewBlock(b, /*force_processing=*/true, /*min_pow_checked=*/true, nullptr);
                rc->SampleNow(Sample::CALL_END);
            }
            for (auto& t : txs) {
                LOCK(cs_main);
                bres[k++] = cm.ProcessTransaction(t, /*test_accept=*/false).m_result_type == MempoolAcceptResult::ResultType::VALID;
            }
        };
        auto mine = [&] {
            size_t k = 0;
            for (auto& b : ablocks) {
                ares[k++] = cm.ProcessNewBlock(b, true, true, nullptr);
                rc->SampleNow(Sample::CALL_END);
            }
        };
        if (threaded) {
            std::thread th(other);
            mine();
            th.join();
            ctx.probe("race_two_driver_threads");
        } else {
            // same deliveries, one after the other in a seeded order
            if (r.coin()) { mine(); other(); } else { other(); mine(); }
            ctx.probe("race_sequential");
        }
        for (int i : A) ms.cs.delivered[i] = 1;
        for (int i : B) ms.cs.delivered[i] = 1;
        std::string sa, sb;
        for (int v : ares) sa += std::to_string(v);
        for (int v : bres) sb += std::to_string(v);
        ctx.evf("race A=[%s] B=[%s] tip=%s h=%d pool=%lu", sa.c_str(), sb.c_str(), Hx(ms.node().TipHash()).c_str(), ms.node().Height(), ms.pool().size());
        if (ms.node().Fatal()) ctx.failf("node-fatal-error", "during race");
        ms.cs.CheckAll("race");
    }

    // ---------------------------------------------------------------------------------------------------------------------
    void Setup()
    {
        rec->slot = &ms.cs.node;
        rec->immediate = !threaded;
        ms.cs.tweak_opts = [this](NodeOpts& o) {
            // (the mempool options of MempoolSim::Setup)
            o.mempool_check_ratio = 1;
            o.mempool_max_bytes = ctx.knob("mempool_kb", 300000) * 1000;
            o.mempool_expiry_s = ctx.knob("expiry_h", 336) * 3600;
            o.require_standard = true;
            kernel::MemPoolLimits lim;
            lim.cluster_count = (unsigned)ctx.knob("cluster_count", 64);
            lim.cluster_size_vbytes = ctx.knob("cluster_kvb", 101) * 1000;
            o.limits = lim;
            o.listeners.push_back(rec);
            if (ibd_mode) o.max_tip_age = std::chrono::seconds{IBD_MAX_TIP_AGE};
            if (threaded) {
                o.immediate_signals = false;
                o.make_runner = &MakeRunner;
            }
        };
        ms.after_submit = [this](const SubmitRecord& r) { AfterSubmit(r); };
        if (ibd_mode) ms.cs.start_shift = IBD_CLOCK_LEAD; // every block lags the clock by ~1000 days until the 'time = now' block
        ms.cs.Setup();
        if (ibd_mode) ms.cs.start_time = ms.cs.now;
    }

    void EndOfOp(const char* where)
    {
        rec->SampleNow(Sample::CALL_END);
        bool drained = !threaded;
        if (threaded && !lazy) { RealDrain(); drained = true; }
        Process(drained, where);
    }

    void Body()
    {
        Setup();
        EndOfOp("after base chain");
        after_base = true;
        const int64_t ibd_exit_op = ctx.knob("ibd_exit_op", 8);
        int64_t op_no = 0;
        for (const Op& op : ctx.plan.ops) {
            if (ibd_mode && op_no++ == ibd_exit_op) ms.cs.next_block_time_now = true;
            if (!threaded) marker = rec->events.size(); // (immediate runner: nothing is pending)
            if (op.kind == X_DRAIN) {
                rec->SampleNow(Sample::CALL_END);
                RealDrain();
                Process(true, "drain point");
                continue;
            } else if (op.kind == X_RACE) {
                Race(op);
            } else if (op.kind == OP_RESTART) {
                continue; // (in-memory databases only)
            } else {
                ms.ExecOp(op);
            }
            EndOfOp(Describe(op).c_str());
        }
        rec->SampleNow(Sample::CALL_END);
        RealDrain();
        Process(true, "end of run");
        if (rec->overlapped) ctx.failf("callbacks-overlapped", "%lu callbacks started while another callback of the same subscriber was running", (unsigned long)rec->overlapped);
#ifndef C63_SUPPRESS_KNOWN_FINDING // (private determinism self-tests only: lets the runner's duplicate batch run to completion)
        if (deferred) throw *deferred;
#endif
    }

    void StopScheduler()
    {
        if (!g_box) return;
        g_lazy = false;
        g_box->sched.stop(); // joins the service thread
    }

    void Run()
    {
        try {
            Body();
        } catch (...) {
            // the node's destructor flushes the runner, which requires that no thread services the scheduler any more
            StopScheduler();
            throw;
        }
        StopScheduler();
        ctx.sim_ms = (uint64_t)(ms.cs.now - ms.cs.start_time) * 1000;
        ms.cs.node->Stop(true);
        ms.cs.node.reset();
    }
};

void Run(Ctx& ctx)
{
    const bool threaded = ctx.knob("threads", 0) != 0;
    g_lazy = false;
    g_barriers_skipped = 0;
    g_barriers_forwarded = 0;
    if (threaded) {
        threadsim::Config tc;
        const int pol = (int)ctx.knob("policy", 1);
        tc.policy = pol == 0 ? threadsim::Policy::COOPERATIVE : pol == 2 ? threadsim::Policy::PCT : threadsim::Policy::PREEMPTIVE;
        tc.seed = (uint64_t)ctx.knob("sched_seed", 1);
        tc.switch_per_1024 = (uint32_t)std::clamp<int64_t>(ctx.knob("switch_per_1024", 64), 1, 1024);
        tc.pct_depth = (int)std::clamp<int64_t>(ctx.knob("pct_depth", 3), 1, 16);
        tc.pct_expected_points = 20000;
        tc.spurious_wakeups = ctx.knob("spurious", 0) != 0;
        threadsim::Arm(tc);
        g_box = new SchedBox;
        g_box->sched.m_service_thread = std::thread([b = g_box] { b->sched.serviceQueue(); });
        g_lazy = ctx.knob("lazy", 1) != 0;
    }
    auto finish_threads = [&](bool ok) {
        if (!threaded) return;
        auto st = threadsim::GetStats();
        threadsim::Disarm();
        delete g_box; // (its service thread has been joined by Sim::Run on both paths)
        g_box = nullptr;
        g_lazy = false;
        if (!ok) return;
        ctx.sched_points = st.points;
        ctx.probe("thread_switches", st.switches);
        if (st.spurious) ctx.fault("spurious_condvar_wakeup", st.spurious);
        if (g_barriers_skipped) ctx.probe("per_call_barrier_answered_without_draining", g_barriers_skipped);
        if (g_barriers_forwarded) ctx.probe("barrier_forwarded_to_scheduler", g_barriers_forwarded);
        ctx.fingerprint(st.schedule_hash);
        ctx.evf("schedule hash %016llx switches %llu", (unsigned long long)st.schedule_hash, (unsigned long long)st.switches);
    };
    try {
        Sim s(ctx);
        s.Run();
    } catch (...) {
        finish_threads(false);
        throw;
    }
    finish_threads(true);
}

Engine MakeEngine()
{
    Engine e;
    e.prop = "C63";
    e.name = "nodesim+threadsim/validation-notifications";
    e.level = "exploration";
    e.gen = Gen;
    e.run = Run;
    e.describe = Describe;
    e.chunk = 1;
    e.quick_runs = 450;
    e.thorough_runs = 14000;
    e.quick_budget_s = 50;
    e.thorough_budget_s = 900;
    e.run_timeout_s = 300;
    e.rule = "each run = one real regtest node with a recording CValidationInterface, a 101-125 block base chain and 30-270 seeded operations of the shared mempool/chain history workload (transactions of 11 shapes incl. "
             "replacements, packages, prioritisation, blocks confirming a subset of the mempool plus a conflicting transaction, reorgs delivered in order / reversed / twice, forks, blocks with a consensus defect in the middle "
             "of a branch, blocks delivered before their parents, invalidateblock/reconsiderblock, clock jumps past expiry, small mempools that trim) plus drain points and 'race' operations. 60% of runs use the ImmediateTaskRunner "
             "(histories; the real tip is also sampled inside every callback and the notifications of each submission are attributed exactly), 40% the real CScheduler + SerialTaskRunner with the service thread under threadsim "
             "(cooperative / uniform preemption with switch probability 1/128..1/4 / PCT depth 2-6, optional spurious condition-variable wake-ups): callbacks run late across operations (the per-call barrier of the workload is answered "
             "without draining unless >10 callbacks are pending, real drains at seeded points and at the end) and 'race' operations run a second driver thread (competing branch and/or transactions) against the main thread's blocks. "
             "Truth: the exact sequence of tip changes is rebuilt from samples taken under cs_main in the synchronous BlockChecked(valid)/ActiveTipChange calls and after every driver call; true mempool = CTxMemPool::infoAll at drain points. "
             "Oracle: BlockConnected/BlockDisconnected in delivery order fold over 'no tip' (disconnect(B) only if B is the folded tip, connect(B) only if B.hashPrevBlock is) and equal, element by element, a prefix of the true tip-change "
             "sequence, the whole sequence once drained; every reported block serialises to the generated bytes and comes with its own index entry (hash, height, prev); UpdatedBlockTip names the folded tip; "
             "MempoolTransactionsRemovedForBlock precedes its BlockConnected in chain order, names the right height and lists exactly the block's transactions that the notifications so far say are in the mempool; per txid Added and "
             "Removed alternate starting with Added (same witness), reason 'block' never appears in Removed, mempool_sequence strictly increases over Added/Removed in delivery order; after a drain the folded mempool equals the real one "
             "(txid and wtxid); with the immediate runner: test_accept generates nothing, an accepted submission exactly one Added, a refused one none, Removed(replaced) == the result's replaced list. "
             "non-trivial = after the base chain at least one BlockConnected and one TransactionAddedToMempool were delivered; distinct = distinct (folded tip, folded mempool, #block notifications) fingerprints plus the schedule hash.";
    e.real_components = {"ValidationSignals + ValidationSignalsImpl (validationinterface.cpp)", "CScheduler + SerialTaskRunner (scheduler.cpp) with a real service thread (part b)", "util::ImmediateTaskRunner (part a)",
                         "Chainstate::ActivateBestChain/ActivateBestChainStep/ConnectTip/DisconnectTip/InvalidateBlock/MaybeUpdateMempoolForReorg", "CTxMemPool (removeUnchecked/removeForBlock/Expire/TrimToSize), MemPoolAccept (single, package, RBF)",
                         "LimitValidationInterfaceQueue back-pressure"};
    e.stub_components = {"OS thread scheduler (threadsim token passing, seeded)", "clocks (SetMockTime for NodeClock, simulated steady clock for CScheduler)", "peers/RPC (blocks and transactions handed to ProcessNewBlock / ProcessTransaction / ProcessNewPackage)",
                         "forwarding TaskRunner in front of SerialTaskRunner: answers the workload's own per-call SyncWithValidationInterfaceQueue barrier immediately when <= 10 callbacks are pending (lazy knob)"};
    e.assumptions = {"known finding tx-removed-never-added-evicted-on-entry (a single submission accepted and then expired/trimmed by its own LimitMempoolSize is reported removed but never added) is raised at the end of each run in which it occurs; every other removal without a preceding addition is a hard violation",
                     "initial block download only as a leading phase of 25% of the runs (1h max_tip_age, clock 1000 days ahead, ended by one block stamped with the clock; MempoolTransactionsRemovedForBlock is documented not to fire in IBD and is required from the block that ends it onwards); a node that re-enters IBD does not exist (the latch is one-way)", "in-memory databases, no restarts (a restart re-bases every subscriber)",
                     "truth of tip changes relies on the synchronous BlockChecked(valid) call of ConnectTip being followed by SetTip (true unless a flush fails, which is a fatal error here)",
                     "RefChain block tree (parents, heights, generated block bytes) is the identity reference for reported blocks; MempoolSim::made and the generated blocks are the identity reference for reported transactions",
                     "threads are serialised by threadsim: weak-memory effects are invisible"};
    e.expected_probes = {"ev_block_connected", "ev_block_disconnected", "ev_tx_added", "ev_tx_removed_replaced", "ev_tx_removed_conflict", "ev_tx_removed_reorg", "ev_tx_removed_sizelimit", "ev_tx_removed_expiry",
                         "ev_removed_for_block_nonempty", "multi_block_connect_step", "full_comparison_after_drain", "test_accept_silent", "replacement_notifications_match_result", "callback_on_scheduler_thread",
                         "notifications_behind_validation_at_op_end", "per_call_barrier_answered_without_draining", "barrier_forwarded_to_scheduler", "real_drain", "race_two_driver_threads", "race_sequential", "thread_switches",
                         "invalidateblock", "reconsiderblock", "reorg", "node_rejected_block"};
    return e;
}
Engine g_engine = MakeEngine();
SIM_REGISTER_ENGINE(g_engine);

} // namespace
