// C14 — parallel validation gives the same results as serial validation, without races.
// threadsim: the subject node runs its real script-check workers (CCheckQueue) and prevout-fetch workers
// (ThreadPool + CoinsViewOverlay) as real threads of which exactly one runs at a time; the seed decides every switch
// (uniform preemption or PCT priorities) at every intercepted pthread/futex call and at the guarded VERIF_YIELD points
// inside the lock-free regions. A serial twin (0/0 workers) is fed the same deliveries; verdicts, tips and UTXO hashes
// must agree for every schedule; the vector-clock checker must see no unordered accesses to the annotated shared fields.
#include "../core/sim.h"
#include "../nodesim/chainsim.h"
#include "../threadsim/threadsim.h"

#include <consensus/validation.h>
#include <util/time.h>

using namespace sim;
using namespace nodesim;

namespace {

Plan Gen(uint64_t seed, Tier tier)
{
    Rng rng(seed);
    Plan p;
    p.knobs["base"] = rng.range(101, 106);
    p.knobs["on_disk"] = 0;
    p.knobs["coins_cache_kb"] = rng.chance(1, 3) ? rng.range(8, 64) : 8192; // small: inputs must come from the DB, not the cache
    p.knobs["batch_bytes"] = 16 << 20;
    p.knobs["workers"] = rng.chance(1, 8) ? 0 : rng.range(1, 6);
    p.knobs["fetchers"] = rng.chance(1, 8) ? 0 : rng.range(1, 6);
    if (p.knobs["workers"] == 0 && p.knobs["fetchers"] == 0) p.knobs["fetchers"] = 2;
    p.knobs["policy"] = rng.pick({1, 5, 3}); // 0 cooperative, 1 preemptive, 2 PCT
    p.knobs["switch_per_1024"] = rng.pick({1, 1, 1}) == 0 ? 64 : (int64_t)rng.pick({1, 1, 1, 1}) * 0 + (int64_t)(64 << rng.below(4));
    p.knobs["pct_depth"] = rng.range(2, 5);
    p.knobs["sched_seed"] = (int64_t)(rng.next() >> 8);
    p.knobs["spurious"] = rng.chance(1, 4) ? 1 : 0;
    int nops = (int)rng.range(6, tier == Tier::THOROUGH ? 24 : 12);
    for (int i = 0; i < nops; ++i) {
        Op op;
        int k = (int)rng.pick({70, 5, 0, 0, 0, 0, 8, 0, 0, 17});
        op.kind = k;
        switch (k) {
        case OP_MINE: {
            int defect = D_NONE;
            if (rng.chance(25, 100)) defect = (int)rng.pick({0, 0, 0, 0, 0, 0, 6, 6, 3, 3, 3, 0, 0, 0, 0, 0, 0, 10, 6, 8});
            op.a = {0, (int64_t)rng.skewed(0, 1), (int64_t)rng.range(2, tier == Tier::THOROUGH ? 30 : 14), (int64_t)(rng.next() >> 16), defect, 0, 0, 1};
            break;
        }
        case OP_DELIVER: op.a = {(int64_t)rng.below(2), (int64_t)rng.below(1000), 1, 1}; break;
        case OP_FLUSH: op.a = {(int64_t)rng.below(2)}; break;
        case OP_REORG: op.a = {(int64_t)rng.range(1, 3), 1, (int64_t)rng.range(1, 8), (int64_t)(rng.next() >> 16), 0}; break;
        }
        p.ops.push_back(op);
    }
    return p;
}

void Run(Ctx& ctx)
{
    threadsim::Config tc;
    int pol = (int)ctx.knob("policy", 1);
    tc.policy = pol == 0 ? threadsim::Policy::COOPERATIVE : pol == 2 ? threadsim::Policy::PCT : threadsim::Policy::PREEMPTIVE;
    tc.seed = (uint64_t)ctx.knob("sched_seed", 1);
    tc.switch_per_1024 = (uint32_t)std::clamp<int64_t>(ctx.knob("switch_per_1024", 256), 1, 1024);
    tc.pct_depth = (int)ctx.knob("pct_depth", 3);
    tc.pct_expected_points = 4000;
    tc.spurious_wakeups = ctx.knob("spurious", 0) != 0;
    threadsim::Arm(tc);
    {
        ChainSimConfig cfg;
        ChainSim cs(ctx, cfg);
        const int workers = (int)std::clamp<int64_t>(ctx.knob("workers", 2), 0, 16);
        const int fetchers = (int)std::clamp<int64_t>(ctx.knob("fetchers", 2), 0, 16);
        cs.tweak_opts = [&](NodeOpts& o) {
            o.worker_threads = workers;
            o.prevout_threads = fetchers;
        };
        cs.Setup();
        // the serial twin: same chain parameters, no worker threads of either kind
        NodeOpts to;
        to.dir = RunDir() + "/twin";
        to.coins_cache_bytes = (uint64_t)ctx.knob("coins_cache_kb", 8192) * 1024;
        to.mempool_check_ratio = 0;
        SimNode twin(to);
        if (!twin.Start()) ctx.failf("twin-start-failed", "%s", twin.last_error.c_str());
        size_t replayed = 0;
        auto sync_twin = [&](const char* where) {
            for (; replayed < cs.delivery_log.size(); ++replayed) {
                const auto& d = cs.delivery_log[replayed];
                auto r = twin.ProcessBlock(cs.ref->blocks[d.idx].block, d.force);
                bool tv = r.verdict.has_value();
                if (d.accepted != r.accepted || d.has_verdict != tv || (tv && (d.valid != r.verdict->valid || d.result != (int)r.verdict->result)))
                    ctx.failf("verdict-differs-from-serial", "%s: block #%d: parallel node (workers=%d fetchers=%d) accepted=%d verdict=%s(%d), serial twin accepted=%d verdict=%s(%d)", where, d.idx, workers, fetchers, d.accepted,
                              d.has_verdict ? (d.valid ? "valid" : d.reason.c_str()) : "-", d.result, r.accepted, tv ? (r.verdict->valid ? "valid" : r.verdict->reason.c_str()) : "-", tv ? (int)r.verdict->result : -1);
            }
            if (twin.TipHash() != cs.node->TipHash()) {
                // equal-work ties may legitimately resolve differently only if both tips have the same work
                int a = cs.ref->Find(twin.TipHash()), b = cs.TipIdx();
                if (a < 0 || b < 0 || cs.ref->Work(a) != cs.ref->Work(b)) ctx.failf("tip-differs-from-serial", "%s: parallel node tip #%d, serial twin tip #%d", where, b, a);
            }
        };
        sync_twin("base chain");
        threadsim::RedrawPct(2000 * (ctx.plan.ops.size() + 1)); // the change points belong into the workload, not the base chain
        for (const Op& op : ctx.plan.ops) {
            cs.ExecOp(op);
            sync_twin(DescribeChainOp(op).c_str());
            if (twin.TipHash() == cs.node->TipHash() && (ctx.trace.n % 3) == 0) {
                uint256 a = cs.node->UtxoHash(), b = twin.UtxoHash();
                if (a != b) ctx.failf("utxo-differs-from-serial", "after %s: UTXO hash of the parallel node differs from the serial twin's", DescribeChainOp(op).c_str());
                ctx.probe("utxo_hash_compared");
            }
        }
        if (twin.TipHash() == cs.node->TipHash() && cs.node->UtxoHash() != twin.UtxoHash()) ctx.failf("utxo-differs-from-serial", "end of run");
        cs.CheckUtxo("end of run (model)");
        twin.Stop(false);
        cs.node->Stop(false);
        cs.node.reset(); // joins the worker threads while the scheduler is still armed
    }
    auto st = threadsim::GetStats();
    auto races = threadsim::Races();
    threadsim::Disarm();
    ctx.sched_points = st.points;
    ctx.probe("threads_created", st.threads_created);
    ctx.probe("thread_switches", st.switches);
    if (st.timed_out_waits) ctx.probe("timed_waits_expired", st.timed_out_waits);
    if (st.spurious) ctx.fault("spurious_condvar_wakeup", st.spurious);
    ctx.fingerprint(st.schedule_hash);
    ctx.evf("schedule hash %016llx switches %llu", (unsigned long long)st.schedule_hash, (unsigned long long)st.switches);
    if (st.switches > 10) ctx.nontrivial = true;
    if (!races.empty()) ctx.failf("data-race", "unordered accesses: %s <-> %s (%zu pairs)", races[0].site_a.c_str(), races[0].site_b.c_str(), races.size());
}

Engine MakeEngine()
{
    Engine e;
    e.prop = "C14";
    e.name = "threadsim/parallel-validation";
    e.level = "exploration";
    e.gen = Gen;
    e.run = Run;
    e.describe = DescribeChainOp;
    e.chunk = 1;
    e.quick_runs = 800;
    e.thorough_runs = 20000;
    e.quick_budget_s = 75;
    e.thorough_budget_s = 1200;
    e.run_timeout_s = 300;
    e.rule = "each run = one seeded schedule of the real worker threads (script-check workers 0-6, prevout-fetch workers 0-6; policy: uniform preemption with switch probability 1/16..1/2 per scheduling point, "
             "or PCT with depth 2-5, or cooperative) over a seeded workload of 6-24 operations on top of a 101-106 block base chain: blocks with 2-30 signed transactions (P2WPKH/P2TR/P2PKH/P2SH-P2WPKH/P2WSH mixes, "
             "inputs from cache or DB or created in the same block), a quarter of them with one defect (bad signature, wrong key, stripped witness, missing/spent input, double spend in block), reorgs, flushes; "
             "small coins caches force prevouts to be fetched from the DB. non-trivial = more than 10 thread switches; distinct = distinct hashes of the sequence of thread choices (distinct interleavings).";
    e.real_components = {"CCheckQueue + CScriptCheck workers", "ThreadPool + CoinsViewOverlay prevout fetchers (lock-free claim/ready protocol)", "ConnectBlock/ActivateBestChain", "libstdc++ mutex/condition_variable/future/atomic wait (through interposed pthread + futex)", "LevelDB (in-memory env)"};
    e.stub_components = {"OS thread scheduler (token-passing simulator: one thread runs at a time, seed decides switches)", "clocks (simulated)", "peers"};
    e.assumptions = {"threads are serialised: weak-memory effects and torn plain accesses are invisible; data races are decided by a vector-clock happens-before check on the annotated fields only (InputToFetch::coin, m_inputs)",
                     "the serial twin (0 workers / 0 fetchers) is the reference for verdict and UTXO hash; RefChain additionally checks the final UTXO set"};
    e.expected_probes = {"threads_created", "thread_switches", "utxo_hash_compared", "node_rejected_block", "reorg"};
    return e;
}
Engine g_engine = MakeEngine();
SIM_REGISTER_ENGINE(g_engine);

} // namespace
