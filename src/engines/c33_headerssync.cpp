// C33 — headers from an unproven peer are stored only after their work is proven.
// compsim: the real HeadersSyncState (headerssync.cpp) with small per-run HeadersSyncParams
// (commitment_period 2..20, redownload_buffer_size 3..40), custom Consensus::Params with a short
// retarget interval (so that difficulty transitions are dense) and really mined synthetic header
// trees. The harness plays net_processing (the caller contract: PoW and internal continuity of a
// message are checked before it is handed over, `full` = message at max size) and a scripted peer
// that answers the sync's own locators from one of several chains: honest, too little work, switched
// to a fork at any height (before, between and inside the two passes), a chain with one header whose
// nBits is beyond the permitted transition, non-connecting / repeated / skipped / restarted / partial /
// over-long / empty batches, messages the caller has to reject. The node clock may be behind the sync
// start so that the bound on the number of commitments bites on short chains.
// Oracle: an announcement-level model written from the property statement (see Engine::rule).
#include "../core/sim.h"

#include <arith_uint256.h>
#include <chain.h>
#include <consensus/params.h>
#include <headerssync.h>
#include <kernel/chainparams.h>
#include <primitives/block.h>
#include <uint256.h>
#include <util/bitdeque.h>
#include <util/check.h>
#include <util/hasher.h>
#include <util/time.h>

#include <algorithm>
#include <deque>
#include <memory>
#include <string>
#include <vector>

using namespace sim;

namespace {

// ---- read-only view of the per-peer memory of the sync object (the statement bounds it). The members are
// private; explicit template instantiation is exempt from access checking, which gives a legal pointer to them.
template <typename Tag, typename Tag::type M>
struct Rob {
    friend typename Tag::type Peek(Tag) { return M; }
};
#define SIM_PEEK(tag, T, member)                                  \
    struct tag {                                                  \
        using type = T HeadersSyncState::*;                       \
        friend type Peek(tag);                                    \
    };                                                            \
    template struct Rob<tag, &HeadersSyncState::member>
SIM_PEEK(CommitsTag, bitdeque<>, m_header_commitments);
SIM_PEEK(BufferTag, std::deque<CompressedHeader>, m_redownloaded_headers);
SIM_PEEK(HasherTag, const SaltedUint256Hasher, m_hasher);

/** The sync object with a commitment offset chosen by the plan (as the fuzz target does); offset<0 keeps the
 *  value the implementation drew itself. */
class SimHeadersSync : public HeadersSyncState
{
public:
    SimHeadersSync(const Consensus::Params& cp, const HeadersSyncParams& hp, int64_t offset, const CBlockIndex& start, const arith_uint256& minwork)
        : HeadersSyncState(/*id=*/0, cp, hp, start, minwork)
    {
        if (offset >= 0) const_cast<size_t&>(m_commit_offset) = (size_t)offset % hp.commitment_period;
    }
    size_t Offset() const { return m_commit_offset; }
};

enum OpKind { NEW_SYNC, SERVE, EMPTY, N_OPS };
enum StartMode { BY_LOCATOR, RELATIVE, RESTART, N_START };
enum FullMode { FULL_NATURAL, FULL_TRUE, FULL_FALSE, N_FULL };
enum Corrupt { C_NONE, C_BADPOW, C_GAP, N_CORRUPT };
enum ChainKind { K_FORK, K_ILLEGAL, N_KIND };
enum MinWorkMode { MW_EXACT, MW_PLUS1, MW_MINUS1, MW_UNREACHABLE, N_MW };

constexpr int MAX_CHAINS = 6;
constexpr int64_t FAR_SLACK = 7200 + 86400; // node clock a day after the sync start: the commitment bound is irrelevant
constexpr int64_t BASE_TIME = 1'700'000'000;

std::string KnobName(int chain, const char* field) { return "c" + std::to_string(chain) + "_" + field; }

// ------------------------------------------------------------------------------------------------ plan generation

Plan Gen(uint64_t seed, Tier tier)
{
    Rng rng(seed);
    Plan p;
    const int64_t maxlen = tier == Tier::THOROUGH ? 360 : 150;
    const int64_t P = rng.range(2, 20);
    const int64_t B = rng.chance(1, 2) ? rng.range(3, 12) : rng.range(3, 40);
    const int64_t M = rng.chance(1, 3) ? rng.range(3, 10) : rng.range(3, 48);
    const int64_t I = rng.chance(1, 2) ? 4 : rng.range(4, 16);
    const int64_t S = rng.chance(1, 5) ? 0 : rng.range(0, 40);
    p.knobs["period"] = P;
    p.knobs["buffer"] = B;
    p.knobs["max_batch"] = M;
    p.knobs["interval"] = I;
    p.knobs["start_height"] = S;
    p.knobs["base_level"] = (int64_t)rng.pick({4, 2, 2, 2});
    // chain 0 needs t headers to reach the minimum work (MW_EXACT); mostly more than a buffer so that releases are dense
    const int64_t t = rng.chance(1, 6) ? rng.range(1, B + 2) : std::min<int64_t>(maxlen, B + 2 + (rng.coin() ? rng.range(0, maxlen - B - 2) : rng.skewed(0, maxlen - B - 2)));
    p.knobs["minwork_pos"] = t;
    p.knobs["minwork_mode"] = (int64_t)rng.pick({12, 3, 3, 2});
    const int nchains = (int)rng.range(2, 5);
    p.knobs["chains"] = nchains;
    std::vector<int64_t> len(nchains);
    len[0] = t + rng.skewed(0, 40);
    p.knobs[KnobName(0, "len")] = len[0];
    p.knobs[KnobName(0, "seed")] = (int64_t)(rng.next() >> 8);
    for (int k = 1; k < nchains; ++k) {
        int parent = rng.chance(3, 4) ? 0 : (int)rng.below(k);
        int64_t fork = rng.range(0, len[parent]);
        int kind = rng.chance(1, 3) ? K_ILLEGAL : K_FORK;
        int64_t total;
        switch (rng.below(4)) {
        case 0: total = rng.range(1, std::max<int64_t>(1, t - 1)); break;             // too short to carry the work
        case 1: total = std::max<int64_t>(fork, t) + rng.skewed(0, 60); break;           // somewhat beyond
        default: total = std::max<int64_t>(fork + 1, t + rng.range(-3, 12)); break;     // around the work point
        }
        total = std::clamp<int64_t>(total, 1, maxlen + 80);
        len[k] = total;
        p.knobs[KnobName(k, "parent")] = parent;
        p.knobs[KnobName(k, "fork")] = fork;
        p.knobs[KnobName(k, "len")] = total;
        p.knobs[KnobName(k, "kind")] = kind;
        p.knobs[KnobName(k, "bad")] = rng.chance(1, 2) ? 0 : rng.skewed(0, std::max<int64_t>(0, total - fork - 1));
        p.knobs[KnobName(k, "seed")] = (int64_t)(rng.next() >> 8);
    }
    const bool tight_run = rng.chance(1, 3);
    auto draw_slack = [&]() -> int64_t {
        if (tight_run && rng.chance(2, 3)) return rng.range(0, ((t / P) + 3) * P / 6 + 2); // bound of 0 .. ~t/P+3 commitments
        return FAR_SLACK + rng.range(0, 3600);
    };
    auto draw_offset = [&]() -> int64_t { return rng.chance(1, 8) ? -1 : (int64_t)rng.below(P); };
    p.knobs["offset0"] = draw_offset();
    p.knobs["slack0"] = draw_slack();
    p.knobs["salt0"] = (int64_t)(rng.next() >> 8);

    // swarm: how often a batch deviates from the well-behaved answer to our locator
    const uint64_t dev_den = rng.pick({3, 3, 2}) == 0 ? 0 : (rng.coin() ? 24 : 8);
    const int nsyncs = (int)rng.range(1, tier == Tier::THOROUGH ? 6 : 4);
    const int64_t ops_cap = tier == Tier::THOROUGH ? 260 : 110;
    for (int s = 0; s < nsyncs; ++s) {
        if (s > 0 || rng.chance(1, 4)) p.ops.push_back(Op{NEW_SYNC, {draw_offset(), draw_slack(), (int64_t)(rng.next() >> 8)}});
        const int scenario = (int)rng.pick({3, 5, 1, 3}); // honest, switch, random other chain, noisy
        const int a = rng.chance(2, 3) ? 0 : (int)rng.below(nchains);
        int b = (int)rng.below(nchains);
        if (scenario == 2) b = a;
        const int64_t nops = std::min<int64_t>(ops_cap, 2 * ((std::max(len[a], len[b]) + M - 1) / M) + 3 + rng.below(4));
        // a switch happens either at a random message or exactly between the two passes
        const bool by_pass = scenario == 1 && rng.coin();
        int64_t sw = rng.below(nops + 1), sw_back = rng.chance(1, 5) ? rng.range(sw, nops) : nops + 1;
        for (int64_t i = 0; i < nops; ++i) {
            int c = a, c2 = -1;
            if (by_pass) c2 = b;
            if (scenario == 1 && !by_pass && i >= sw && i < sw_back) c = b;
            if (scenario == 3 && rng.chance(1, 3)) c = (int)rng.below(nchains);
            if (scenario == 3 && rng.chance(1, 6)) c2 = (int)rng.below(nchains);
            Op op{SERVE, {c, BY_LOCATOR, 0, 0, FULL_NATURAL, C_NONE, 0, 0, c2}};
            if (dev_den && rng.below(dev_den) == 0) {
                switch (rng.below(8)) {
                case 0: op.a[1] = RELATIVE; op.a[2] = rng.coin() ? rng.range(-4, -1) : rng.range(1, 4); break;
                case 1: op.a[1] = RESTART; break;
                case 2: op.a[3] = rng.range(1, M + 8); break;                         // explicit count: partial or over-long
                case 3: op.a[3] = rng.range(1, M + 8); op.a[4] = FULL_TRUE; break;   // ... claimed to be full
                case 4: op.a[4] = rng.coin() ? FULL_TRUE : FULL_FALSE; break;
                case 5: op.a[5] = rng.coin() ? C_BADPOW : C_GAP; op.a[6] = rng.below(M); break;
                case 6: op.a[7] = 1; break;                                           // also deliver to a finished sync
                case 7: op = Op{EMPTY, {}}; break;
                }
            }
            p.ops.push_back(op);
        }
    }
    return p;
}

std::string Describe(const Op& op)
{
    static const char* start[] = {"after our locator", "at expected position", "from the sync start"};
    static const char* full[] = {"size==max", "true", "false"};
    static const char* corrupt[] = {"", " FAULT one header without valid PoW", " FAULT one header removed inside the message"};
    char b[256];
    switch (op.kind) {
    case NEW_SYNC: snprintf(b, sizeof b, "new HeadersSyncState(commit_offset=%ld, node clock = MTP(start)-2h+%lds, salt=%ld)", (long)op.arg(0), (long)op.arg(1), (long)op.arg(2)); break;
    case SERVE:
        snprintf(b, sizeof b, "peer serves chain %ld (chain %ld in the second pass) %s%+ld, count=%ld (0=up to max), full=%s%s%s", (long)op.arg(0), (long)(op.arg(8, -1) < 0 ? op.arg(0) : op.arg(8)),
                 start[op.mod(1, N_START)], (long)(op.mod(1, N_START) == RELATIVE ? op.arg(2) : 0), (long)op.arg(3), full[op.mod(4, N_FULL)], corrupt[op.mod(5, N_CORRUPT)],
                 op.arg(7) ? " (also if the sync is FINAL)" : "");
        break;
    case EMPTY: snprintf(b, sizeof b, "peer sends an empty headers message"); break;
    default: snprintf(b, sizeof b, "?");
    }
    return b;
}

// ------------------------------------------------------------------------------------------------ simulation

struct ChainSpec {
    int parent{-1};
    size_t fork{0};
    size_t len{1};
    int kind{K_FORK};
    size_t bad{0};
    uint64_t seed{0};
};

struct SynthChain {
    ChainSpec spec;
    std::vector<CBlockHeader> h; //!< path from the sync start (index i = height start+1+i), grown on demand
    std::vector<uint256> hash;
    Rng r{1};
};

struct RedEntry {
    uint256 hash;
    bool connects, permitted, matched;
};

/** What the statement talks about, for one sync with one peer. */
struct SyncModel {
    bool final{false};
    bool in_red{false};
    size_t offset{0};
    uint64_t commit_bound{0};       //!< 6 headers/s * (node clock - MTP(start) + 2h) / period
    std::vector<uint256> pre_hash;  //!< the continuous chain served in the first pass
    arith_uint256 pre_work;         //!< work(start) + work of pre_hash
    std::vector<RedEntry> red;      //!< headers accepted in the second pass
    arith_uint256 red_work;
    size_t mismatches{0};
    size_t released{0};
    uint256 last_rel_hash;
    uint32_t last_rel_bits{0};
    uint32_t last_pre_bits{0}, last_red_bits{0};
    size_t max_batch{0};
    int presync_chain{-1};
    bool released_before_completion{false};
};

enum class Verdict { OK, NONCONNECT, ILLEGAL, MISMATCH, OVERRUN, MAXCOMMITS };

struct Sim {
    Ctx& ctx;
    // knobs
    int64_t P, B, M, I, S;
    int nchains;
    // world
    Consensus::Params cp{};
    arith_uint256 limit;
    std::vector<CBlockHeader> base_hdr;
    std::vector<uint256> base_hash;
    std::deque<CBlockIndex> base_idx;
    arith_uint256 base_work;
    int64_t start_mtp{0};
    uint256 start_hash;
    uint32_t start_bits{0};
    std::vector<SynthChain> chains;
    arith_uint256 min_work;
    // current sync
    std::unique_ptr<SimHeadersSync> sync;
    SyncModel m;
    std::vector<uint256> locator;
    int64_t slack;
    int64_t cur_offset;
    uint64_t salt;
    uint64_t nsync{0};
    int64_t clock_now{0};

    explicit Sim(Ctx& c) : ctx(c)
    {
        P = std::clamp<int64_t>(c.knob("period", 5), 1, 64);
        B = std::clamp<int64_t>(c.knob("buffer", 5), 0, 128);
        M = std::clamp<int64_t>(c.knob("max_batch", 8), 1, 128);
        I = std::clamp<int64_t>(c.knob("interval", 4), 4, 16);
        S = std::clamp<int64_t>(c.knob("start_height", 0), 0, 64);
        nchains = (int)std::clamp<int64_t>(c.knob("chains", 1), 1, MAX_CHAINS);
        slack = std::clamp<int64_t>(c.knob("slack0", FAR_SLACK), 0, 100'000'000);
        cur_offset = c.knob("offset0", -1);
        salt = (uint64_t)c.knob("salt0", 1);
        BuildWorld();
    }

    // -------------------------------------------------------------------------- model arithmetic (own code)
    static arith_uint256 Target(uint32_t bits)
    {
        arith_uint256 t;
        bool neg = false, ovf = false;
        t.SetCompact(bits, &neg, &ovf);
        if (neg || ovf) return arith_uint256{};
        return t;
    }
    bool ValidBits(uint32_t bits) const
    {
        arith_uint256 t = Target(bits);
        return t != arith_uint256{} && t <= limit;
    }
    /** expected number of hashes to meet the target: floor(2^256 / (target+1)) */
    static arith_uint256 Proof(uint32_t bits)
    {
        arith_uint256 t = Target(bits);
        if (t == arith_uint256{}) return t;
        return (~t / (t + 1)) + 1;
    }
    static arith_uint256 RoundCompact(const arith_uint256& v)
    {
        arith_uint256 r;
        r.SetCompact(v.GetCompact());
        return r;
    }
    /** The retarget rule: only at heights that are multiples of the interval, and then the new target is the old
     *  one times a timespan clamped to [T/4, 4T] over T, capped at the limit, in compact precision. */
    bool ModelPermitted(int64_t height, uint32_t old_bits, uint32_t new_bits) const
    {
        if (height % I != 0) return old_bits == new_bits;
        const int64_t T = cp.nPowTargetTimespan;
        const arith_uint256 old_t = Target(old_bits), new_t = Target(new_bits);
        arith_uint256 easiest = old_t * arith_uint256((uint64_t)(4 * T)) / arith_uint256((uint64_t)T);
        arith_uint256 hardest = old_t * arith_uint256((uint64_t)(T / 4)) / arith_uint256((uint64_t)T);
        if (easiest > limit) easiest = limit;
        if (hardest > limit) hardest = limit;
        return RoundCompact(hardest) <= new_t && new_t <= RoundCompact(easiest);
    }
    bool PowOk(const CBlockHeader& h, const uint256& hash) const
    {
        if (!ValidBits(h.nBits)) return false;
        return UintToArith256(hash) <= Target(h.nBits);
    }
    void Mine(CBlockHeader& h) const
    {
        const arith_uint256 t = Target(h.nBits);
        while (UintToArith256(h.GetHash()) > t) ++h.nNonce;
    }

    // -------------------------------------------------------------------------- world
    void BuildWorld()
    {
        // smallest shift such that target * 4T cannot overflow 256 bits (the domain the retarget arithmetic is defined on)
        cp.nPowTargetSpacing = 1;
        cp.nPowTargetTimespan = I;
        int shift = 0;
        while ((int64_t(1) << shift) < 4 * I) ++shift;
        limit = ~arith_uint256{} >> shift;
        cp.powLimit = ArithToUint256(limit);
        cp.fPowAllowMinDifficultyBlocks = false;
        cp.fPowNoRetargeting = false;
        cp.enforce_BIP94 = false;

        // the part of the chain we already have: heights 0..S, constant difficulty
        const int level = (int)std::clamp<int64_t>(ctx.knob("base_level", 0), 0, 3);
        start_bits = arith_uint256(limit >> level).GetCompact();
        base_hdr.resize(S + 1);
        base_hash.resize(S + 1);
        Rng br(mix64(0xba5e, (uint64_t)ctx.knob(KnobName(0, "seed"), 1)));
        std::vector<int64_t> times;
        for (int64_t i = 0; i <= S; ++i) {
            CBlockHeader& h = base_hdr[i];
            h.nVersion = 0x20000000;
            if (i) h.hashPrevBlock = base_hash[i - 1];
            br.fill(h.hashMerkleRoot.begin(), 32);
            h.nTime = (uint32_t)(BASE_TIME + i);
            h.nBits = start_bits;
            Mine(h);
            base_hash[i] = h.GetHash();
            base_work += Proof(h.nBits);
            base_idx.emplace_back(h);
            CBlockIndex& bi = base_idx.back();
            bi.phashBlock = &base_hash[i];
            bi.pprev = i ? &base_idx[i - 1] : nullptr;
            bi.nHeight = (int)i;
            bi.BuildSkip();
            bi.nChainWork = base_work;
            times.push_back(h.nTime);
        }
        start_hash = base_hash[S];
        // median time past of the sync start: median of the last (up to) 11 timestamps
        std::vector<int64_t> last(times.end() - std::min<size_t>(11, times.size()), times.end());
        std::sort(last.begin(), last.end());
        start_mtp = last[last.size() / 2];

        chains.resize(nchains);
        for (int k = 0; k < nchains; ++k) {
            ChainSpec& sp = chains[k].spec;
            sp.len = (size_t)std::clamp<int64_t>(ctx.knob(KnobName(k, "len"), 20), 1, 600);
            sp.seed = (uint64_t)ctx.knob(KnobName(k, "seed"), k + 1);
            chains[k].r.reseed(mix64(sp.seed, k));
            if (k == 0) continue;
            sp.parent = (int)std::clamp<int64_t>(ctx.knob(KnobName(k, "parent"), 0), 0, k - 1);
            sp.fork = (size_t)std::clamp<int64_t>(ctx.knob(KnobName(k, "fork"), 0), 0, (int64_t)chains[sp.parent].spec.len);
            sp.kind = (int)std::clamp<int64_t>(ctx.knob(KnobName(k, "kind"), 0), 0, N_KIND - 1);
            sp.bad = (size_t)std::clamp<int64_t>(ctx.knob(KnobName(k, "bad"), 0), 0, 600);
            // the part shared with the parent exists from the beginning (a locator may point into it)
            size_t shared = std::min(sp.fork, sp.len);
            Ensure(sp.parent, shared);
            chains[k].h.assign(chains[sp.parent].h.begin(), chains[sp.parent].h.begin() + shared);
            chains[k].hash.assign(chains[sp.parent].hash.begin(), chains[sp.parent].hash.begin() + shared);
        }

        // minimum work: what chain 0 has after `minwork_pos` headers (exactly / one unit more / one unit less), or out of reach
        size_t t = (size_t)std::clamp<int64_t>(ctx.knob("minwork_pos", 10), 1, (int64_t)chains[0].spec.len);
        Ensure(0, t);
        min_work = base_work;
        for (size_t i = 0; i < t; ++i) min_work += Proof(chains[0].h[i].nBits);
        switch (std::clamp<int64_t>(ctx.knob("minwork_mode", 0), 0, N_MW - 1)) {
        case MW_PLUS1: min_work += 1; break;
        case MW_MINUS1: min_work -= 1; break;
        case MW_UNREACHABLE: min_work = min_work * 64 + 1'000'000; break;
        default: break;
        }
    }

    uint32_t LegalRetarget(int64_t height, uint32_t prev_bits, Rng& r) const
    {
        const arith_uint256 old_t = Target(prev_bits);
        arith_uint256 nw = old_t;
        switch (r.below(9)) {
        case 0: case 1: case 2: break;
        case 3: nw = old_t * 4; break;
        case 4: nw = old_t / 4; break;
        case 5: nw = old_t * 2; break;
        case 6: nw = old_t / 2; break;
        default: nw = old_t / 16 * arith_uint256(r.range(4, 64)); break;
        }
        if (nw > limit) nw = limit;
        if (nw < (limit >> 4)) return prev_bits; // keep mining cheap
        uint32_t bits = nw.GetCompact();
        if (!ValidBits(bits) || !ModelPermitted(height, prev_bits, bits)) return prev_bits;
        return bits;
    }

    /** nBits that the retarget rule does not permit after prev_bits at this height (but a valid, minable target) */
    uint32_t IllegalBits(int64_t height, uint32_t prev_bits, Rng& r) const
    {
        const arith_uint256 old_t = Target(prev_bits);
        std::vector<uint32_t> cand;
        auto add_bits = [&](uint32_t b) {
            if (!ValidBits(b) || Target(b) < (limit >> 6)) return;
            if (!ModelPermitted(height, prev_bits, b)) cand.push_back(b);
        };
        auto add = [&](const arith_uint256& t) {
            if (t == arith_uint256{} || t > limit) return;
            add_bits(t.GetCompact());
        };
        add(old_t / 2); add(old_t * 2); add(old_t / 5); add(old_t / 8); add(old_t * 5); add(old_t * 8);
        if (height % I == 0) {
            // one unit of compact precision beyond either bound
            uint32_t lo = arith_uint256(old_t / 4).GetCompact(), hi = std::min(arith_uint256(old_t * 4), limit).GetCompact();
            if ((lo & 0x7fffff) > 1) add_bits(lo - 1);
            if ((hi & 0x7fffff) < 0x7fffff) add_bits(hi + 1);
            // (listed twice: boundary cases are the interesting ones)
            if ((lo & 0x7fffff) > 1) add_bits(lo - 1);
            if ((hi & 0x7fffff) < 0x7fffff) add_bits(hi + 1);
        }
        if (cand.empty()) return prev_bits;
        return cand[r.below(cand.size())];
    }

    /** grow chain c to at least n headers (capped by its length) */
    void Ensure(int c, size_t n)
    {
        SynthChain& ch = chains[c];
        n = std::min(n, ch.spec.len);
        while (ch.h.size() < n) {
            const size_t i = ch.h.size();
            const int64_t height = S + 1 + (int64_t)i;
            const uint32_t prev_bits = i ? ch.h[i - 1].nBits : start_bits;
            CBlockHeader h;
            h.nVersion = 0x20000000;
            h.hashPrevBlock = i ? ch.hash[i - 1] : start_hash;
            ch.r.fill(h.hashMerkleRoot.begin(), 32);
            h.nTime = (uint32_t)(BASE_TIME + height);
            h.nBits = prev_bits;
            const size_t own = i - std::min(ch.spec.fork, i);
            if (ch.spec.kind == K_ILLEGAL && own == ch.spec.bad) {
                h.nBits = IllegalBits(height, prev_bits, ch.r);
            } else if (height % I == 0) {
                h.nBits = LegalRetarget(height, prev_bits, ch.r);
            }
            Mine(h);
            ch.h.push_back(h);
            ch.hash.push_back(h.GetHash());
        }
    }

    // -------------------------------------------------------------------------- sync lifecycle
    void StartSync(int64_t offset, int64_t new_slack, uint64_t new_salt)
    {
        sync.reset();
        new_slack = std::clamp<int64_t>(new_slack, 0, 100'000'000);
        // salt of the commitment hasher (and the implementation's own offset draw) from the plan
        ResetDeterminism(mix64(new_salt, 0xc33));
        const int64_t now = start_mtp - 7200 + new_slack;
        if (clock_now) ctx.sim_ms += (uint64_t)std::llabs(now - clock_now) * 1000;
        clock_now = now;
        SetMockTime(std::chrono::seconds{now});
        slack = new_slack;
        cur_offset = offset;
        salt = new_salt;
        ++nsync;
        HeadersSyncParams hp{.commitment_period = (size_t)P, .redownload_buffer_size = (size_t)B};
        sync = std::make_unique<SimHeadersSync>(cp, hp, offset, base_idx.back(), min_work);
        m = SyncModel{};
        m.offset = sync->Offset();
        m.commit_bound = (uint64_t)(6 * slack / P);
        m.pre_work = base_work;
        m.red_work = base_work;
        m.last_rel_hash = start_hash;
        m.last_rel_bits = start_bits;
        locator.assign(1, start_hash);
        if (m.commit_bound < (uint64_t)(chains[0].spec.len / P + 2)) ctx.probe("clock_behind_sync_start_tight_bound");
        ctx.evf("new-sync #%lu offset=%zu bound=%lu", (unsigned long)nsync, m.offset, (unsigned long)m.commit_bound);
    }

    bool Bit(const uint256& hash) const { return ((*sync).*Peek(HasherTag{}))(hash) & 1; }
    size_t CommitsInMemory() const { return ((*sync).*Peek(CommitsTag{})).size(); }
    size_t BufferInMemory() const { return ((*sync).*Peek(BufferTag{})).size(); }
    bool Committed(size_t idx) const { return (uint64_t)(S + 1 + (int64_t)idx) % (uint64_t)P == m.offset; }

    /** position in chain c a peer would continue from, given our last locator */
    size_t LocatePos(int c) const
    {
        const SynthChain& ch = chains[c];
        for (const uint256& want : locator) {
            for (size_t i = ch.hash.size(); i-- > 0;)
                if (ch.hash[i] == want) return i + 1;
            for (const uint256& bh : base_hash)
                if (bh == want) return 0; // all chains contain the whole base: continue right after the sync start
        }
        return 0;
    }

    void MemoryCheck(const char* where)
    {
        const size_t commits = CommitsInMemory(), buf = BufferInMemory();
        if (commits > m.commit_bound)
            ctx.failf("commitment-memory-exceeds-bound", "%s: %zu commitments held, bound is 6*(clock-MTP(start)+2h)/period = %lu", where, commits, (unsigned long)m.commit_bound);
        if (buf > (size_t)B + m.max_batch)
            ctx.failf("redownload-buffer-exceeds-bound", "%s: %zu headers buffered, redownload_buffer_size=%ld largest message=%zu", where, buf, (long)B, m.max_batch);
        if (commits == m.commit_bound && commits > 0) ctx.probe("commitments_at_bound");
        if (buf == (size_t)B && B > 0) ctx.probe("buffer_exactly_full_nothing_released");
    }

    uint64_t Fingerprint() const
    {
        uint64_t h = mix64(m.final * 2 + m.in_red, m.offset);
        h = mix64(h, m.pre_hash.size());
        h = mix64(h, m.red.size());
        h = mix64(h, m.released);
        h = mix64(h, (m.red_work >= min_work) * 4 + (m.pre_work >= min_work) * 2 + (m.mismatches > 0));
        h = mix64(h, std::min<uint64_t>(m.commit_bound, 1000));
        return h;
    }

    /** every clause about headers handed over for storage */
    void CheckReleased(const std::vector<CBlockHeader>& out)
    {
        const size_t n = m.red.size();
        const bool red_has_min_work = m.red_work >= min_work;
        for (size_t j = 0; j < out.size(); ++j) {
            const CBlockHeader& h = out[j];
            const size_t idx = m.released;
            const long height = (long)(S + 1 + (int64_t)idx);
            const uint256 hash = h.GetHash();
            if (m.pre_work < min_work)
                ctx.failf("released-before-work-proven", "header at height %ld released although the first pass served work %s < minimum %s", height, m.pre_work.GetHex().c_str(), min_work.GetHex().c_str());
            if (h.hashPrevBlock != m.last_rel_hash)
                ctx.failf("released-chain-not-continuous", "released header #%zu (height %ld) does not build on %s", idx, height, idx ? "the previously released header" : "the sync start");
            if (idx >= n || m.red[idx].hash != hash)
                ctx.failf("released-header-not-redownloaded", "released header #%zu (height %ld) is not the header redownloaded at that height (%zu redownloaded)", idx, height, n);
            if (!red_has_min_work) {
                if (n - idx <= (size_t)B)
                    ctx.failf("released-without-full-buffer", "header #%zu released with only %zu redownloaded headers from it on (redownload_buffer_size=%ld) and redownloaded work below the minimum", idx, n - idx, (long)B);
                for (size_t q = idx; q <= idx + (size_t)B; ++q) {
                    if (!m.red[q].connects)
                        ctx.failf("released-with-unconnected-buffer", "header #%zu released, but redownloaded header #%zu in the buffer after it does not connect to its predecessor", idx, q);
                    if (!m.red[q].matched)
                        ctx.failf("released-without-matching-commitments", "header #%zu released, but redownloaded header #%zu in the buffer after it did not match the commitment of the first pass", idx, q);
                }
                m.released_before_completion = true;
            }
            if (!ModelPermitted(height, m.last_rel_bits, h.nBits))
                ctx.failf("released-illegal-difficulty-transition", "released header #%zu (height %ld): nBits %08x after %08x is not a permitted transition (interval %ld)", idx, height, h.nBits, m.last_rel_bits, (long)I);
            if (!PowOk(h, hash))
                ctx.failf("released-header-fails-pow", "released header #%zu (height %ld) does not satisfy its own target %08x", idx, height, h.nBits);
            m.last_rel_hash = hash;
            m.last_rel_bits = h.nBits;
            ++m.released;
        }
    }

    void Deliver(const std::vector<CBlockHeader>& batch, const std::vector<uint256>& hashes, bool full, int chain, size_t pos)
    {
        using State = HeadersSyncState::State;
        const State before = sync->GetState();
        m.max_batch = std::max(m.max_batch, batch.size());
        auto res = sync->ProcessNextHeaders(batch, full);
        const State after = sync->GetState();
        const std::vector<CBlockHeader>& out = res.pow_validated_headers;
        Verdict verdict = Verdict::OK;

        if (before == State::PRESYNC) {
            const bool connects = batch[0].hashPrevBlock == (m.pre_hash.empty() ? start_hash : m.pre_hash.back());
            // the model's own reading of this message (for coverage only)
            if (!connects) verdict = Verdict::NONCONNECT;
            if (verdict == Verdict::OK) {
                uint32_t prev_bits = m.pre_hash.empty() ? start_bits : m.last_pre_bits;
                size_t commits = 0;
                for (size_t i = 0; i < m.pre_hash.size(); ++i) commits += Committed(i);
                for (size_t j = 0; j < batch.size() && verdict == Verdict::OK; ++j) {
                    const size_t idx = m.pre_hash.size() + j;
                    if (!ModelPermitted(S + 1 + (int64_t)idx, prev_bits, batch[j].nBits)) verdict = Verdict::ILLEGAL;
                    if (verdict == Verdict::OK && Committed(idx) && ++commits > m.commit_bound) verdict = Verdict::MAXCOMMITS;
                    prev_bits = batch[j].nBits;
                }
            }
            if (res.success) {
                if (connects) {
                    for (size_t j = 0; j < batch.size(); ++j) {
                        m.pre_hash.push_back(hashes[j]);
                        m.pre_work += Proof(batch[j].nBits);
                    }
                    m.last_pre_bits = batch.back().nBits;
                    m.presync_chain = chain;
                } else {
                    ctx.probe("presync_accepted_unconnected_message"); // its work does not count as served chain work
                }
            } else {
                switch (verdict) {
                case Verdict::NONCONNECT: ctx.probe("presync_nonconnecting_rejected"); break;
                case Verdict::ILLEGAL: ctx.probe("presync_illegal_difficulty_rejected"); break;
                case Verdict::MAXCOMMITS: ctx.probe("presync_max_commitments_abort"); break;
                default: break;
                }
            }
            if (after == State::REDOWNLOAD) {
                if (m.pre_work < min_work)
                    ctx.failf("redownload-before-work-proven", "second pass started after %zu headers with served work %s < minimum %s", m.pre_hash.size(), m.pre_work.GetHex().c_str(), min_work.GetHex().c_str());
                m.in_red = true;
                ctx.probe("reached_redownload");
                if (m.pre_work == min_work) ctx.probe("min_work_reached_exactly");
                if (!full) ctx.probe("redownload_after_nonfull_message");
            } else if (res.success && after == State::FINAL) {
                ctx.probe("presync_low_work_chain_ended");
            }
            if (res.success && m.pre_work >= min_work && after == State::PRESYNC) ctx.probe("presync_continues_despite_enough_work");
        } else if (before == State::REDOWNLOAD) {
            ctx.nontrivial = true;
            if (m.pre_work < min_work)
                ctx.failf("redownload-before-work-proven", "object is in its second pass with served work %s < minimum %s", m.pre_work.GetHex().c_str(), min_work.GetHex().c_str());
            // flags of every header of this message, as the statement needs them
            std::vector<RedEntry> add;
            arith_uint256 work = m.red_work;
            uint256 prev_hash = m.red.empty() ? start_hash : m.red.back().hash;
            uint32_t prev_bits = m.red.empty() ? start_bits : m.last_red_bits;
            bool collision = false, exempt_hdr = false, differs = false;
            for (size_t j = 0; j < batch.size(); ++j) {
                const size_t idx = m.red.size() + j;
                RedEntry e{hashes[j], batch[j].hashPrevBlock == prev_hash, ModelPermitted(S + 1 + (int64_t)idx, prev_bits, batch[j].nBits), true};
                work += Proof(batch[j].nBits);
                const bool exempt = work >= min_work;
                if (idx >= m.pre_hash.size() || hashes[j] != m.pre_hash[idx]) differs = true;
                if (Committed(idx)) {
                    if (exempt) {
                        exempt_hdr = true;
                    } else if (idx >= m.pre_hash.size()) {
                        e.matched = false;
                        if (verdict == Verdict::OK) verdict = Verdict::OVERRUN;
                    } else {
                        e.matched = Bit(hashes[j]) == Bit(m.pre_hash[idx]);
                        if (!e.matched && verdict == Verdict::OK) verdict = Verdict::MISMATCH;
                        if (e.matched && hashes[j] != m.pre_hash[idx]) collision = true;
                    }
                }
                if (!e.connects && verdict == Verdict::OK) verdict = Verdict::NONCONNECT;
                if (!e.permitted && verdict == Verdict::OK) verdict = Verdict::ILLEGAL;
                add.push_back(e);
                prev_hash = hashes[j];
                prev_bits = batch[j].nBits;
            }
            if (differs) ctx.fault("peer_serves_other_headers_in_second_pass");
            if (res.success) {
                for (auto& e : add) {
                    if (!e.matched) ++m.mismatches;
                    m.red.push_back(e);
                }
                m.red_work = work;
                m.last_red_bits = batch.back().nBits;
                if (collision) ctx.probe("different_header_same_commitment_bit");
                if (exempt_hdr) ctx.probe("commitment_not_checked_after_min_work");
                if (m.red.size() > m.pre_hash.size()) ctx.probe("redownload_longer_than_presync");
            } else {
                switch (verdict) {
                case Verdict::NONCONNECT: ctx.probe("redownload_nonconnecting_rejected"); break;
                case Verdict::ILLEGAL: ctx.probe("redownload_illegal_difficulty_rejected"); break;
                case Verdict::MISMATCH: ctx.probe("commitment_mismatch_rejected"); break;
                case Verdict::OVERRUN: ctx.probe("commitment_overrun_rejected"); break;
                default: break;
                }
            }
        }

        // only what a successful call returns is stored by the caller
        if (res.success) {
            const size_t before_rel = m.released;
            CheckReleased(out);
            if (m.released > before_rel) {
                ctx.probe("headers_released");
                if (m.red_work < min_work) ctx.probe("buffer_release_before_min_work");
            }
            if (after == State::FINAL && before == State::REDOWNLOAD) {
                if (m.red_work >= min_work && m.released == m.red.size()) {
                    ctx.probe("sync_completed_all_released");
                    if (m.released_before_completion) ctx.probe("sync_completed_after_buffer_releases");
                } else {
                    ctx.probe("redownload_nonfull_message_ended_sync");
                }
            }
        } else if (!out.empty()) {
            ctx.probe("headers_returned_by_failed_call_ignored");
        }
        if (after == State::FINAL) m.final = true;
        MemoryCheck("after ProcessNextHeaders");
        if (res.request_more && after != State::FINAL) locator = sync->NextHeadersRequestLocator().vHave;
        ctx.evf("serve c%d pos=%zu n=%zu full=%d st%d -> ok=%d more=%d released=%zu st%d presync_h=%ld buf=%zu commits=%zu", chain, pos, batch.size(), full, (int)before, res.success,
                res.request_more, out.size(), (int)after, (long)sync->GetPresyncHeight(), BufferInMemory(), CommitsInMemory());
    }

    void DoServe(const Op& op)
    {
        using State = HeadersSyncState::State;
        const bool poke = op.arg(7) != 0;
        if (sync && sync->GetState() == State::FINAL && !(poke && !G_ABORT_ON_FAILED_ASSUME)) sync.reset();
        if (!sync) StartSync(cur_offset < 0 ? -1 : (cur_offset + (int64_t)nsync) % P, slack, salt + nsync); // the next message starts over, as net_processing would
        const bool is_final = sync->GetState() == State::FINAL;
        const State st = sync->GetState();
        const int c = (int)(st == State::REDOWNLOAD && op.arg(8, -1) >= 0 ? op.mod(8, nchains) : op.mod(0, nchains));
        const size_t expected = st == State::PRESYNC ? m.pre_hash.size() : m.red.size();
        size_t pos;
        switch (op.mod(1, N_START)) {
        case RELATIVE: pos = (size_t)std::max<int64_t>(0, (int64_t)expected + std::clamp<int64_t>(op.arg(2), -8, 8)); break;
        case RESTART: pos = 0; break;
        default: pos = LocatePos(c); break;
        }
        const SynthChain& ch = chains[c];
        pos = std::min(pos, ch.spec.len);
        const size_t avail = ch.spec.len - pos;
        size_t count = op.arg(3) > 0 ? (size_t)std::min<int64_t>(op.arg(3), 200) : (size_t)M;
        count = std::min(count, avail);
        if (count == 0) {
            DoEmpty("peer has nothing after that point");
            return;
        }
        bool full = count == (size_t)M;
        if (op.mod(4, N_FULL) == FULL_TRUE) full = true;
        if (op.mod(4, N_FULL) == FULL_FALSE) full = false;
        Ensure(c, pos + count);
        std::vector<CBlockHeader> batch(ch.h.begin() + pos, ch.h.begin() + pos + count);
        std::vector<uint256> hashes(ch.hash.begin() + pos, ch.hash.begin() + pos + count);

        // peer misbehaviour that the caller (net_processing: CheckHeadersPoW) filters before the sync sees it
        const int corrupt = (int)op.mod(5, N_CORRUPT);
        if (corrupt == C_BADPOW) {
            size_t j = op.mod(6, batch.size());
            for (int tries = 0; tries < 64 && PowOk(batch[j], batch[j].GetHash()); ++tries) ++batch[j].nNonce;
            hashes[j] = batch[j].GetHash();
        } else if (corrupt == C_GAP && batch.size() >= 3) {
            size_t j = 1 + op.mod(6, batch.size() - 2);
            batch.erase(batch.begin() + j);
            hashes.erase(hashes.begin() + j);
        }
        bool caller_ok = true;
        for (size_t j = 0; j < batch.size(); ++j) {
            if (!PowOk(batch[j], hashes[j])) caller_ok = false;
            if (j && batch[j].hashPrevBlock != hashes[j - 1]) caller_ok = false;
        }
        if (!caller_ok) {
            // Misbehaving(): the peer is dropped together with its sync state
            ctx.fault(corrupt == C_BADPOW ? "caller_rejected_invalid_pow" : "caller_rejected_noncontinuous_message");
            sync.reset();
            ctx.evf("serve c%d pos=%zu n=%zu rejected by caller, peer dropped", c, pos, batch.size());
            return;
        }

        // which kind of peer behaviour actually reaches the component
        if (!is_final) {
            if (pos != expected) ctx.fault(pos < expected ? "peer_repeats_or_restarts" : "peer_skips_headers");
            if (op.arg(3) > 0 && count < (size_t)M && count < avail) ctx.fault("peer_partial_message");
            if (count > (size_t)M) ctx.fault("peer_overlong_message");
            if (full != (count == (size_t)M)) ctx.fault("full_flag_disagrees_with_size");
            if (ch.spec.kind == K_ILLEGAL && ch.spec.fork + ch.spec.bad >= pos && ch.spec.fork + ch.spec.bad < pos + count) {
                size_t i = ch.spec.fork + ch.spec.bad;
                if (!ModelPermitted(S + 1 + (int64_t)i, i ? ch.h[i - 1].nBits : start_bits, ch.h[i].nBits)) ctx.fault("peer_illegal_difficulty_header");
            }
            if (st == State::PRESYNC && m.presync_chain >= 0 && c != m.presync_chain) ctx.fault("peer_answers_from_other_chain_in_first_pass");
        }

        if (is_final) {
            // only reachable when Assume() is not fatal: a finished sync must not hand out anything
            // (whatever it returned would have to satisfy every clause about released headers)
            auto res = sync->ProcessNextHeaders(batch, full);
            if (res.success) CheckReleased(res.pow_validated_headers);
            MemoryCheck("after a message to a FINAL sync");
            ctx.probe("delivered_to_final_sync");
            ctx.evf("serve c%d pos=%zu n=%zu to FINAL sync -> ok=%d more=%d", c, pos, batch.size(), res.success, res.request_more);
            return;
        }
        Deliver(batch, hashes, full, c, pos);
    }

    void DoEmpty(const char* why)
    {
        if (!sync) {
            ctx.evf("empty message, no sync");
            return;
        }
        // net_processing never forwards an empty message; when Assume() is not fatal the component has to ignore it
        if constexpr (!G_ABORT_ON_FAILED_ASSUME) {
            auto res = sync->ProcessNextHeaders(std::span<const CBlockHeader>{}, false);
            if (res.success) CheckReleased(res.pow_validated_headers);
            if (sync->GetState() == HeadersSyncState::State::REDOWNLOAD && m.pre_work < min_work)
                ctx.failf("redownload-before-work-proven", "second pass entered on an empty message with served work %s < minimum %s", m.pre_work.GetHex().c_str(), min_work.GetHex().c_str());
            if (sync->GetState() == HeadersSyncState::State::FINAL) m.final = true;
            MemoryCheck("after an empty message");
        }
        ctx.fault("peer_empty_message");
        ctx.evf("empty message (%s) st%d", why, (int)sync->GetState());
    }

    void Run()
    {
        StartSync(cur_offset, slack, salt);
        for (const Op& op : ctx.plan.ops) {
            switch (op.kind) {
            case NEW_SYNC: StartSync(op.arg(0) < 0 ? -1 : op.arg(0) % P, op.arg(1), (uint64_t)op.arg(2)); break;
            case SERVE: DoServe(op); break;
            case EMPTY: DoEmpty("scripted"); break;
            default: break;
            }
            ctx.fingerprint(Fingerprint());
        }
    }
};

void Run(Ctx& ctx)
{
    Sim s(ctx);
    s.Run();
}

Engine MakeEngine()
{
    Engine e;
    e.prop = "C33";
    e.name = "compsim/headerssync";
    e.level = "exploration";
    e.gen = Gen;
    e.run = Run;
    e.describe = Describe;
    e.chunk = 200;
    e.quick_runs = 50000;
    e.thorough_runs = 650000;
    e.quick_budget_s = 50;
    e.thorough_budget_s = 900;
    e.rule =
        "per run: HeadersSyncParams{commitment_period 2-20, redownload_buffer_size 3-40}, max message size 3-48, retarget interval 4-16 (Consensus::Params with "
        "spacing 1s, pow limit 2^(256-ceil(log2(4*interval)))-1, no min-difficulty rule), sync start at height 0-40, 2-5 really mined header chains "
        "(chain 0 plus forks at any position of an earlier chain, own legal retarget schedule incl. exactly x4 and /4, or one header whose nBits is beyond "
        "the permitted transition incl. one compact unit beyond the bound), minimum work = work of chain 0 after t headers (exactly, +1, -1) or out of reach, "
        "commitment offset and hasher salt from the plan, node clock MTP(start)-2h+slack so that the commitment bound 6*slack/period is either irrelevant or "
        "within 0..t/period+3. History: 1-6 syncs, each 5-260 headers messages answered from our own locator by a scripted peer (honest / switches chain at a random "
        "message / other chain / noisy) with per-run deviation rate (relative position +-1..4, restart from the sync start, explicit count = partial or over-long, "
        "full flag forced, message the caller must reject for PoW or continuity, empty message, message to a FINAL sync). "
        "Oracle after every ProcessNextHeaders: (1) nothing is returned for storage and the state is not REDOWNLOAD unless the continuous chain served in the "
        "first pass has work >= minimum; (2) returned headers, over the whole sync, form one chain from the sync start and the k-th one is the k-th redownloaded "
        "header; (3) unless the redownloaded chain has work >= minimum, a returned header is one of more than redownload_buffer_size redownloaded headers "
        "from it on, and it and the redownload_buffer_size headers after it connect and have, at every height == offset mod period, the same salted-hash bit "
        "as the first-pass header of that height (and that height was served in the first pass); (4) every returned header has a permitted difficulty "
        "transition from its predecessor (own implementation of the retarget bounds) and meets its own target; (5) commitments held <= 6*(clock-MTP(start)+2h)/period "
        "and buffered headers <= redownload_buffer_size + largest message; whatever a FINAL sync or an empty message returns is held to the same clauses. "
        "non-trivial = at least one message was processed in the second pass; distinct = fingerprints of the model state "
        "(final, pass, offset, first-pass length, redownloaded, released, work flags, mismatch seen, bound) after each operation (first 64 per run)";
    e.real_components = {"HeadersSyncState (headerssync.cpp)", "PermittedDifficultyTransition (pow.cpp)", "SaltedUint256Hasher, bitdeque, arith_uint256, CBlockIndex/LocatorEntries (chain.cpp)"};
    e.stub_components = {"net_processing caller (harness: PoW + continuity check of each message, full = size == max or forced, peer dropped on rejection, new sync on the next message after FINAL)",
                         "peer (scripted, answers the locator from pre-planned header chains)", "node clock (mock time set per sync)", "block index (not present: returned headers are only checked)"};
    e.assumptions = {"retarget arithmetic is exercised only where target*4*timespan fits 256 bits (pow limit chosen accordingly), as on mainnet/testnet",
                     "'followed by more than a full buffer' is read as: the released header and its successors in the buffer number more than redownload_buffer_size (what PopHeadersReadyForAcceptance guarantees); "
                     "requiring more than redownload_buffer_size successors would be off by one against the documented behaviour and the unit test",
                     "commitment bits are evaluated with the sync object's own salted hasher (read-only access to m_hasher); per-peer memory is read from m_header_commitments / m_redownloaded_headers",
                     "'checked for proof of work before it is stored' is decided at component level only: a returned header is bit-identical to a redownloaded header that passed the caller's PoW check and meets its target; "
                     "the second check inside ProcessNewBlockHeaders and the block index are outside this engine (peersim part of the design)"};
    e.expected_probes = {"reached_redownload", "headers_released", "buffer_release_before_min_work", "sync_completed_all_released", "sync_completed_after_buffer_releases",
                         "commitment_mismatch_rejected", "commitment_overrun_rejected", "different_header_same_commitment_bit", "commitment_not_checked_after_min_work",
                         "presync_illegal_difficulty_rejected", "redownload_illegal_difficulty_rejected", "presync_nonconnecting_rejected", "redownload_nonconnecting_rejected",
                         "presync_max_commitments_abort", "commitments_at_bound", "presync_low_work_chain_ended", "redownload_nonfull_message_ended_sync", "min_work_reached_exactly",
                         "buffer_exactly_full_nothing_released", "delivered_to_final_sync"};
    return e;
}
Engine g_engine = MakeEngine();
SIM_REGISTER_ENGINE(g_engine);

} // namespace
