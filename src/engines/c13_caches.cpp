// C13 — validation caches never change a verdict.
// nodesim TWIN RUN: node A (signature cache + script-execution cache of 2 KiB..1 MiB) and node B (both caches requested
// with 0 bytes = the minimum 2-entry tables, additionally flooded with junk entries before every call so that B is
// effectively cache-free) receive the same sequence of test-accepts, mempool submissions, TestBlockValidity calls,
// blocks, reorgs, invalidateblock/reconsiderblock; a label-based model (generator knows which scripts it satisfied,
// under which flag set) gives the ground truth.
#include "../core/sim.h"
#include "../nodesim/chaingen.h"
#include "../nodesim/refchain.h"
#include "../nodesim/simnode.h"

#include <chain.h>
#include <consensus/validation.h>
#include <crypto/sha256.h>
#include <hash.h>
#include <script/interpreter.h>
#include <script/script.h>
#include <txmempool.h>
#include <util/time.h>
#include <validation.h>

#include <algorithm>
#include <map>
#include <set>

using namespace sim;
using namespace nodesim;

namespace {

// ------------------------------------------------------------------------------------------------------------------
// coin kinds: five keyring kinds (signed by chaingen::BuildTx) and five hand-made kinds whose spends can be made
// consensus-valid but policy-invalid
enum CK { CK_WPKH = 0, CK_PKH, CK_TR, CK_SH_WPKH, CK_WSH_TRUE, CK_MINIF, CK_NULLFAIL, CK_SHCLEAN, CK_CSVNOP, CK_WITV2, CK_N };
const char* kKindName[CK_N] = {"p2wpkh", "p2pkh", "p2tr", "p2sh-p2wpkh", "p2wsh-true", "p2wsh-minimalif", "p2wsh-nullfail", "p2sh-cleanstack", "p2wsh-csv-as-nop", "witness-v2"};
bool IsKeyring(int k) { return k <= CK_WSH_TRUE; }

enum Mode { MD_VALID = 0, MD_POLICY_BAD, MD_BAD_SIG, MD_STRIP, MD_WRONG_KEY, MD_REPLAY, MD_N };
const char* kModeName[MD_N] = {"valid", "policy-bad", "bad-sig", "strip-witness", "wrong-key", "replayed-sig"};
enum Form { FM_OK, FM_POLICY_BAD, FM_CONS_BAD, FM_STRIP };

std::vector<unsigned char> V(const CScript& s) { return std::vector<unsigned char>(s.begin(), s.end()); }

struct ScriptTable {
    CScript spk[CK_N][N_KEYS];
    CScript inner[CK_N][N_KEYS]; //!< witness script / redeem script of the hand-made kinds
    std::map<CScript, std::pair<int, int>> reg;
    static CScript Wsh(const CScript& ws)
    {
        uint256 h;
        CSHA256().Write(ws.data(), ws.size()).Finalize(h.begin());
        return CScript() << OP_0 << std::vector<unsigned char>(h.begin(), h.end());
    }
    ScriptTable()
    {
        const Keyring& kr = Keys();
        static const SK map[5] = {SK::P2WPKH, SK::P2PKH, SK::P2TR, SK::P2SH_P2WPKH, SK::TRUE_WSH};
        for (int k = 0; k < N_KEYS; ++k) {
            for (int c = 0; c < 5; ++c) spk[c][k] = kr.Spk(map[c], k);
            const std::vector<unsigned char> pub(kr.pubs[k].begin(), kr.pubs[k].end());
            inner[CK_MINIF][k] = CScript() << (int64_t)(k + 2) << OP_DROP << OP_IF << OP_1 << OP_ELSE << OP_1 << OP_ENDIF;
            inner[CK_NULLFAIL][k] = CScript() << pub << OP_CHECKSIG << OP_NOT;
            inner[CK_SHCLEAN][k] = CScript() << (int64_t)(k + 2) << OP_DROP << OP_1;
            inner[CK_CSVNOP][k] = CScript() << (int64_t)(k + 2) << OP_DROP << OP_1 << OP_CHECKSEQUENCEVERIFY;
            spk[CK_MINIF][k] = Wsh(inner[CK_MINIF][k]);
            spk[CK_NULLFAIL][k] = Wsh(inner[CK_NULLFAIL][k]);
            spk[CK_CSVNOP][k] = Wsh(inner[CK_CSVNOP][k]);
            const uint160 h160 = Hash160(inner[CK_SHCLEAN][k]);
            spk[CK_SHCLEAN][k] = CScript() << OP_HASH160 << std::vector<unsigned char>(h160.begin(), h160.end()) << OP_EQUAL;
            spk[CK_WITV2][k] = CScript() << OP_2 << std::vector<unsigned char>(32, (unsigned char)(0x70 + k));
            for (int c = 0; c < CK_N; ++c) reg[spk[c][k]] = {c, k};
        }
    }
    std::pair<int, int> Classify(const CScript& s) const
    {
        auto it = reg.find(s);
        return it == reg.end() ? std::make_pair(-1, 0) : it->second;
    }
};
const ScriptTable& Tab()
{
    static const ScriptTable t; // immutable, no state carried between runs
    return t;
}

struct TxRec {
    CTransactionRef tx;
    std::vector<TxIn> ins; //!< recipe (prevout, coin the generator believes it spends, sequence)
    std::vector<CTxOut> outs;
    uint32_t version{2};
    int mode{MD_VALID};
    size_t target{0};
    bool cons_pre{true};   //!< all input scripts satisfied under consensus flags WITHOUT CHECKSEQUENCEVERIFY
    bool cons_post{true};  //!< ... WITH CHECKSEQUENCEVERIFY (BIP112 active)
    bool policy_ok{true};  //!< ... under the standard (relay) flags
    bool prescript_nonstd{false}; //!< spends an undefined witness version: refused by input standardness before any script runs
    bool accepted_once{false};
    int base{-1};          //!< variant of this rec (same recipe, other mode)
    bool ConsOk(int height, int csv_height) const { return height >= csv_height ? cons_post : cons_pre; }
};

struct StoredSig { std::vector<unsigned char> sig; int rec; };

/** Signature element of a keyring input (with the sighash byte for ECDSA). */
bool GetSig(const CMutableTransaction& m, size_t i, int kind, std::vector<unsigned char>& sig, std::vector<unsigned char>* pub = nullptr)
{
    if (kind == CK_WPKH || kind == CK_SH_WPKH || kind == CK_TR) {
        if (m.vin[i].scriptWitness.stack.empty()) return false;
        sig = m.vin[i].scriptWitness.stack[0];
        return !sig.empty();
    }
    if (kind == CK_PKH) {
        CScript::const_iterator pc = m.vin[i].scriptSig.begin();
        opcodetype op;
        std::vector<unsigned char> p;
        if (!m.vin[i].scriptSig.GetOp(pc, op, sig) || !m.vin[i].scriptSig.GetOp(pc, op, p)) return false;
        if (pub) *pub = p;
        return !sig.empty();
    }
    return false;
}
void PutSig(CMutableTransaction& m, size_t i, int kind, const std::vector<unsigned char>& sig)
{
    if (kind == CK_PKH) {
        std::vector<unsigned char> old, pub;
        GetSig(m, i, kind, old, &pub);
        m.vin[i].scriptSig = CScript() << sig << pub;
    } else {
        m.vin[i].scriptWitness.stack[0] = sig;
    }
}

/** Build rec.tx from the recipe and compute the labels. `sigs` = signatures of earlier transactions, per [schnorr][key]. */
void BuildRec(TxRec& r, const std::vector<StoredSig> (&sigs)[2][N_KEYS], uint64_t replay_sel, bool prefer_accepted, const std::vector<TxRec>& recs, Ctx& ctx)
{
    const ScriptTable& T = Tab();
    const Keyring& kr = Keys();
    const size_t nin = r.ins.size();
    const size_t tgt = r.target % nin;
    std::vector<int> kind(nin), key(nin);
    for (size_t i = 0; i < nin; ++i) std::tie(kind[i], key[i]) = T.Classify(r.ins[i].coin.spk);
    // forms of the hand-made inputs, tx version (a CSV-as-NOP spend is "policy-bad" by using version 1 / a final sequence)
    std::vector<Form> form(nin, FM_OK);
    int mode = r.mode;
    if (IsKeyring(kind[tgt])) {
        if (mode == MD_POLICY_BAD) mode = MD_VALID;
        if (mode == MD_REPLAY && kind[tgt] == CK_WSH_TRUE) mode = MD_BAD_SIG;
    } else {
        form[tgt] = mode == MD_VALID ? FM_OK : mode == MD_POLICY_BAD ? FM_POLICY_BAD : mode == MD_STRIP ? FM_STRIP : FM_CONS_BAD;
    }
    r.version = 2;
    for (size_t i = 0; i < nin; ++i) {
        if (kind[i] != CK_CSVNOP) { r.ins[i].sequence = 0xffffffff; continue; }
        if (form[i] == FM_POLICY_BAD) { r.version = 1; r.ins[i].sequence = 0xffffffff; }
        else r.ins[i].sequence = 1;
    }
    // keyring inputs: signed by chaingen
    SigDefect sd = SigDefect::NONE;
    if (IsKeyring(kind[tgt])) sd = mode == MD_BAD_SIG ? SigDefect::BAD_SIG : mode == MD_STRIP ? SigDefect::STRIP_WITNESS : mode == MD_WRONG_KEY ? SigDefect::WRONG_KEY : SigDefect::NONE;
    bool dummy = true;
    CTransactionRef t0 = BuildTx(r.ins, r.outs, /*locktime=*/0, r.version, sd, tgt, dummy);
    CMutableTransaction m(*t0);
    bool target_bad = false;
    if (IsKeyring(kind[tgt])) {
        target_bad = mode == MD_BAD_SIG || mode == MD_WRONG_KEY || (mode == MD_STRIP && kind[tgt] != CK_PKH);
        if (mode == MD_REPLAY) {
            // a signature that is valid - for another transaction (same key, other sighash)
            std::vector<unsigned char> own;
            const auto& pool = sigs[kind[tgt] == CK_TR][key[tgt]];
            std::vector<const StoredSig*> c1, c2;
            if (GetSig(m, tgt, kind[tgt], own))
                for (auto& s : pool) {
                    if (s.sig == own) continue;
                    if ((kind[tgt] == CK_TR) != (s.sig.size() == 64)) continue;
                    (recs[s.rec].accepted_once ? c1 : c2).push_back(&s);
                }
            const auto& c = (prefer_accepted && !c1.empty()) || c2.empty() ? c1 : c2;
            if (!c.empty()) {
                PutSig(m, tgt, kind[tgt], c[replay_sel % c.size()]->sig);
                ctx.probe("replayed_signature_built");
                target_bad = true;
            } else {
                // nothing to replay: degrade to a corrupted signature (deterministically)
                CTransactionRef t1 = BuildTx(r.ins, r.outs, 0, r.version, SigDefect::BAD_SIG, tgt, dummy);
                m = CMutableTransaction(*t1);
                target_bad = true;
            }
        }
    }
    // hand-made inputs
    r.cons_pre = r.cons_post = r.policy_ok = true;
    r.prescript_nonstd = false;
    if (target_bad) r.cons_pre = r.cons_post = r.policy_ok = false;
    for (size_t i = 0; i < nin; ++i) {
        if (IsKeyring(kind[i])) continue;
        const int k = key[i];
        const Form f = form[i];
        auto& wit = m.vin[i].scriptWitness.stack;
        bool cpre = f == FM_OK || f == FM_POLICY_BAD, cpost = cpre, pol = f == FM_OK;
        switch (kind[i]) {
        case CK_MINIF:
            // OP_IF argument: {01} minimal, {02} true but not minimal (MINIMALIF is relay policy for witness v0), absent = unbalanced
            if (f == FM_OK) wit = {{0x01}, V(T.inner[CK_MINIF][k])};
            else if (f == FM_POLICY_BAD) wit = {{0x02}, V(T.inner[CK_MINIF][k])};
            else if (f == FM_CONS_BAD) wit = {V(T.inner[CK_MINIF][k])};
            break;
        case CK_NULLFAIL: {
            // <pub> CHECKSIG NOT: empty signature = clean failure; well-formed signature by another key = failure that NULLFAIL
            // (relay policy) refuses; a VALID signature makes CHECKSIG true and the script false
            const CScript& ws = T.inner[CK_NULLFAIL][k];
            if (f == FM_OK) wit = {{}, V(ws)};
            else if (f == FM_POLICY_BAD || f == FM_CONS_BAD) {
                uint256 h = SignatureHash(ws, m, i, SIGHASH_ALL, r.ins[i].coin.value, SigVersion::WITNESS_V0);
                std::vector<unsigned char> sig;
                kr.keys[f == FM_CONS_BAD ? k : (k + 1) % N_KEYS].Sign(h, sig);
                sig.push_back(SIGHASH_ALL);
                wit = {sig, V(ws)};
            }
            break;
        }
        case CK_SHCLEAN:
            // P2SH: an extra stack element violates CLEANSTACK (relay policy) only
            if (f == FM_OK) m.vin[i].scriptSig = CScript() << V(T.inner[CK_SHCLEAN][k]);
            else if (f == FM_POLICY_BAD) m.vin[i].scriptSig = CScript() << OP_1 << V(T.inner[CK_SHCLEAN][k]);
            else if (f == FM_CONS_BAD) m.vin[i].scriptSig = CScript() << V(T.inner[CK_SHCLEAN][(k + 1) % N_KEYS]);
            else { m.vin[i].scriptSig = CScript(); r.prescript_nonstd = true; } // no redeem script at all: refused by input standardness
            break;
        case CK_CSVNOP: {
            // BIP112: "1 CHECKSEQUENCEVERIFY" needs tx version >= 2 and a relative-height sequence >= 1; before activation the opcode is a NOP
            if (f == FM_CONS_BAD) wit = {V(T.inner[CK_CSVNOP][(k + 1) % N_KEYS])};
            else if (f != FM_STRIP) wit = {V(T.inner[CK_CSVNOP][k])};
            const bool csv_satisfied = r.version >= 2 && r.ins[i].sequence == 1;
            cpost = cpre && csv_satisfied;
            pol = cpre && csv_satisfied;
            break;
        }
        case CK_WITV2:
            // undefined witness version: anyone-can-spend by consensus, refused by relay policy before scripts run
            if (f != FM_STRIP) wit = {{0x01}};
            cpre = cpost = true;
            pol = false;
            r.prescript_nonstd = true;
            break;
        }
        if (f == FM_STRIP && kind[i] != CK_SHCLEAN) wit.clear();
        r.cons_pre = r.cons_pre && cpre;
        r.cons_post = r.cons_post && cpost;
        r.policy_ok = r.policy_ok && pol;
    }
    r.tx = MakeTransactionRef(std::move(m));
}

// ------------------------------------------------------------------------------------------------------------------
enum OpKind { OP_NEW = 0, OP_VARIANT, OP_SUBMIT, OP_MINE, OP_REORG, OP_INVALIDATE, OP_RECONSIDER, OP_CLOCK, OP_N };

std::string Hx(const uint256& h) { return h.ToString().substr(0, 10); }
std::string Describe(const Op& op);

struct TxVerdict {
    int type, result;
    std::string reason;
    bool operator==(const TxVerdict& o) const { return type == o.type && result == o.result && reason == o.reason; }
    bool Accepted() const { return type == (int)MempoolAcceptResult::ResultType::VALID; }
    std::string Str() const { return Accepted() ? "accepted" : "rejected(" + std::to_string(result) + ":" + reason + ")"; }
};
struct BlockVerdict {
    bool accepted, new_block, has_verdict, valid;
    int result;
    std::string reason;
    bool operator==(const BlockVerdict& o) const { return accepted == o.accepted && new_block == o.new_block && has_verdict == o.has_verdict && valid == o.valid && result == o.result && reason == o.reason; }
    std::string Str() const { return std::string(accepted ? "acc" : "rej") + (new_block ? "+new " : " ") + (!has_verdict ? "-" : valid ? "valid" : "invalid(" + reason + ")"); }
};

struct TwinSim {
    Ctx& ctx;
    std::unique_ptr<SimNode> A, B;
    std::unique_ptr<RefChain> ref;
    std::vector<TxRec> recs;
    std::map<uint256, int> by_wtxid;
    std::vector<StoredSig> sigs[2][N_KEYS];
    std::set<int> M;                   //!< model's copy of the mempool (rec indices), re-synchronised after every operation
    std::set<int> manual_invalid;
    int64_t now{0}, start_time{0};
    uint64_t cb_nonce{0}, scrub_ctr{0};
    int csv_height{1};
    int setup_last{0};                 //!< index of the fan-out block: never disconnected
    bool scrub_b{true};

    explicit TwinSim(Ctx& c) : ctx(c) {}

    // ---- nodes ----------------------------------------------------------------------------------------------------
    std::unique_ptr<SimNode> MakeNode(const char* name, size_t cache_bytes)
    {
        NodeOpts o;
        o.dir = RunDir() + "/" + name;
        o.sigcache_bytes = cache_bytes;
        o.scriptcache_bytes = cache_bytes;
        o.with_mempool = true;
        o.require_standard = true;
        o.mempool_check_ratio = 1;
        o.check_blocks = 0;
        o.check_level = 3;
        if (csv_height > 1) o.regtest.dep_opts.activation_heights[Consensus::DEPLOYMENT_CSV] = csv_height;
        auto n = std::make_unique<SimNode>(o);
        if (!n->Start()) ctx.failf("node-start-failed", "%s: %s", name, n->last_error.c_str());
        return n;
    }
    void CheckFatal()
    {
        for (SimNode* n : {A.get(), B.get()})
            if (n->Fatal()) ctx.failf("node-fatal-error", "%s", n->notifications->fatal_errors.empty() ? n->notifications->flush_errors[0].c_str() : n->notifications->fatal_errors[0].c_str());
    }
    /** Make B cache-free: overwrite its 2-entry tables with junk before B validates anything. */
    void ScrubB()
    {
        if (!scrub_b) return;
        LOCK(cs_main);
        auto& vc = B->cm().m_validation_cache;
        for (int i = 0; i < 16; ++i) {
            uint256 j;
            for (int w = 0; w < 4; ++w) { uint64_t v = mix64(++scrub_ctr, 0x5c12ab + w); memcpy(j.begin() + 8 * w, &v, 8); }
            vc.m_script_execution_cache.insert(j);
            vc.m_signature_cache.Set(j);
        }
    }
    /** Evidence only: does A's script-execution cache hold an entry for (wtxid, consensus flags of the tip)? */
    bool PrimedInA(const CTransaction& tx)
    {
        LOCK(cs_main);
        auto& cm = A->cm();
        const CBlockIndex* tip = cm.ActiveChain().Tip();
        script_verify_flags flags{GetBlockScriptFlags(*tip, cm)};
        uint256 key;
        const uint256 w = tx.GetWitnessHash().ToUint256();
        CSHA256 h = cm.m_validation_cache.ScriptExecutionCacheHasher();
        h.Write(w.begin(), 32).Write((unsigned char*)&flags, sizeof(flags)).Finalize(key.begin());
        return cm.m_validation_cache.m_script_execution_cache.contains(key, false);
    }
    int TipIdx() { return ref->Find(A->TipHash()); }
    bool UnderManualInvalidation(int idx) const
    {
        for (int m : manual_invalid)
            if (ref->IsAncestor(m, idx)) return true;
        return false;
    }

    // ---- model views ----------------------------------------------------------------------------------------------
    struct Cand { COutPoint op; RefCoin coin; bool confirmed; };
    const TxRec* MempoolTxByTxid(const Txid& id) const
    {
        for (int i : M)
            if (recs[i].tx->GetHash() == id) return &recs[i];
        return nullptr;
    }
    bool SpentByMempool(const COutPoint& op, const Txid* except = nullptr) const
    {
        for (int i : M) {
            if (except && recs[i].tx->GetHash() == *except) continue;
            for (auto& in : recs[i].tx->vin)
                if (in.prevout == op) return true;
        }
        return false;
    }
    std::vector<Cand> Candidates(bool allow_conflict)
    {
        std::vector<Cand> out;
        int t = TipIdx();
        if (t < 0 || !ref->blocks[t].utxo) return out;
        const int spend_height = ref->blocks[t].height + 1;
        for (auto& [op, c] : *ref->blocks[t].utxo) {
            if (Tab().Classify(c.spk).first < 0) continue;
            if (c.coinbase && spend_height - c.height < ref->maturity) continue;
            if (!allow_conflict && SpentByMempool(op)) continue;
            out.push_back({op, c, true});
        }
        for (int i : M) {
            const CTransaction& tx = *recs[i].tx;
            for (size_t o = 0; o < tx.vout.size(); ++o) {
                COutPoint op(tx.GetHash(), (uint32_t)o);
                if (Tab().Classify(tx.vout[o].scriptPubKey).first < 0) continue;
                if (!allow_conflict && SpentByMempool(op)) continue;
                out.push_back({op, RefCoin{tx.vout[o].nValue, tx.vout[o].scriptPubKey, spend_height, false}, false});
            }
        }
        return out;
    }

    int AddRec(TxRec r)
    {
        const uint256 w = r.tx->GetWitnessHash().ToUint256();
        auto it = by_wtxid.find(w);
        if (it != by_wtxid.end()) return it->second;
        const int idx = (int)recs.size();
        // remember the valid signatures for later replay defects
        CMutableTransaction m(*r.tx);
        const size_t tgt = r.target % r.ins.size();
        for (size_t i = 0; i < r.ins.size(); ++i) {
            auto [kind, key] = Tab().Classify(r.ins[i].coin.spk);
            if (kind != CK_WPKH && kind != CK_PKH && kind != CK_TR && kind != CK_SH_WPKH) continue;
            if (i == tgt && r.mode != MD_VALID && r.mode != MD_POLICY_BAD) continue;
            std::vector<unsigned char> sig;
            if (GetSig(m, i, kind, sig)) sigs[kind == CK_TR][key].push_back({sig, idx});
        }
        recs.push_back(std::move(r));
        by_wtxid[w] = idx;
        return idx;
    }
    int SelRec(const Op& op, size_t mode_arg, size_t sel_arg)
    {
        const int n = (int)recs.size();
        if (n == 0) return -1;
        if (op.arg(mode_arg)) return (int)op.mod(sel_arg, n);
        return n - 1 - (int)op.mod(sel_arg, std::min(n, 4));
    }

    // ---- transactions ---------------------------------------------------------------------------------------------
    void OpNew(const Op& op)
    {
        // args: nin, coin seed, mode, preferred kind (+1; 0 = none), target, nout, out seed, fee sel, allow conflict
        const bool allow_conflict = op.arg(8) != 0;
        std::vector<Cand> cands = Candidates(allow_conflict);
        if (cands.empty()) { ctx.ev("new: no spendable coin"); return; }
        Rng r(mix64((uint64_t)op.arg(1), 0x6e6577));
        const int nin = (int)std::min<size_t>(cands.size(), (size_t)std::clamp<int64_t>(op.arg(0), 1, 3));
        TxRec rec;
        rec.mode = (int)op.mod(2, MD_N);
        rec.target = (size_t)op.mod(4, nin);
        const int prefer = (int)op.mod(3, CK_N + 1) - 1;
        CAmount total = 0;
        for (int i = 0; i < nin; ++i) {
            size_t pick = r.below(cands.size());
            if ((size_t)i == rec.target) {
                std::vector<size_t> ok;
                for (size_t c = 0; c < cands.size(); ++c) {
                    const int kind = Tab().Classify(cands[c].coin.spk).first;
                    if (prefer >= 0 ? kind == prefer : (rec.mode == MD_POLICY_BAD ? !IsKeyring(kind) : rec.mode == MD_REPLAY ? (kind <= CK_SH_WPKH) : true)) ok.push_back(c);
                }
                if (!ok.empty()) pick = ok[r.below(ok.size())];
            }
            rec.ins.push_back({cands[pick].op, cands[pick].coin, 0xffffffff});
            total += cands[pick].coin.value;
            cands.erase(cands.begin() + pick);
        }
        const CAmount fee = 2000 + 1000 * (CAmount)op.mod(7, 8);
        int nout = (int)std::clamp<int64_t>(op.arg(5), 1, 3);
        while (nout > 1 && total - fee < 20000 * nout) --nout;
        if (total - fee < 20000) { ctx.ev("new: coins too small"); return; }
        Rng ro(mix64((uint64_t)op.arg(6), 0x6f757473));
        CAmount left = total - fee;
        for (int o = 0; o < nout; ++o) {
            CAmount v = o + 1 == nout ? left : left / (nout - o);
            left -= v;
            int kind = (int)ro.pick({6, 3, 4, 3, 3, 4, 4, 3, 4, 1});
            int key = ro.chance(2, 3) ? (int)ro.below(2) : (int)ro.below(N_KEYS);
            rec.outs.emplace_back(v, Tab().spk[kind][key]);
        }
        BuildRec(rec, sigs, (uint64_t)op.arg(1) >> 8, /*prefer_accepted=*/true, recs, ctx);
        const TxRec copy = rec;
        const int idx = AddRec(std::move(rec));
        Note(idx, copy, "new");
    }
    void Note(int idx, const TxRec& r, const char* what)
    {
        if (!r.policy_ok && r.cons_post) ctx.probe("built_consensus_valid_policy_invalid");
        if (!r.cons_pre) ctx.probe("built_consensus_invalid");
        if (r.cons_pre != r.cons_post) ctx.probe("built_flag_dependent_csv_spend");
        std::string k;
        for (auto& in : r.ins) k += std::string(kKindName[Tab().Classify(in.coin.spk).first]) + ",";
        ctx.evf("%s tx#%d %s w=%s mode=%s target=%zu ins=[%s] nout=%zu v=%u labels cons=%d/%d policy=%d", what, idx, Hx(r.tx->GetHash().ToUint256()).c_str(), Hx(r.tx->GetWitnessHash().ToUint256()).c_str(),
                kModeName[r.mode], r.target % r.ins.size(), k.c_str(), r.outs.size(), r.version, r.cons_pre, r.cons_post, r.policy_ok);
    }
    void OpVariant(const Op& op)
    {
        // args: sel mode, sel, mode, target, replay sel
        int b = SelRec(op, 0, 1);
        if (b < 0) return;
        TxRec rec;
        rec.ins = recs[b].ins;
        rec.outs = recs[b].outs;
        rec.mode = (int)op.mod(2, MD_N);
        rec.target = (size_t)op.mod(3, rec.ins.size());
        rec.base = b;
        BuildRec(rec, sigs, (uint64_t)op.arg(4), true, recs, ctx);
        if (rec.tx->GetHash() == recs[b].tx->GetHash() && rec.tx->GetWitnessHash() != recs[b].tx->GetWitnessHash()) ctx.probe("same_txid_different_witness_built");
        const TxRec copy = rec;
        const int idx = AddRec(std::move(rec));
        Note(idx, copy, "variant");
    }

    TxVerdict SubmitTo(SimNode& n, const CTransactionRef& tx, bool test)
    {
        TxVerdict v;
        {
            LOCK(cs_main);
            const MempoolAcceptResult r = n.cm().ProcessTransaction(tx, test);
            v = {(int)r.m_result_type, (int)r.m_state.GetResult(), r.m_state.GetRejectReason()};
        }
        n.DrainSignals();
        return v;
    }

    /** Model's expectation for a submission: +1 accept, 0 unknown, -1 reject (why = reason class). */
    int Predict(const TxRec& r, std::string& why)
    {
        const CTransaction& tx = *r.tx;
        for (int i : M)
            if (recs[i].tx->GetWitnessHash() == tx.GetWitnessHash()) { why = "txn-already-in-mempool"; return -1; }
        if (MempoolTxByTxid(tx.GetHash())) { why = "txn-same-nonwitness-data-in-mempool"; return -1; }
        const int t = TipIdx();
        const RefUtxo& utxo = *ref->blocks[t].utxo;
        const int spend_height = ref->blocks[t].height + 1;
        bool conflict = false, bip68_fail = false, premature = false;
        for (auto& in : tx.vin) {
            auto it = utxo.find(in.prevout);
            bool confirmed = it != utxo.end();
            if (!confirmed) {
                const TxRec* p = MempoolTxByTxid(in.prevout.hash);
                if (!p || in.prevout.n >= p->tx->vout.size() || RefUnspendable(p->tx->vout[in.prevout.n].scriptPubKey)) { why = "missing-or-known"; return -1; }
            } else if (it->second.coinbase && spend_height - it->second.height < ref->maturity) premature = true;
            if (SpentByMempool(in.prevout)) conflict = true;
            if (tx.version >= 2 && !(in.nSequence & (1u << 31)) && !confirmed) bip68_fail = true; // relative lock on an unconfirmed coin
        }
        if (bip68_fail) { why = "non-BIP68-final"; return -1; }
        if (premature) { why = "bad-txns-premature-spend-of-coinbase"; return -1; }
        if (r.prescript_nonstd) { why = "bad-txns-nonstandard-inputs"; return -1; }
        if (conflict) { why = "conflict"; return 0; } // replacement rules decide before scripts run
        if (!r.policy_ok) { why = "mempool-script-verify-flag-failed"; return -1; }
        if (M.size() > 20) { why = "limits"; return 0; }
        why = "";
        return 1;
    }

    void OpSubmit(const Op& op)
    {
        // args: sel mode, sel, test_accept
        int i = SelRec(op, 0, 1);
        if (i < 0) return;
        const bool test = op.arg(2) != 0;
        TxRec& r = recs[i];
        std::string why;
        const int expect = Predict(r, why);
        if (expect == 0) ctx.probe("model_verdict_unknown");
        const bool primed = PrimedInA(*r.tx);
        if (primed) { ctx.probe("script_cache_primed_at_submit"); ctx.nontrivial = true; }
        TxVerdict va = SubmitTo(*A, r.tx, test);
        ScrubB();
        TxVerdict vb = SubmitTo(*B, r.tx, test);
        ctx.evf("submit tx#%d test=%d -> A:%s B:%s model:%d(%s)", i, test, va.Str().c_str(), vb.Str().c_str(), expect, why.c_str());
        CheckFatal();
        const bool script_ok = r.policy_ok; // standard flags are a superset of every consensus flag set
        for (auto* v : {&va, &vb})
            if (v->Accepted() && !script_ok)
                ctx.failf("script-invalid-tx-accepted", "%s accepted tx#%d (mode %s; labels consensus=%d/%d policy=%d) %s", v == &va ? "node A (caches)" : "node B (cache-free)", i, kModeName[r.mode], r.cons_pre,
                          r.cons_post, r.policy_ok, test ? "in test-accept" : "into the mempool");
        if (!(va == vb)) ctx.failf("twin-tx-verdict-differs", "tx#%d (mode %s, test_accept=%d): with caches %s, without %s", i, kModeName[r.mode], test, va.Str().c_str(), vb.Str().c_str());
        if (expect > 0 && !va.Accepted()) ctx.failf("tx-verdict-differs-from-model", "tx#%d is valid per the model but was rejected: %s", i, va.Str().c_str());
        if (expect < 0) {
            if (va.Accepted()) ctx.failf("tx-verdict-differs-from-model", "tx#%d must be rejected per the model (%s) but was accepted", i, why.c_str());
            bool cls = why == "missing-or-known" ? (va.reason == "bad-txns-inputs-missingorspent" || va.reason == "txn-already-known") : va.reason.compare(0, why.size(), why) == 0;
            if (!cls) ctx.failf("tx-reject-reason-differs-from-model", "tx#%d: model expects %s, node says %s", i, why.c_str(), va.reason.c_str());
        }
        if (va.Accepted()) {
            r.accepted_once = true;
            ctx.probe(test ? "test_accept_ok" : "tx_accepted");
            if (primed) ctx.probe("accepted_with_primed_cache");
        } else {
            if (va.reason.compare(0, 33, "mempool-script-verify-flag-failed") == 0) ctx.probe(r.cons_post ? "policy_only_script_failure_rejected" : "consensus_script_failure_rejected");
            if (va.reason == "txn-same-nonwitness-data-in-mempool") ctx.probe("same_txid_variant_refused");
            if (r.prescript_nonstd) ctx.probe("undefined_witness_version_refused");
        }
    }

    // ---- blocks ---------------------------------------------------------------------------------------------------
    /** Build a block on `parent` from `forced` (priority order) and optionally the model mempool; add it to the model. */
    int BuildBlockOn(int parent, const std::vector<int>& forced, bool with_mempool, uint64_t tseed)
    {
        const Consensus::Params& cp = A->params->GetConsensus();
        const RefBlock& P = ref->blocks[parent];
        const int height = P.height + 1;
        std::vector<int> cand = forced;
        if (with_mempool)
            for (int i : M) cand.push_back(i);
        std::vector<CTransactionRef> txs;
        BlockLabel label;
        CAmount fees = 0;
        if (P.verdict == Verdict::VALID) {
            RefUtxo view = *P.utxo;
            std::set<Txid> placed_ids;
            std::vector<char> done(cand.size(), 0);
            for (bool progress = true; progress;) {
                progress = false;
                for (size_t c = 0; c < cand.size() && !progress; ++c) {
                    if (done[c]) continue;
                    const TxRec& r = recs[cand[c]];
                    const CTransaction& tx = *r.tx;
                    if (placed_ids.count(tx.GetHash())) { done[c] = 1; continue; }
                    bool ok = true;
                    CAmount in = 0;
                    for (auto& ti : tx.vin) {
                        auto it = view.find(ti.prevout);
                        if (it == view.end()) { ok = false; break; }
                        if (it->second.coinbase && height - it->second.height < ref->maturity) { ok = false; break; }
                        if (tx.version >= 2 && !(ti.nSequence & (1u << 31)) && it->second.height > P.height) { ok = false; break; } // keep BIP68 satisfied
                        in += it->second.value;
                    }
                    if (!ok) continue;
                    fees += in - tx.GetValueOut();
                    RefApplyTx(view, tx, height);
                    txs.push_back(r.tx);
                    placed_ids.insert(tx.GetHash());
                    done[c] = 1;
                    progress = true;
                    if (!r.ConsOk(height, csv_height)) { label.scripts_ok = false; label.defect = kModeName[r.mode]; }
                    if (r.cons_pre != r.cons_post) ctx.probe(r.ConsOk(height, csv_height) ? "csv_spend_mined_before_activation" : "csv_spend_mined_after_activation");
                }
            }
        }
        Rng r(mix64(tseed, 0x626c6b));
        const int64_t mtp = ref->MTP(parent);
        int64_t time = std::max<int64_t>(mtp + 1, P.time + r.range(1, 600));
        if (time > now) { now = time; SetMockTime(std::chrono::seconds{now}); }
        BlockExtras ex;
        ex.cb_extranonce = (uint32_t)(++cb_nonce);
        ex.coinbase_spk = Tab().spk[cb_nonce % 5][(cb_nonce / 5) % 2];
        auto block = BuildBlock(P.hash, height, time, txs, RefSubsidy(height, ref->halving_interval) + fees, ex, cp);
        const int idx = ref->Add(block, parent, label);
        const RefBlock& Bk = ref->blocks[idx];
        if (P.verdict == Verdict::VALID && label.scripts_ok && Bk.verdict != Verdict::VALID) ctx.failf("sim-generator-error", "block #%d without a script defect is %s per the model", idx, Bk.reason.c_str());
        if (!label.scripts_ok) ctx.probe("bad_script_block_built");
        ctx.evf("block #%d h=%d on #%d %s ntx=%zu verdict=%d(%s)", idx, height, parent, Hx(Bk.hash).c_str(), txs.size(), (int)Bk.verdict, Bk.reason.c_str());
        return idx;
    }

    BlockVerdict DeliverTo(SimNode& n, const std::shared_ptr<const CBlock>& b)
    {
        auto res = n.ProcessBlock(b, /*force_processing=*/true);
        BlockVerdict v{res.accepted, res.new_block, res.verdict.has_value(), false, 0, ""};
        if (res.verdict) { v.valid = res.verdict->valid; v.result = (int)res.verdict->result; v.reason = res.verdict->reason; }
        return v;
    }
    void Deliver(int idx)
    {
        const RefBlock& Bk = ref->blocks[idx];
        for (size_t i = 1; i < Bk.block->vtx.size(); ++i)
            if (PrimedInA(*Bk.block->vtx[i])) { ctx.probe("script_cache_primed_at_connect"); ctx.nontrivial = true; }
        BlockVerdict va = DeliverTo(*A, Bk.block);
        ScrubB();
        BlockVerdict vb = DeliverTo(*B, Bk.block);
        ctx.evf("deliver #%d -> A:%s B:%s tipA=%s", idx, va.Str().c_str(), vb.Str().c_str(), Hx(A->TipHash()).c_str());
        CheckFatal();
        for (auto* v : {&va, &vb}) {
            const char* who = v == &va ? "node A (caches)" : "node B (cache-free)";
            if (v->has_verdict && v->valid && Bk.verdict != Verdict::VALID)
                ctx.failf(Bk.label.scripts_ok ? "invalid-block-reported-valid" : "bad-script-block-reported-valid", "%s: block #%d (h=%d) is invalid per the model (%s %s) but BlockChecked reports it valid", who, idx, Bk.height,
                          Bk.reason.c_str(), Bk.label.defect.c_str());
            if (v->has_verdict && !v->valid && Bk.verdict == Verdict::VALID && !UnderManualInvalidation(idx))
                ctx.failf("valid-block-rejected", "%s: block #%d (h=%d) is valid per the model but rejected: %s", who, idx, Bk.height, v->reason.c_str());
        }
        if (!(va == vb)) ctx.failf("twin-block-verdict-differs", "block #%d (h=%d, %s): with caches %s, without %s", idx, Bk.height, Bk.label.defect.c_str(), va.Str().c_str(), vb.Str().c_str());
        if (va.has_verdict && !va.valid && !Bk.label.scripts_ok) ctx.probe("bad_script_block_rejected");
    }
    void Tbv(int idx)
    {
        const RefBlock& Bk = ref->blocks[idx];
        auto one = [&](SimNode& n) {
            LOCK(cs_main);
            BlockValidationState st = TestBlockValidity(n.cs(), *Bk.block, /*check_pow=*/true, /*check_merkle_root=*/true);
            return BlockVerdict{st.IsValid(), false, true, st.IsValid(), (int)st.GetResult(), st.GetRejectReason()};
        };
        BlockVerdict va = one(*A);
        ScrubB();
        BlockVerdict vb = one(*B);
        ctx.evf("testblockvalidity #%d -> A:%s B:%s", idx, va.Str().c_str(), vb.Str().c_str());
        CheckFatal();
        const bool want = Bk.verdict == Verdict::VALID;
        for (auto* v : {&va, &vb})
            if (v->valid && !want)
                ctx.failf(Bk.label.scripts_ok ? "invalid-block-reported-valid" : "bad-script-block-reported-valid", "%s: TestBlockValidity accepts block #%d (h=%d) which is invalid per the model (%s %s)",
                          v == &va ? "node A (caches)" : "node B (cache-free)", idx, Bk.height, Bk.reason.c_str(), Bk.label.defect.c_str());
        if (!(va == vb)) ctx.failf("twin-block-verdict-differs", "TestBlockValidity(#%d): with caches %s, without %s", idx, va.Str().c_str(), vb.Str().c_str());
        if (want && !va.valid) ctx.failf("valid-block-rejected", "TestBlockValidity rejects block #%d (h=%d), valid per the model: %s", idx, Bk.height, va.reason.c_str());
        ctx.probe(va.valid ? "tbv_valid" : "tbv_invalid");
    }

    void OpMine(const Op& op)
    {
        // args: with_mempool, forced sel mode, forced sel, nforced (0-2), tbv count (0-2), deliver, time seed
        int t = TipIdx();
        if (t < 0) return;
        std::vector<int> forced;
        const int nf = (int)std::clamp<int64_t>(op.arg(3), 0, 2);
        for (int k = 0; k < nf && !recs.empty(); ++k) {
            int i = op.arg(1) ? (int)((op.mod(2, recs.size()) + k * 7) % recs.size()) : (int)recs.size() - 1 - (int)((op.mod(2, std::min<size_t>(recs.size(), 4)) + k) % std::min<size_t>(recs.size(), 4));
            forced.push_back(i);
        }
        int idx = BuildBlockOn(t, forced, op.arg(0) != 0, (uint64_t)op.arg(6));
        const int ntbv = (int)std::clamp<int64_t>(op.arg(4), 0, 2);
        for (int k = 0; k < ntbv; ++k) Tbv(idx);
        if (op.arg(5)) Deliver(idx);
    }
    void OpReorg(const Op& op)
    {
        // args: depth, extra, forced sel mode, forced sel, with_forced, mempool in last block, time seed
        int t = TipIdx();
        if (t < 0) return;
        int depth = (int)std::clamp<int64_t>(op.arg(0), 1, 4);
        depth = std::min(depth, ref->blocks[t].height - ref->blocks[setup_last].height);
        if (depth < 1) return;
        int fork = ref->Ancestor(t, ref->blocks[t].height - depth);
        const int len = depth + (int)std::clamp<int64_t>(op.arg(1), 1, 2);
        std::vector<int> branch;
        int parent = fork;
        for (int i = 0; i < len; ++i) {
            std::vector<int> forced;
            if (i == 0 && op.arg(4)) { int f = SelRec(op, 2, 3); if (f >= 0) forced.push_back(f); }
            parent = BuildBlockOn(parent, forced, i + 1 == len && op.arg(5), mix64((uint64_t)op.arg(6), i));
            branch.push_back(parent);
        }
        for (int b : branch) Deliver(b);
        ctx.probe("reorg_op");
    }
    void OpInvalidate(const Op& op)
    {
        int t = TipIdx();
        if (t < 0) return;
        int depth = (int)std::clamp<int64_t>(op.arg(0), 0, 3);
        depth = std::min(depth, ref->blocks[t].height - ref->blocks[setup_last].height - 1);
        if (depth < 0) return;
        int idx = ref->Ancestor(t, ref->blocks[t].height - depth);
        for (int m : manual_invalid)
            if (ref->IsAncestor(m, idx) || ref->IsAncestor(idx, m)) return;
        for (SimNode* n : {A.get(), B.get()}) {
            if (n == B.get()) ScrubB();
            CBlockIndex* pi = WITH_LOCK(cs_main, return n->cm().m_blockman.LookupBlockIndex(ref->blocks[idx].hash));
            if (!pi) return;
            BlockValidationState st, st2;
            n->cs().InvalidateBlock(st, pi);
            n->cs().ActivateBestChain(st2);
            n->DrainSignals();
        }
        manual_invalid.insert(idx);
        ctx.probe("invalidateblock");
        ctx.evf("invalidate #%d tipA=%s h=%d", idx, Hx(A->TipHash()).c_str(), A->Height());
    }
    void OpReconsider(const Op& op)
    {
        if (manual_invalid.empty()) return;
        auto it = manual_invalid.begin();
        std::advance(it, op.mod(0, manual_invalid.size()));
        const int idx = *it;
        for (SimNode* n : {A.get(), B.get()}) {
            if (n == B.get()) ScrubB();
            CBlockIndex* pi = WITH_LOCK(cs_main, return n->cm().m_blockman.LookupBlockIndex(ref->blocks[idx].hash));
            if (!pi) return;
            {
                LOCK(cs_main);
                n->cs().ResetBlockFailureFlags(pi);
                n->cm().RecalculateBestHeader();
            }
            BlockValidationState st;
            n->cs().ActivateBestChain(st);
            n->DrainSignals();
        }
        manual_invalid.erase(idx);
        ctx.probe("reconsiderblock");
        ctx.evf("reconsider #%d tipA=%s h=%d", idx, Hx(A->TipHash()).c_str(), A->Height());
    }

    // ---- state oracle ---------------------------------------------------------------------------------------------
    std::set<uint256> PoolOf(SimNode& n)
    {
        std::set<uint256> s;
        for (auto& info : n.pool().infoAll()) s.insert(info.tx->GetWitnessHash().ToUint256());
        return s;
    }
    void CheckState(const char* where, int tip_before)
    {
        CheckFatal();
        const uint256 ta = A->TipHash(), tb = B->TipHash();
        if (ta != tb) ctx.failf("twin-tip-differs", "%s: active tip with caches %s (h=%d), without %s (h=%d)", where, Hx(ta).c_str(), A->Height(), Hx(tb).c_str(), B->Height());
        const int t = ref->Find(ta);
        if (t < 0) ctx.failf("tip-unknown-block", "%s: tip %s", where, Hx(ta).c_str());
        // no block of the active chain may be invalid (the model marks descendants of an invalid block INVALID_ANCESTOR)
        const RefBlock& Tb = ref->blocks[t];
        if (Tb.verdict != Verdict::VALID) {
            int bad = t;
            while (ref->blocks[bad].verdict == Verdict::INVALID_ANCESTOR) bad = ref->blocks[bad].parent;
            ctx.failf(ref->blocks[bad].label.scripts_ok ? "invalid-block-in-active-chain" : "bad-script-block-in-active-chain", "%s: active chain (tip #%d h=%d) contains block #%d which is invalid per the model: %s %s", where, t,
                      Tb.height, bad, ref->blocks[bad].reason.c_str(), ref->blocks[bad].label.defect.c_str());
        }
        if (UnderManualInvalidation(t)) ctx.failf("tip-under-manual-invalidation", "%s: tip #%d", where, t);
        const std::set<uint256> pa = PoolOf(*A), pb = PoolOf(*B);
        std::set<int> m;
        for (auto& w : pa) {
            auto it = by_wtxid.find(w);
            if (it == by_wtxid.end()) ctx.failf("mempool-unknown-tx", "%s: %s", where, Hx(w).c_str());
            const TxRec& r = recs[it->second];
            if (!r.policy_ok)
                ctx.failf("mempool-holds-script-invalid-tx", "%s: mempool of node A holds tx#%d (mode %s; labels consensus=%d/%d policy=%d)", where, it->second, kModeName[r.mode], r.cons_pre, r.cons_post, r.policy_ok);
            m.insert(it->second);
        }
        if (pa != pb) {
            std::string d;
            for (auto& w : pa) if (!pb.count(w)) d += " A-only:tx#" + std::to_string(by_wtxid[w]);
            for (auto& w : pb) if (!pa.count(w)) d += " B-only:tx#" + std::to_string(by_wtxid.count(w) ? by_wtxid[w] : -1);
            ctx.failf("twin-mempool-differs", "%s:%s", where, d.c_str());
        }
        if (tip_before >= 0 && t != tip_before) {
            if (!ref->IsAncestor(tip_before, t)) {
                ctx.probe("reorg");
                size_t back = 0;
                for (int i : m) if (!M.count(i)) ++back;
                if (back) ctx.probe("resurrected_to_mempool", back);
            }
            if (csv_height > 1 && (ref->blocks[tip_before].height >= csv_height) != (Tb.height >= csv_height)) ctx.probe("csv_activation_crossed");
        }
        M = m;
        uint64_t fp = mix64(ta.GetUint64(0), recs.size());
        for (int i : M) fp = mix64(fp, i);
        for (int i : manual_invalid) fp = mix64(fp, 1000 + i);
        ctx.fingerprint(fp);
    }

    // ---- run ------------------------------------------------------------------------------------------------------
    void Setup()
    {
        csv_height = (int)std::max<int64_t>(1, ctx.knob("csv_height", 1));
        scrub_b = ctx.knob("scrub_b", 1) != 0;
        A = MakeNode("nodeA", (size_t)std::clamp<int64_t>(ctx.knob("cache_a_kb", 1024), 1, 4096) * 1024);
        B = MakeNode("nodeB", 0);
        ref = std::make_unique<RefChain>(A->params->GenesisBlock());
        ref->csv_height = csv_height;
        now = ref->blocks[0].time + 1000;
        SetMockTime(std::chrono::seconds{now});
        const int base = (int)std::clamp<int64_t>(ctx.knob("base", 102), 101, 130);
        Rng r(mix64((uint64_t)ctx.knob("setup_seed", 1), 0x5e7));
        int tip = 0;
        for (int i = 0; i < base; ++i) {
            tip = BuildBlockOn(tip, {}, false, r.next());
            Deliver(tip);
        }
        if (A->Height() != base) ctx.failf("base-chain-not-connected", "height %d after %d base blocks", A->Height(), base);
        // fan-out: mature coinbases -> outputs of every kind
        const int fan = (int)std::clamp<int64_t>(ctx.knob("fan", 6), 2, 10);
        std::vector<int> fanout;
        std::vector<Cand> cands = Candidates(false);
        const size_t keep = cands.size() >= 3 ? 1 : 0;
        for (size_t c = 0; c + keep < cands.size(); ++c) {
            TxRec rec;
            rec.ins.push_back({cands[c].op, cands[c].coin, 0xffffffff});
            CAmount left = cands[c].coin.value - 10000;
            for (int o = 0; o < fan; ++o) {
                CAmount v = o + 1 == fan ? left : left / (fan - o);
                left -= v;
                int kind = (int)r.pick({5, 2, 3, 2, 2, 4, 4, 3, 4, 1});
                int key = r.chance(2, 3) ? (int)r.below(2) : (int)r.below(N_KEYS);
                rec.outs.emplace_back(v, Tab().spk[kind][key]);
            }
            BuildRec(rec, sigs, 0, true, recs, ctx);
            fanout.push_back(AddRec(std::move(rec)));
        }
        setup_last = BuildBlockOn(tip, fanout, false, r.next());
        Deliver(setup_last);
        CheckState("after setup", -1);
        if (TipIdx() != setup_last) ctx.failf("base-chain-not-connected", "fan-out block not connected");
        start_time = now;
    }
    void Run()
    {
        Setup();
        for (const Op& op : ctx.plan.ops) {
            const int tip_before = TipIdx();
            switch (op.kind) {
            case OP_NEW: OpNew(op); break;
            case OP_VARIANT: OpVariant(op); break;
            case OP_SUBMIT: OpSubmit(op); break;
            case OP_MINE: OpMine(op); break;
            case OP_REORG: OpReorg(op); break;
            case OP_INVALIDATE: OpInvalidate(op); break;
            case OP_RECONSIDER: OpReconsider(op); break;
            case OP_CLOCK:
                now += std::clamp<int64_t>(op.arg(0), 1, 3600);
                SetMockTime(std::chrono::seconds{now});
                ctx.evf("clock+%ld", (long)op.arg(0));
                break;
            }
            CheckState(Describe(op).c_str(), tip_before);
        }
        ctx.sim_ms = (uint64_t)(now - start_time) * 1000;
        A->Stop(false);
        B->Stop(false);
    }
};

// ------------------------------------------------------------------------------------------------------------------
std::string Describe(const Op& op)
{
    char b[256];
    auto sel = [&](size_t m, size_t s) { return std::string(op.arg(m) ? "any#" : "recent#") + std::to_string(op.arg(s)); };
    switch (op.kind) {
    case OP_NEW:
        snprintf(b, sizeof b, "new_tx(nin=%ld, coins=%ld, mode=%s, prefer=%s, target=%ld, nout=%ld, outs=%ld, fee=%ld, may_conflict=%ld)", (long)op.arg(0), (long)op.arg(1), kModeName[op.mod(2, MD_N)],
                 op.mod(3, CK_N + 1) ? kKindName[op.mod(3, CK_N + 1) - 1] : "-", (long)op.arg(4), (long)op.arg(5), (long)op.arg(6), (long)(2000 + 1000 * op.mod(7, 8)), (long)op.arg(8));
        break;
    case OP_VARIANT: snprintf(b, sizeof b, "variant_of(tx %s, mode=%s, target=%ld, replay=%ld) [same inputs and outputs]", sel(0, 1).c_str(), kModeName[op.mod(2, MD_N)], (long)op.arg(3), (long)op.arg(4)); break;
    case OP_SUBMIT: snprintf(b, sizeof b, "%s(tx %s)", op.arg(2) ? "test_accept" : "submit_to_mempool", sel(0, 1).c_str()); break;
    case OP_MINE:
        snprintf(b, sizeof b, "block_on_tip(mempool=%ld, forced=%ld x tx %s, testblockvalidity x%ld, deliver=%ld)", (long)op.arg(0), (long)op.arg(3), sel(1, 2).c_str(), (long)op.arg(4), (long)op.arg(5));
        break;
    case OP_REORG: snprintf(b, sizeof b, "reorg(depth=%ld, extra=%ld, forced=%s, mempool_in_last=%ld)", (long)op.arg(0), (long)op.arg(1), op.arg(4) ? ("tx " + sel(2, 3)).c_str() : "-", (long)op.arg(5)); break;
    case OP_INVALIDATE: snprintf(b, sizeof b, "invalidateblock(tip-%ld)", (long)op.arg(0)); break;
    case OP_RECONSIDER: snprintf(b, sizeof b, "reconsiderblock(manual#%ld)", (long)op.arg(0)); break;
    case OP_CLOCK: snprintf(b, sizeof b, "clock += %lds", (long)op.arg(0)); break;
    default: snprintf(b, sizeof b, "?");
    }
    return b;
}

Plan Gen(uint64_t seed, Tier tier)
{
    Rng rng(seed);
    Plan p;
    const int base = (int)rng.range(101, 106);
    p.knobs["base"] = base;
    p.knobs["setup_seed"] = (int64_t)(rng.next() >> 16);
    p.knobs["fan"] = rng.range(4, 8);
    p.knobs["cache_a_kb"] = rng.pick({6, 2, 2}) == 0 ? 1024 : rng.chance(1, 2) ? 64 : 2;
    p.knobs["scrub_b"] = rng.chance(4, 5);
    // BIP112 activation inside the history in half of the runs (the consensus flag set then changes while results are cached)
    p.knobs["csv_height"] = rng.chance(1, 2) ? base + 2 + rng.range(1, 8) : 1;

    auto seed64 = [&] { return (int64_t)(rng.next() >> 16); };
    auto NEW = [&](int nin, int mode, int prefer_kind, int target) {
        p.ops.push_back(Op{OP_NEW, {nin, seed64(), mode, prefer_kind + 1, target, rng.range(1, 3), seed64(), (int64_t)rng.below(8), rng.chance(1, 12) ? 1 : 0}});
    };
    auto VARIANT = [&](int selmode, int sel, int mode, int target) { p.ops.push_back(Op{OP_VARIANT, {selmode, sel, mode, target, seed64()}}); };
    auto SUBMIT = [&](int selmode, int sel, int test) { p.ops.push_back(Op{OP_SUBMIT, {selmode, sel, test}}); };
    auto MINE = [&](int mempool, int fselmode, int fsel, int nforced, int ntbv, int deliver) { p.ops.push_back(Op{OP_MINE, {mempool, fselmode, fsel, nforced, ntbv, deliver, seed64()}}); };
    auto REORG = [&](int depth, int with_forced) { p.ops.push_back(Op{OP_REORG, {depth, rng.range(1, 2), (int64_t)rng.below(2), (int64_t)rng.below(1000), with_forced, (int64_t)rng.below(2), seed64()}}); };
    auto INVALIDATE = [&](int depth) { p.ops.push_back(Op{OP_INVALIDATE, {depth}}); };
    auto RECONSIDER = [&] { p.ops.push_back(Op{OP_RECONSIDER, {(int64_t)rng.below(4)}}); };
    auto special = [&] { return (int)rng.pick({0, 0, 0, 0, 0, 5, 5, 4, 4, 1}); };
    auto bad_mode = [&] { return (int)rng.pick({0, 0, 4, 3, 3, 3}); };

    // swarm: per-run weights of the scenario templates and of single random operations
    std::vector<uint32_t> w = {(uint32_t)rng.range(1, 6), (uint32_t)rng.range(1, 8), (uint32_t)rng.range(1, 8), (uint32_t)rng.range(0, 6), (uint32_t)rng.range(0, 6), (uint32_t)rng.range(0, 5), (uint32_t)rng.range(4, 16)};
    const int budget = (int)rng.range(18, tier == Tier::THOROUGH ? 110 : 55);
    while ((int)p.ops.size() < budget) {
        switch (rng.pick(w)) {
        case 0: // life cycle of one valid transaction
            NEW((int)rng.range(1, 3), MD_VALID, -1, 0);
            SUBMIT(0, 0, 1);
            SUBMIT(0, 0, 0);
            MINE(1, 0, 0, 0, (int)rng.below(2), 1);
            INVALIDATE(0);
            SUBMIT(0, 0, 0);
            if (rng.coin()) RECONSIDER(); else MINE(1, 0, 0, 0, 0, 1);
            break;
        case 1: { // same txid, different witness, after the valid one was cached
            int nin = (int)rng.range(1, 3);
            NEW(nin, MD_VALID, rng.chance(1, 3) ? special() : (int)rng.pick({4, 0, 3, 2, 2}), (int)rng.below(3));
            SUBMIT(0, 0, (int)rng.below(2));
            VARIANT(0, 0, bad_mode(), (int)rng.below(3));
            if (rng.coin()) SUBMIT(0, 0, 0);
            MINE((int)rng.below(2), 0, 0, 1, (int)rng.below(3), (int)rng.below(2));
            if (rng.coin()) SUBMIT(0, 0, 0);
            if (rng.chance(1, 3)) MINE(0, 0, 0, 1, 0, 1);
            break;
        }
        case 2: { // consensus-valid, policy-invalid: cached under consensus flags by block validation, then offered to the mempool path
            NEW((int)rng.range(1, 2), MD_POLICY_BAD, special(), 0);
            if (rng.chance(1, 3)) SUBMIT(0, 0, 1);
            MINE((int)rng.below(2), 0, 0, 1, (int)rng.range(1, 2), 0);
            SUBMIT(0, 0, (int)rng.below(2));
            if (rng.chance(2, 3)) {
                MINE(1, 0, 0, 1, (int)rng.below(2), 1);
                if (rng.coin()) INVALIDATE(0); else REORG(1, 0);
                SUBMIT(0, 0, 0);
                if (rng.chance(1, 3)) RECONSIDER();
            }
            break;
        }
        case 3: // a valid signature of another transaction
            NEW(1, MD_VALID, (int)rng.pick({4, 1, 2, 2}), 0);
            SUBMIT(0, 0, 0);
            NEW((int)rng.range(1, 2), MD_REPLAY, -1, 0);
            SUBMIT(0, 0, (int)rng.below(2));
            MINE((int)rng.below(2), 0, 0, 1, (int)rng.below(2), 1);
            break;
        case 4: // a block with a bad script, seen by TestBlockValidity first
            NEW((int)rng.range(1, 3), bad_mode(), rng.coin() ? special() : -1, (int)rng.below(3));
            MINE((int)rng.below(2), 0, 0, 1, (int)rng.range(1, 2), 1);
            SUBMIT(0, 0, 0);
            break;
        case 5: { // flag-dependent spend: validated before BIP112 activates, offered again after
            NEW(1, MD_POLICY_BAD, CK_CSVNOP, 0);
            MINE(0, 0, 0, 1, 1, 0);
            int k = (int)rng.range(1, 6);
            for (int i = 0; i < k; ++i) MINE(1, 0, 0, 0, 0, 1);
            MINE(0, 0, 0, 1, (int)rng.below(2), 1);
            break;
        }
        default: { // one random operation
            switch (rng.pick({8, 4, 10, 8, 3, 2, 2, 1})) {
            case 0: NEW((int)rng.range(1, 3), (int)rng.pick({6, 3, 2, 1, 1, 2}), rng.chance(1, 2) ? special() : -1, (int)rng.below(3)); break;
            case 1: VARIANT((int)rng.below(2), (int)rng.below(1000), (int)rng.below(MD_N), (int)rng.below(3)); break;
            case 2: SUBMIT((int)rng.below(2), (int)rng.below(1000), rng.chance(1, 4)); break;
            case 3: MINE(rng.chance(3, 4), (int)rng.below(2), (int)rng.below(1000), (int)rng.pick({3, 3, 1}), (int)rng.pick({3, 2, 1}), rng.chance(4, 5)); break;
            case 4: REORG((int)rng.skewed(1, 4), (int)rng.below(2)); break;
            case 5: INVALIDATE((int)rng.skewed(0, 3)); break;
            case 6: RECONSIDER(); break;
            case 7: p.ops.push_back(Op{OP_CLOCK, {(int64_t)rng.skewed(1, 3600)}}); break;
            }
        }
        }
    }
    return p;
}

void Run(Ctx& ctx)
{
    TwinSim s(ctx);
    s.Run();
}

Engine MakeEngine()
{
    Engine e;
    e.prop = "C13";
    e.name = "nodesim/twin-caches";
    e.level = "exploration";
    e.gen = Gen;
    e.run = Run;
    e.describe = Describe;
    e.chunk = 1;
    e.quick_runs = 1000;
    e.thorough_runs = 30000;
    e.quick_budget_s = 50;
    e.thorough_budget_s = 900;
    e.rule = "twin run: two real regtest nodes in one process get the same operations - node A with signature and script-execution caches (1 MiB, 64 KiB or 2 KiB per run), node B with both caches at "
             "0 bytes (2-entry tables) that are overwritten with junk before every call (knob scrub_b, on in 4/5 of the runs). Base chain 101-106 blocks, one fan-out block creating 8-56 coins of ten kinds "
             "(P2WPKH, P2PKH, P2TR key path, P2SH-P2WPKH, P2WSH anyone-can-spend, and hand-made P2WSH MINIMALIF / P2WSH NULLFAIL / P2SH CLEANSTACK / P2WSH CHECKSEQUENCEVERIFY-as-NOP / witness v2), then "
             "18-110 operations generated from scenario templates with per-run weights plus single random operations: build a 1-3 input transaction (valid, consensus-valid-but-policy-invalid, corrupted "
             "signature, stripped witness, wrong key, valid signature of ANOTHER transaction), build a variant of an earlier transaction with the same inputs/outputs (same txid, different witness), "
             "test-accept / submit, build a block on the tip from the mempool plus up to two forced transactions and run TestBlockValidity 0-2 times and/or ProcessNewBlock, competing branches (reorg depth "
             "1-4), invalidateblock / reconsiderblock, clock steps; in half of the runs BIP112 activates 3-10 blocks after the base chain so that the consensus flag set changes inside the history. "
             "Oracle after every call: verdict (accept/reject, result code, reject reason) of A == B; never accept a transaction / block whose scripts the generator labelled unsatisfied for the flag set in "
             "force; model-valid blocks and (where the model can tell) model-valid transactions are accepted; after every operation tips equal, mempools equal, no script-invalid transaction in the mempool, "
             "no invalid block in the active chain. non-trivial = at least one validation (submit or block connection) happened while A's script-execution cache held an entry for that wtxid; distinct = "
             "distinct (tip, model mempool, manual invalidations, #transactions built) fingerprints (first 64 per run)";
    e.real_components = {"ChainstateManager/Chainstate: ProcessNewBlock, ConnectBlock, TestBlockValidity, InvalidateBlock, MaybeUpdateMempoolForReorg (validation.cpp)", "MemPoolAccept: PreChecks, PolicyScriptChecks, ConsensusScriptChecks",
                         "CheckInputScripts + script-execution cache, SignatureCache / CachingTransactionSignatureChecker, CuckooCache", "script interpreter, secp256k1", "CTxMemPool (require_standard on)", "CCoinsViewCache/LevelDB (in memory)"};
    e.stub_components = {"peers / miner (transactions and blocks handed to ProcessTransaction / TestBlockValidity / ProcessNewBlock)", "wall clock (SetMockTime)", "ValidationSignals task runner (immediate)", "script check worker threads (0: checks run inline)"};
    e.assumptions = {"labels: the generator knows by construction which input scripts it satisfied under consensus flags without/with CHECKSEQUENCEVERIFY and under the standard relay flags; block-level ground truth is RefChain (see C08)",
                     "node B is the cache-free twin: its caches cannot be disabled, they are 2-entry tables flooded with 16 junk entries before every call into B",
                     "the model predicts mempool acceptance only when no mempool conflict (RBF) is involved and the mempool holds at most 20 transactions; otherwise only A == B and the one-directional label check apply",
                     "'different spent outputs for one wtxid' needs a txid collision (BIP30 duplicate coinbases with BIP34 disabled); not generated - unexplored",
                     "parallel script checking (worker threads, deferred CScriptCheck vectors) is not exercised: both nodes run script checks inline"};
    e.expected_probes = {"script_cache_primed_at_submit", "script_cache_primed_at_connect", "tx_accepted", "test_accept_ok", "policy_only_script_failure_rejected", "consensus_script_failure_rejected", "same_txid_different_witness_built",
                         "same_txid_variant_refused", "replayed_signature_built", "bad_script_block_built", "bad_script_block_rejected", "tbv_valid", "tbv_invalid", "reorg", "resurrected_to_mempool", "invalidateblock", "reconsiderblock",
                         "built_consensus_valid_policy_invalid", "built_flag_dependent_csv_spend", "csv_spend_mined_before_activation", "csv_spend_mined_after_activation", "csv_activation_crossed", "undefined_witness_version_refused"};
    return e;
}
Engine g_engine = MakeEngine();
SIM_REGISTER_ENGINE(g_engine);
} // namespace
