// C29 — package acceptance is well-formed and leaves no dangling children.
// nodesim mempool module (real node, real MemPoolAccept::AcceptPackage / AcceptSubPackage / AcceptMultipleTransactionsInternal,
// real IsWellFormedPackage / IsChildWithParents) driven by the shared mempool-history workload with bias "c29" plus package
// operations of this engine: random DAG packages of 1-27 transactions (child-with-parents trees, parents depending on each
// other, chains, grandparents, two children, unrelated members; shuffled / reversed / duplicated / witness-twin / internally
// conflicting members; low-fee parents with a paying child; members already in the mempool, already confirmed, conflicting
// with the mempool, replaced by a different-witness twin), re-submissions of earlier packages after blocks and reorgs, and
// packages padded to the 404000 weight limit +-1; 'trim' runs keep the mempool at its size limit so that package members are
// evicted by the LimitMempoolSize call at the end of AcceptPackage.
// Oracle (after every ProcessNewPackage call): an independent implementation of the well-formedness rules decides whether
// the package may be evaluated at all; the membership and result clauses are read off the mempool snapshots and the model chain.
#include "../core/sim.h"
#include "../nodesim/mempoolsim.h"

#include <serialize.h>

#include <algorithm>
#include <map>
#include <set>

using namespace sim;
using namespace nodesim;

namespace {

enum OwnOp { PK_DAG = 300, PK_REPLAY = 301, PK_HEAVY = 302, PK_FILL = 303, PK_EVICT = 304 };
enum Topo { T_STAR = 0, T_STAR_DEP, T_RANDOM, T_CHAIN, T_GRANDPARENT, T_TWO_CHILDREN, T_UNRELATED, T_NTOPO };
enum Mut { M_NONE = 0, M_SHUFFLE, M_SWAP, M_REVERSE, M_DUPLICATE, M_TWIN_DUP, M_CONFLICT_CHILD, M_CONFLICT_EXTRA, M_NMUT };
enum DagFlags { DF_TEST = 1, DF_V3 = 2, DF_PRESUBMIT = 4, DF_THEN_MINE = 8, DF_MEMPOOL_CONFLICT = 16, DF_TWIN_REPLACE = 32, DF_EXT_UNCONF = 64 };

const char* kTopoNames[T_NTOPO] = {"child-with-parents(tree)", "child-with-parents(parents-depend)", "random-dag", "chain", "grandparent", "two-children", "unrelated-member"};
const char* kMutNames[M_NMUT] = {"none", "shuffle", "swap-two", "reverse", "duplicate", "witness-twin-duplicate", "child-spends-parents-input", "extra-conflicting-tx"};
const int64_t kHeavyDelta[12] = {0, 1, -1, 4, -4, 3, 2, -3, 400, -4000, 40000, 0};

// The limits of the property statement (policy/packages.h documents them as the package count / weight limits).
constexpr size_t kMaxCount = 25;
constexpr int64_t kMaxWeight = 404000;
/** validation's documented exception: a package of exactly one transaction is not subject to the package weight limit
 *  ("it's better to report the policy violation on individual tx weight"); its only member is evaluated and refused by the
 *  per-transaction weight policy. Set to false to make the oracle apply the weight limit to one-transaction packages too. */
constexpr bool kSingleTxWeightExempt = true;

std::string Describe(const Op& op)
{
    char b[260];
    switch (op.kind) {
    case PK_DAG:
        snprintf(b, sizeof b, "submit_dag_package(seed=%ld, n=%ld, topology=%s, mutation=%s, flags=%ld[1=test_accept,2=v3,4=presubmit,8=then-mine,16=mempool-conflict,32=twin-replace,64=unconfirmed-inputs], feemode=%ld, presubmit_mask=%lx)",
                 (long)op.arg(0), (long)op.arg(1), kTopoNames[op.mod(2, T_NTOPO)], kMutNames[op.mod(3, M_NMUT)], (long)op.arg(4), (long)op.arg(5), (long)op.arg(6));
        return b;
    case PK_REPLAY:
        snprintf(b, sizeof b, "resubmit_package(pkg#%ld, mode=%ld[0=as-is,1=shuffle,2=drop-one,3=prefix,4=reverse,5=last-two], test_accept=%ld, seed=%ld)", (long)op.arg(0), (long)op.arg(1), (long)(op.arg(2) & 1), (long)op.arg(3));
        return b;
    case PK_HEAVY:
        snprintf(b, sizeof b, "submit_heavy_package(seed=%ld, txs=%ld, target_weight=404000%+ld, test_accept=%ld, feeclass=%ld, single=%ld)", (long)op.arg(0), (long)op.arg(1), (long)kHeavyDelta[op.mod(2, 12)], (long)(op.arg(3) & 1), (long)op.arg(4), (long)op.arg(5));
        return b;
    case PK_EVICT: return "package [A, B, C]: A spends mempool tx X, B replaces X (and with it A), C spends A and B; A " + std::string((op.arg(1) & 1) ? "already in the mempool" : "new");
    case PK_FILL:
        snprintf(b, sizeof b, "fill_mempool(seed=%ld, coins<=%ld, chain_length=%ld, feerate=%s sat/kvB, stop_at=%ld%% of the size limit)", (long)op.arg(0), (long)op.arg(1), (long)op.arg(2), (op.arg(3) & 3) == 3 ? "5000" : "20000", (long)op.arg(4));
        return b;
    default: return DescribeMempoolOp(op);
    }
}

Plan Gen(uint64_t seed, Tier tier)
{
    Plan p = GenMempoolPlan(seed, tier, "c29");
    Rng rng(mix64(seed, strhash("c29-own-ops")));
    // small mempools more often than the shared generator does: the trim at the end of AcceptPackage must fire on package members
    if (p.knobs["mempool_kb"] >= 300000 && rng.chance(1, 3)) {
        p.knobs["cluster_kvb"] = rng.range(1, 3);
        p.knobs["mempool_kb"] = p.knobs["cluster_kvb"] * 40 + rng.range(5, 80);
    }
    // "trim" runs: the smallest mempool the node accepts (40 x cluster size limit) and operations that fill it with small
    // high-feerate chains, so that LimitMempoolSize at the end of AcceptPackage evicts package members
    const bool trim_run = rng.chance(1, 3);
    if (trim_run) {
        p.knobs["cluster_kvb"] = 1;
        p.knobs["mempool_kb"] = 40 + rng.range(1, 8);
        p.knobs["cluster_count"] = 64;
        p.knobs["base"] = rng.range(116, 132);
        int nfill = (int)rng.range(2, 4);
        for (int i = 0; i < nfill; ++i) {
            Op op(PK_FILL, {(int64_t)(rng.next() >> 16), rng.range(4, 10), rng.range(4, 8), (int64_t)rng.below(4), rng.range(70, 97)});
            p.ops.insert(p.ops.begin() + rng.below(p.ops.size() * 2 / 3 + 1), op);
        }
    }
    p.knobs["c29_trim_run"] = trim_run;
    int nown = (int)rng.range(8, tier == Tier::THOROUGH ? 36 : 18);
    for (int i = 0; i < nown; ++i) {
        Op op;
        switch (rng.pick({62, 26, 12})) {
        case 0: {
            int64_t n = rng.chance(3, 20) ? rng.range(24, 27) : rng.chance(1, 2) ? rng.range(2, 5) : rng.skewed(1, 16);
            int64_t flags = (rng.chance(6, 100) ? DF_TEST : 0) | (rng.chance(1, 8) ? DF_V3 : 0) | (rng.chance(1, 3) ? DF_PRESUBMIT : 0) | (rng.chance(1, 3) ? DF_THEN_MINE : 0) |
                            (rng.chance(1, 6) ? DF_MEMPOOL_CONFLICT : 0) | (rng.chance(1, 4) ? DF_TWIN_REPLACE : 0) | (rng.chance(1, 4) ? DF_EXT_UNCONF : 0);
            op = Op(PK_DAG, {(int64_t)(rng.next() >> 16), n, (int64_t)rng.pick({30, 20, 12, 8, 12, 9, 9}), (int64_t)rng.pick({48, 7, 7, 5, 8, 7, 10, 8}), flags, (int64_t)rng.below(6), (int64_t)(rng.next() & 0xffffff)});
            if (trim_run && rng.chance(1, 2)) {
                // low-fee parents with a modestly paying child in a nearly full mempool: the package is accepted as one chunk and is the
                // first candidate of the trim at the end of AcceptPackage
                op.a[1] = rng.range(2, 4);
                op.a[2] = rng.coin() ? T_STAR : T_STAR_DEP;
                op.a[3] = M_NONE;
                op.a[4] = 0;
                op.a[5] = rng.range(1, 2);
            } else if (rng.chance(1, 10)) {
                // different-witness scenario: a well-formed child-with-parents package one of whose members sits in the mempool with another witness
                op.a[1] = rng.range(2, 5);
                op.a[2] = rng.coin() ? T_STAR : T_STAR_DEP;
                op.a[3] = M_NONE;
                op.a[4] = DF_PRESUBMIT | DF_TWIN_REPLACE | (flags & DF_EXT_UNCONF);
                op.a[5] = 0;
            }
            break;
        }
        case 1: op = Op(PK_REPLAY, {(int64_t)rng.below(1000), (int64_t)rng.pick({40, 12, 16, 12, 8, 12}), (int64_t)(rng.chance(6, 100) ? 1 : 0), (int64_t)(rng.next() >> 16)}); break;
        default: op = Op(PK_HEAVY, {(int64_t)(rng.next() >> 16), rng.range(2, 6), (int64_t)rng.below(12), (int64_t)(rng.chance(6, 100) ? 1 : 0), (int64_t)rng.pick({0, 0, 1, 2, 2, 1}), (int64_t)(rng.chance(1, 8) ? 1 : 0)}); break;
        }
        p.ops.insert(p.ops.begin() + rng.below(p.ops.size() + 1), op);
    }
    if (!trim_run) {
        int nev = (int)rng.range(1, 3);
        for (int i = 0; i < nev; ++i) p.ops.insert(p.ops.begin() + rng.below(p.ops.size() + 1), Op(PK_EVICT, {(int64_t)(rng.next() >> 16), (int64_t)rng.below(2)}));
    }
    return p;
}

// ---------------------------------------------------------------------------------------------------------------------
// Independent implementation of the well-formedness rules of the property statement.

enum Rule { R_COUNT = 1, R_WEIGHT = 2, R_DUPLICATE = 4, R_CONFLICT = 8, R_UNSORTED = 16, R_NOT_CHILD_WITH_PARENTS = 32 };

int64_t OwnWeight(const CTransaction& tx)
{
    // BIP141: weight = 3 * (size without witness) + (size with witness)
    return 3 * (int64_t)::GetSerializeSize(TX_NO_WITNESS(tx)) + (int64_t)::GetSerializeSize(TX_WITH_WITNESS(tx));
}

int64_t TotalWeight(const std::vector<CTransactionRef>& txs)
{
    int64_t w = 0;
    for (auto& t : txs) w += OwnWeight(*t);
    return w;
}

/** Bit mask of violated rules. `submission` = the call submits (child-with-parents topology is only demanded of submitted
 *  packages: the test-accept entry point is documented to take arbitrary sorted, conflict-free lists). */
int ViolatedRules(const std::vector<CTransactionRef>& txs, bool submission)
{
    int v = 0;
    const size_t n = txs.size();
    if (n > kMaxCount) v |= R_COUNT;
    if (TotalWeight(txs) > kMaxWeight && !(n == 1 && kSingleTxWeightExempt)) v |= R_WEIGHT;
    // duplicates: the same transaction twice, identified by txid (covers same-txid-different-witness twins)
    std::map<Txid, size_t> first_pos;
    for (size_t i = 0; i < n; ++i)
        if (!first_pos.emplace(txs[i]->GetHash(), i).second) v |= R_DUPLICATE;
    // internal conflicts: two different members spend the same prevout
    std::map<COutPoint, size_t> spender;
    for (size_t i = 0; i < n; ++i) {
        std::set<COutPoint> own;
        for (auto& in : txs[i]->vin) own.insert(in.prevout);
        for (auto& o : own) {
            auto [it, fresh] = spender.emplace(o, i);
            if (!fresh && it->second != i) v |= R_CONFLICT;
        }
    }
    // sorted: nobody spends an output of a member placed at the same or a later position
    for (size_t i = 0; i < n; ++i)
        for (auto& in : txs[i]->vin)
            for (size_t j = i; j < n; ++j)
                if (txs[j]->GetHash() == in.prevout.hash) v |= R_UNSORTED;
    // more than one transaction: one child, every other member is a direct parent of it (parents may depend on each other)
    if (submission && n > 1) {
        bool found = false;
        for (size_t c = 0; c < n && !found; ++c) {
            bool all = true;
            for (size_t j = 0; j < n && all; ++j) {
                if (j == c) continue;
                bool spends = false;
                for (auto& in : txs[c]->vin)
                    if (in.prevout.hash == txs[j]->GetHash()) spends = true;
                if (!spends) all = false;
            }
            if (all) found = true;
        }
        if (!found) v |= R_NOT_CHILD_WITH_PARENTS;
    }
    return v;
}

std::string RuleNames(int v)
{
    std::string s;
    if (v & R_COUNT) s += "count>25 ";
    if (v & R_WEIGHT) s += "weight>404000 ";
    if (v & R_DUPLICATE) s += "duplicate ";
    if (v & R_CONFLICT) s += "internal-conflict ";
    if (v & R_UNSORTED) s += "unsorted ";
    if (v & R_NOT_CHILD_WITH_PARENTS) s += "not-child-with-parents ";
    if (!s.empty()) s.pop_back();
    return s;
}

const char* TypeName(MempoolAcceptResult::ResultType t)
{
    switch (t) {
    case MempoolAcceptResult::ResultType::VALID: return "VALID";
    case MempoolAcceptResult::ResultType::INVALID: return "INVALID";
    case MempoolAcceptResult::ResultType::MEMPOOL_ENTRY: return "MEMPOOL_ENTRY";
    case MempoolAcceptResult::ResultType::DIFFERENT_WITNESS: return "DIFFERENT_WITNESS";
    }
    return "?";
}

/** Same txid, different wtxid. The twin's own validity is irrelevant to the property. */
CTransactionRef WitnessTwin(const CTransactionRef& tx, uint64_t salt)
{
    CMutableTransaction m(*tx);
    if (tx->HasWitness() && (salt & 1)) {
        for (auto& in : m.vin) in.scriptWitness.SetNull();
    } else {
        m.vin[0].scriptWitness.stack.push_back(std::vector<unsigned char>(1 + (salt >> 1) % 5, (unsigned char)(0x50 + salt % 7)));
    }
    return MakeTransactionRef(m);
}

// ---------------------------------------------------------------------------------------------------------------------

struct Sim {
    Ctx& ctx;
    MempoolSim ms;
    std::vector<std::vector<CTransactionRef>> built; //!< packages built by this engine or seen from the shared generator (for re-submission)
    uint64_t last_fp{0};
    size_t npkg_calls{0};

    static MempoolSimConfig Cfg()
    {
        MempoolSimConfig c;
        c.check_consistency = false; // C22's business (and a TestBlockValidity per operation)
        c.snapshots = true;
        c.bias = "c29";
        return c;
    }
    explicit Sim(Ctx& c) : ctx(c), ms(c, Cfg()) {}

    bool ConfirmedInModel(const Txid& id)
    {
        for (int i = ms.TipIdx(); i >= 0; i = ms.cs.ref->blocks[i].parent) {
            for (auto& tx : ms.cs.ref->blocks[i].block->vtx)
                if (tx->GetHash() == id) return true;
        }
        return false;
    }

    // ---------------- oracle ----------------
    void Oracle(const SubmitRecord& r)
    {
        ++npkg_calls;
        const size_t n = r.txs.size();
        const int violated = ViolatedRules(r.txs, /*submission=*/!r.test_accept);
        const int64_t weight = TotalWeight(r.txs);
        std::string id0 = r.txs.empty() ? std::string("-") : r.txs[0]->GetHash().ToString().substr(0, 10);

        // probes describing what this call exercised
        if (violated & R_COUNT) ctx.probe("malformed_count");
        if (violated & R_WEIGHT) ctx.probe("malformed_weight");
        if (violated & R_DUPLICATE) ctx.probe("malformed_duplicate");
        if (violated & R_CONFLICT) ctx.probe("malformed_internal_conflict");
        if (violated & R_UNSORTED) ctx.probe("malformed_unsorted");
        if (violated & R_NOT_CHILD_WITH_PARENTS) ctx.probe("malformed_not_child_with_parents");
        if (violated && (violated & (violated - 1)) == 0) ctx.probe("malformed_exactly_one_rule");
        if (n == kMaxCount && !(violated & ~R_NOT_CHILD_WITH_PARENTS)) ctx.probe("count_exactly_25");
        if (n == kMaxCount + 1) ctx.probe("count_26");
        if (n > 1 && weight == kMaxWeight) ctx.probe("weight_exactly_404000");
        if (n > 1 && weight > kMaxWeight && weight <= kMaxWeight + 4) ctx.probe("weight_limit_plus_1_to_4");
        if (n > 1 && weight < kMaxWeight && weight >= kMaxWeight - 4) ctx.probe("weight_limit_minus_1_to_4");
        if (n == 1 && weight > kMaxWeight) ctx.probe(r.pkg_tx_results.empty() ? "single_tx_over_package_weight_not_evaluated" : "single_tx_over_package_weight_evaluated");
        if (r.test_accept) ctx.probe("package_test_accept");
        {
            const int64_t lim = ctx.knob("mempool_kb", 300000) * 1000;
            if ((int64_t)r.usage_before * 10 > lim * 9) ctx.probe("mempool_over_90pct_before_package");
            if (r.minfee_after.GetFeePerK() > r.minfee_before.GetFeePerK()) ctx.probe("trim_during_package_raised_minfee");
            if (r.minfee_before.GetFeePerK() > 0) ctx.probe("package_meets_nonzero_mempool_minfee");
        }

        // Clause 1: a rule is violated => nothing is evaluated: no per-transaction result, no member changes its mempool state.
        if (violated) {
            if (!r.pkg_tx_results.empty())
                ctx.failf("malformed-package-evaluated", "package of %zu (first %s, weight %ld, test_accept=%d) violates [%s] but %zu per-transaction results were reported (package state %d '%s')", n, id0.c_str(),
                          (long)weight, r.test_accept, RuleNames(violated).c_str(), r.pkg_tx_results.size(), (int)r.pkg_result, r.pkg_reason.c_str());
            for (auto& tx : r.txs) {
                auto b = r.before.find(tx->GetHash());
                auto a = r.after.find(tx->GetHash());
                bool inb = b != r.before.end(), ina = a != r.after.end();
                if (inb != ina || (inb && b->second.tx->GetWitnessHash() != a->second.tx->GetWitnessHash()))
                    ctx.failf("malformed-package-changed-mempool", "package of %zu violates [%s] but member %s was %s the mempool before the call and is %s it afterwards", n, RuleNames(violated).c_str(),
                              tx->GetHash().ToString().substr(0, 10).c_str(), inb ? "in" : "not in", ina ? "in" : "not in");
            }
            ctx.probe("malformed_package_refused");
        } else {
            ctx.probe(n > 1 ? "wellformed_multi_tx_package" : "wellformed_single_tx_package");
            if (!r.pkg_tx_results.empty()) {
                ctx.probe("wellformed_package_evaluated");
                ctx.nontrivial = true;
            }
        }

        // Clause 2: no member is in the mempool while one of its in-package parents is neither in the mempool nor confirmed.
        std::map<Txid, size_t> member;
        for (size_t i = 0; i < n; ++i) member.emplace(r.txs[i]->GetHash(), i);
        for (auto& tx : r.txs) {
            if (!r.after.count(tx->GetHash())) continue;
            for (auto& in : tx->vin) {
                if (in.prevout.hash == tx->GetHash() || !member.count(in.prevout.hash)) continue;
                if (r.after.count(in.prevout.hash)) { ctx.probe("member_and_parent_both_in_mempool"); continue; }
                if (ms.TipUtxo().count(in.prevout) || ConfirmedInModel(in.prevout.hash)) { ctx.probe("member_in_mempool_parent_confirmed"); continue; }
                ctx.failf("dangling-child-in-mempool", "after the package call (n=%zu, test_accept=%d, state %d '%s') member %s is in the mempool but its in-package parent %s is neither in the mempool nor confirmed", n,
                          r.test_accept, (int)r.pkg_result, r.pkg_reason.c_str(), tx->GetHash().ToString().substr(0, 10).c_str(), in.prevout.hash.ToString().substr(0, 10).c_str());
            }
        }

        // Clause 3 (submissions; a test-accept never adds anything): reported result <=> membership afterwards.
        std::map<Wtxid, Txid> by_wtxid;
        for (auto& tx : r.txs) by_wtxid.emplace(tx->GetWitnessHash(), tx->GetHash());
        size_t nres = 0, nfull = 0;
        for (auto& [wtxid, res] : r.pkg_tx_results) {
            auto m = by_wtxid.find(wtxid);
            if (m == by_wtxid.end()) { ctx.probe("result_for_non_member"); continue; }
            ++nres;
            auto a = r.after.find(m->second);
            const bool txid_in = a != r.after.end();
            const bool wtxid_in = txid_in && a->second.tx->GetWitnessHash() == wtxid;
            const std::string sid = m->second.ToString().substr(0, 10);
            if (res.second == "mempool full") { ctx.probe("member_evicted_mempool_full"); ++nfull; }
            if (r.test_accept) { ctx.probe(res.first == MempoolAcceptResult::ResultType::VALID ? "test_result_valid" : "test_result_invalid"); continue; }
            switch (res.first) {
            case MempoolAcceptResult::ResultType::VALID:
                ctx.probe("result_valid");
                if (!wtxid_in) ctx.failf("result-valid-but-not-in-mempool", "member %s reported VALID but that transaction is not in the mempool after the call (package n=%zu, state %d '%s')", sid.c_str(), n, (int)r.pkg_result, r.pkg_reason.c_str());
                if (r.before.count(m->second) == 0) ctx.probe("member_newly_accepted");
                break;
            case MempoolAcceptResult::ResultType::MEMPOOL_ENTRY:
                ctx.probe("result_mempool_entry");
                if (!wtxid_in) ctx.failf("result-mempool-entry-but-not-in-mempool", "member %s reported MEMPOOL_ENTRY but that transaction is not in the mempool after the call (package n=%zu, state %d '%s')", sid.c_str(), n, (int)r.pkg_result, r.pkg_reason.c_str());
                break;
            case MempoolAcceptResult::ResultType::DIFFERENT_WITNESS:
                ctx.probe("result_different_witness");
                if (!txid_in) ctx.failf("result-different-witness-but-txid-not-in-mempool", "member %s reported DIFFERENT_WITNESS but no transaction with its txid is in the mempool after the call (package n=%zu, state %d '%s')", sid.c_str(), n, (int)r.pkg_result, r.pkg_reason.c_str());
                break;
            case MempoolAcceptResult::ResultType::INVALID:
                ctx.probe("result_invalid");
                if (wtxid_in) ctx.failf("result-invalid-but-in-mempool", "member %s reported INVALID ('%s') but that very transaction is in the mempool after the call (package n=%zu, in mempool before: %d)", sid.c_str(), res.second.c_str(), n, (int)r.before.count(m->second));
                if (r.before.count(m->second)) ctx.probe("member_in_mempool_before_reported_invalid_and_gone");
                break;
            }
        }
        if (nfull >= 2) ctx.probe("two_or_more_members_evicted_mempool_full");
        if (!violated && !r.test_accept) {
            if (nres == n) ctx.probe("every_member_has_a_result");
            else if (nres) ctx.probe("some_members_without_result");
            // CPFP evidence: a member that was newly accepted together with a newly accepted in-package child
            size_t fresh = 0;
            for (auto& tx : r.txs)
                if (r.after.count(tx->GetHash()) && !r.before.count(tx->GetHash())) ++fresh;
            if (fresh >= 2) ctx.probe("package_added_two_or_more_members");
            if (fresh == n && n >= 2) ctx.probe("whole_package_added");
            if (r.pkg_reason == "transaction failed" && fresh > 0) ctx.probe("partial_package_acceptance");
            if (!r.replaced.empty()) ctx.probe("package_replaced_mempool_txs");
        }
        // trace + fingerprint of the model's view of the call
        uint64_t fp = mix64((uint64_t)violated * 131 + n, (uint64_t)ms.TipIdx());
        for (auto& tx : r.txs) {
            uint64_t st = r.after.count(tx->GetHash()) ? 1 : 0;
            auto res = r.pkg_tx_results.find(tx->GetWitnessHash());
            st = st * 5 + (res == r.pkg_tx_results.end() ? 4 : (uint64_t)res->second.first);
            fp = mix64(fp, st);
        }
        last_fp = mix64(fp, r.after.size());
        ctx.evf("c29 oracle: n=%zu weight=%ld violated=[%s] results=%zu", n, (long)weight, RuleNames(violated).c_str(), r.pkg_tx_results.size());
        if (n >= 1 && built.size() < 48 && n <= 28) built.push_back(r.txs);
    }

    // ---------------- package builders ----------------
    struct Builder {
        Sim& s;
        Rng& r;
        std::vector<std::vector<int>> parents;    //!< per tx: indices of earlier txs it spends one output of
        std::vector<std::vector<int>> children;
        std::vector<int64_t> feerate;             //!< sat per kvB
        std::vector<int> pad;                     //!< OP_RETURN padding bytes (0 = none)
        std::vector<char> want_ext;
        uint32_t version{2};
        std::vector<MempoolSim::Spendable> pool_conf, pool_unconf;
        bool use_unconf{false};
        std::vector<CTransactionRef> txs;
        std::vector<std::vector<MempoolSim::Spendable>> ext; //!< external inputs of each tx
        std::vector<std::vector<MempoolSim::Spendable>> extra_ins; //!< additional inputs forced by the caller (conflicts)

        Builder(Sim& sim, Rng& rng) : s(sim), r(rng) {}

        void Init(size_t n)
        {
            parents.assign(n, {});
            children.assign(n, {});
            feerate.assign(n, 1000);
            pad.assign(n, 0);
            want_ext.assign(n, 0);
            txs.assign(n, nullptr);
            ext.assign(n, {});
            extra_ins.assign(n, {});
            const Keyring& kr = Keys();
            for (auto& c : s.ms.FreeConfirmed())
                if (kr.Classify(c.coin.spk).kind != SK::TRUE_BARE) pool_conf.push_back(c);
            if (use_unconf) pool_unconf = s.ms.FreeUnconfirmed();
        }
        void Link()
        {
            for (auto& c : children) c.clear();
            for (size_t i = 0; i < parents.size(); ++i) {
                std::sort(parents[i].begin(), parents[i].end());
                parents[i].erase(std::unique(parents[i].begin(), parents[i].end()), parents[i].end());
                for (int p : parents[i]) children[p].push_back((int)i);
            }
        }
        bool TakeExt(MempoolSim::Spendable& out)
        {
            if (use_unconf && !pool_unconf.empty() && r.chance(1, 2)) {
                size_t k = r.below(pool_unconf.size());
                out = pool_unconf[k];
                pool_unconf.erase(pool_unconf.begin() + k);
                return true;
            }
            if (pool_conf.empty()) return false;
            size_t k = r.below(pool_conf.size());
            out = pool_conf[k];
            pool_conf.erase(pool_conf.begin() + k);
            return true;
        }
        /** choose external inputs once (before building), so that rebuilding a transaction keeps its inputs */
        bool Prepare()
        {
            for (size_t i = 0; i < parents.size(); ++i) {
                if (parents[i].empty() || want_ext[i]) {
                    MempoolSim::Spendable sp;
                    if (TakeExt(sp)) ext[i].push_back(sp);
                    else if (parents[i].empty()) {
                        if (i == 0) return false;
                        parents[i].push_back(0); // no coin left: hang it below the first transaction
                    }
                }
            }
            Link();
            return true;
        }
        CTransactionRef BuildOne(size_t i)
        {
            const Keyring& kr = Keys();
            static const SK kinds[] = {SK::P2WPKH, SK::P2TR, SK::TRUE_WSH, SK::P2PKH, SK::P2SH_P2WPKH};
            const int next_h = s.ms.cs.ref->blocks[s.ms.TipIdx()].height + 1;
            std::vector<MempoolSim::Spendable> ins = ext[i];
            for (int p : parents[i]) {
                size_t slot = std::find(children[p].begin(), children[p].end(), (int)i) - children[p].begin();
                const CTransactionRef& pt = txs[p];
                if (!pt || slot >= pt->vout.size()) continue;
                ins.push_back({COutPoint(pt->GetHash(), (uint32_t)slot), RefCoin{pt->vout[slot].nValue, pt->vout[slot].scriptPubKey, next_h, false}, false});
            }
            for (auto& e : extra_ins[i]) ins.push_back(e);
            if (ins.empty()) return nullptr;
            CAmount in_sum = s.ms.InputSum(ins);
            size_t nspend = children[i].size();
            std::vector<CTxOut> outs;
            Rng kr_r(mix64(0x6f757473, i * 977 + parents.size()));
            CAmount each = in_sum / (CAmount)(nspend + 2);
            for (size_t o = 0; o < nspend; ++o) outs.push_back(CTxOut(each, kr.Spk(kinds[(i + o * 3 + (size_t)kr_r.below(5)) % 5], (int)((i + o) % N_KEYS))));
            if (pad[i] > 0) outs.push_back(CTxOut(0, CScript() << OP_RETURN << std::vector<unsigned char>((size_t)pad[i], (unsigned char)(0x30 + i % 40))));
            outs.push_back(CTxOut(0, kr.Spk(kinds[(i * 7 + 1) % 5], (int)(i % N_KEYS)))); // change, receives what is left after the fee
            return s.ms.MakeTx(ins, outs, feerate[i], 0, version, 0, {}, SigDefect::NONE, children[i].empty() ? TS_CHAIN : TS_SIMPLE);
        }
        bool BuildAll()
        {
            for (size_t i = 0; i < parents.size(); ++i) {
                txs[i] = BuildOne(i);
                if (!txs[i]) return false;
            }
            return true;
        }
    };

    void SetFees(Builder& b, int feemode, Rng& r)
    {
        static const int64_t cls[6] = {100, 1000, 5000, 20000, 0, 50};
        const size_t n = b.parents.size();
        for (size_t i = 0; i < n; ++i) {
            bool is_child = i + 1 == n;
            switch (feemode % 6) {
            case 0: b.feerate[i] = cls[r.below(4)]; break;
            case 1: { static const int64_t pay[4] = {400, 2000, 20000, 200000}; b.feerate[i] = is_child ? pay[r.below(4)] : 0; break; } // 0-fee parents, paying child
            case 2: b.feerate[i] = is_child ? 5000 : 50; break;                          // below-min-relay parents
            case 3: b.feerate[i] = 0; break;
            case 4: b.feerate[i] = is_child ? 0 : cls[1 + r.below(3)]; break;            // paying parents, free child
            default: b.feerate[i] = cls[r.below(6)]; break;
            }
        }
    }

    void DoDag(const Op& op)
    {
        Rng r(mix64((uint64_t)op.arg(0), 0x646167));
        size_t n = (size_t)std::clamp<int64_t>(op.arg(1), 1, 28);
        int topo = (int)op.mod(2, T_NTOPO);
        int mut = (int)op.mod(3, M_NMUT);
        const int64_t flags = op.arg(4);
        if ((topo == T_GRANDPARENT || topo == T_TWO_CHILDREN || topo == T_UNRELATED) && n < 3) n = 3;
        Builder b(*this, r);
        b.use_unconf = flags & DF_EXT_UNCONF;
        b.version = (flags & DF_V3) ? 3 : 2;
        b.Init(n);
        auto star = [&](size_t from, size_t child) { for (size_t j = from; j < child; ++j) b.parents[child].push_back((int)j); };
        switch (topo) {
        case T_STAR: star(0, n - 1); break;
        case T_STAR_DEP:
            star(0, n - 1);
            for (size_t i = 1; i + 1 < n; ++i)
                for (size_t j = 0; j < i; ++j)
                    if (r.chance(1, 3 + i / 2)) b.parents[i].push_back((int)j);
            break;
        case T_RANDOM:
            for (size_t i = 1; i < n; ++i)
                for (size_t j = 0; j < i; ++j)
                    if (r.chance(2, 2 + i)) b.parents[i].push_back((int)j);
            break;
        case T_CHAIN:
            for (size_t i = 1; i < n; ++i) b.parents[i].push_back((int)i - 1);
            break;
        case T_GRANDPARENT: // tx0 is a parent of tx1 only; tx1.. are parents of the last
            star(1, n - 1);
            b.parents[1].push_back(0);
            break;
        case T_TWO_CHILDREN:
            star(0, n - 2);
            for (size_t j = 0; j + 2 < n; ++j) b.parents[n - 1].push_back((int)j);
            break;
        case T_UNRELATED: { // the child misses one member
            size_t skip = r.below(n - 1);
            for (size_t j = 0; j + 1 < n; ++j)
                if (j != skip) b.parents[n - 1].push_back((int)j);
            if (skip > 0 && r.coin()) b.parents[skip].push_back((int)r.below(skip)); // ... which may be a grandparent-only
            break;
        }
        }
        for (size_t i = 0; i < n; ++i)
            if (!b.parents[i].empty() && r.chance(1, 5)) b.want_ext[i] = 1;
        SetFees(b, (int)op.arg(5), r);
        if (!b.Prepare()) { ctx.evf("dag package: no spendable coin"); return; }
        if (mut == M_CONFLICT_CHILD && n >= 2) {
            // the last transaction also spends an external input of an earlier member: internal conflict, topology untouched
            for (size_t j = 0; j + 1 < n; ++j)
                if (!b.ext[j].empty()) { b.extra_ins[n - 1].push_back(b.ext[j][0]); break; }
        }
        if (!b.BuildAll()) { ctx.evf("dag package: build failed"); return; }
        std::vector<CTransactionRef> pkg = b.txs;
        ctx.probe("dag_package_built");

        // the mempool / chain state the package meets
        if (flags & DF_MEMPOOL_CONFLICT) {
            for (size_t j = 0; j < n; ++j) {
                if (b.ext[j].empty() || !b.ext[j][0].confirmed) continue;
                const Keyring& kr = Keys();
                CTransactionRef y = ms.MakeTx({b.ext[j][0]}, {CTxOut(0, kr.Spk(SK::P2WPKH, 3))}, r.coin() ? 300 : 30000, 0, 2, 0, {}, SigDefect::NONE, TS_SIMPLE);
                ms.SubmitTx(y, false, TS_SIMPLE);
                ctx.probe("mempool_conflict_planted");
                break;
            }
        }
        std::set<size_t> presubmitted;
        if (flags & DF_PRESUBMIT) {
            for (size_t j = 0; j < n; ++j)
                if ((op.arg(6) >> (j % 24)) & 1) {
                    SubmitRecord sr = ms.SubmitTx(pkg[j], false, TS_SIMPLE);
                    if (sr.result_type == MempoolAcceptResult::ResultType::VALID) presubmitted.insert(j);
                }
            if (!presubmitted.empty()) ctx.probe("members_presubmitted");
            if ((flags & DF_THEN_MINE) && !presubmitted.empty()) {
                ms.ExecOp(Op(MP_MINE, {100, 0, op.arg(0)}));
                ctx.probe("presubmitted_members_mined");
            }
        }
        if (flags & DF_TWIN_REPLACE) {
            size_t j = presubmitted.empty() ? r.below(n) : *std::next(presubmitted.begin(), r.below(presubmitted.size()));
            pkg[j] = WitnessTwin(pkg[j], r.next());
            ctx.probe("member_replaced_by_witness_twin");
        }
        // order / membership mutations
        switch (mut) {
        case M_SHUFFLE:
            for (size_t i = pkg.size(); i > 1; --i) std::swap(pkg[i - 1], pkg[r.below(i)]);
            break;
        case M_SWAP:
            if (pkg.size() >= 2) { size_t x = r.below(pkg.size()), y = r.below(pkg.size()); std::swap(pkg[x], pkg[y]); }
            break;
        case M_REVERSE: std::reverse(pkg.begin(), pkg.end()); break;
        case M_DUPLICATE: { CTransactionRef d = pkg[r.below(pkg.size())]; pkg.insert(pkg.begin() + r.below(pkg.size() + 1), d); break; }
        case M_TWIN_DUP: { size_t j = r.below(pkg.size()); CTransactionRef d = WitnessTwin(pkg[j], r.next()); pkg.insert(pkg.begin() + (r.coin() ? j : j + 1), d); break; }
        case M_CONFLICT_EXTRA: {
            for (size_t j = 0; j < n; ++j) {
                if (b.ext[j].empty()) continue;
                const Keyring& kr = Keys();
                CTransactionRef x = ms.MakeTx({b.ext[j][0]}, {CTxOut(0, kr.Spk(SK::P2TR, 1))}, 2000, 0, 2, 0, {}, SigDefect::NONE, TS_SIMPLE);
                pkg.insert(pkg.begin() + r.below(pkg.size()), x);
                break;
            }
            break;
        }
        default: break;
        }
        ms.SubmitPackage(pkg, flags & DF_TEST, PS_CHILD_WITH_PARENTS);
    }

    void DoReplay(const Op& op)
    {
        if (built.empty()) { ctx.evf("replay: nothing built yet"); return; }
        std::vector<CTransactionRef> pkg = built[op.mod(0, built.size())];
        Rng r(mix64((uint64_t)op.arg(3), 0x7265706c));
        switch (op.mod(1, 6)) {
        case 1:
            for (size_t i = pkg.size(); i > 1; --i) std::swap(pkg[i - 1], pkg[r.below(i)]);
            break;
        case 2:
            if (pkg.size() >= 2) pkg.erase(pkg.begin() + r.below(pkg.size()));
            break;
        case 3:
            if (pkg.size() >= 2) pkg.resize(1 + r.below(pkg.size() - 1));
            break;
        case 4: std::reverse(pkg.begin(), pkg.end()); break;
        case 5:
            if (pkg.size() > 2) pkg.erase(pkg.begin(), pkg.end() - 2);
            break;
        default: break;
        }
        ctx.probe("package_resubmitted");
        ms.SubmitPackage(pkg, op.arg(2) & 1, PS_CHILD_WITH_PARENTS);
    }

    void DoHeavy(const Op& op)
    {
        Rng r(mix64((uint64_t)op.arg(0), 0x68767921));
        const bool single = op.arg(5) & 1;
        size_t n = single ? 1 : (size_t)std::clamp<int64_t>(op.arg(1), 2, 6);
        const int64_t target = kMaxWeight + kHeavyDelta[op.mod(2, 12)];
        Builder b(*this, r);
        b.Init(n);
        for (size_t j = 0; j + 1 < n; ++j) b.parents[n - 1].push_back((int)j);
        static const int64_t cls[3] = {1000, 200, 5000};
        for (size_t i = 0; i < n; ++i) b.feerate[i] = cls[op.mod(4, 3)];
        if (single) {
            // a single transaction above the package weight limit (which is above the standard transaction weight)
            b.pad[0] = 100950 + (int)r.below(200);
        } else {
            // distribute the padding: at most 95000 bytes per transaction (keeps every member below the standard weight limit)
            int64_t total_pad = target / 4 - (int64_t)n * 160;
            for (size_t i = 0; i < n; ++i) {
                int64_t share = i + 1 == n ? total_pad : std::min<int64_t>(95000, r.range(total_pad / (int64_t)(n - i) / 2, total_pad / (int64_t)(n - i) * 3 / 2));
                share = std::clamp<int64_t>(share, 0, 95000);
                b.pad[i] = (int)share;
                total_pad -= share;
            }
        }
        if (!b.Prepare() || !b.BuildAll()) { ctx.evf("heavy package: no spendable coin"); return; }
        if (!single) {
            // tune the last transaction: OP_RETURN bytes count 4 weight units each, witness bytes 1
            for (int iter = 0; iter < 6; ++iter) {
                int64_t d = target - TotalWeight(b.txs);
                if (d >= 0 && d < 4) break;
                int64_t np = b.pad[n - 1] + (d >= 0 ? d / 4 : -((-d + 3) / 4));
                if (np < 1 || np > 99000) break;
                b.pad[n - 1] = (int)np;
                b.txs[n - 1] = b.BuildOne(n - 1);
            }
            int64_t d = target - TotalWeight(b.txs);
            if (d > 0 && d < 64) {
                for (int sz = 0; sz <= 64; ++sz) {
                    CMutableTransaction m(*b.txs[n - 1]);
                    m.vin[0].scriptWitness.stack.push_back(std::vector<unsigned char>((size_t)sz, 0x77));
                    std::vector<CTransactionRef> cand = b.txs;
                    cand[n - 1] = MakeTransactionRef(m);
                    if (TotalWeight(cand) == target) { b.txs = cand; ctx.probe("heavy_package_witness_tuned"); break; }
                }
            }
            if (TotalWeight(b.txs) == target) ctx.probe("heavy_package_on_target");
        }
        ctx.probe("heavy_package_built");
        ms.SubmitPackage(b.txs, op.arg(3) & 1, PS_CHILD_WITH_PARENTS);
    }

    void DoFill(const Op& op)
    {
        Rng r(mix64((uint64_t)op.arg(0), 0x66696c6c));
        const Keyring& kr = Keys();
        const int64_t rate = (op.arg(3) & 3) == 3 ? 5000 : 20000;
        const int64_t limit = ctx.knob("mempool_kb", 300000) * 1000, pct = std::clamp<int64_t>(op.arg(4, 90), 10, 100);
        auto full = [&] { return (int64_t)ms.pool().DynamicMemoryUsage() * 100 >= limit * pct; };
        int ncoins = (int)std::clamp<int64_t>(op.arg(1), 1, 10), len = (int)std::clamp<int64_t>(op.arg(2), 1, 9);
        std::vector<MempoolSim::Spendable> conf;
        for (auto& c : ms.FreeConfirmed())
            if (kr.Classify(c.coin.spk).kind != SK::TRUE_BARE) conf.push_back(c);
        size_t accepted = 0;
        for (int c = 0; c < ncoins && !conf.empty() && !full(); ++c) {
            size_t k = r.below(conf.size());
            MempoolSim::Spendable cur = conf[k];
            conf.erase(conf.begin() + k);
            for (int l = 0; l < len && !full(); ++l) {
                CTransactionRef tx = ms.MakeTx({cur}, {CTxOut(0, kr.Spk(r.coin() ? SK::P2WPKH : SK::P2TR, (int)r.below(N_KEYS)))}, rate, 0, 2, 0, {}, SigDefect::NONE, TS_CHAIN);
                SubmitRecord sr = ms.SubmitTx(tx, false, TS_CHAIN);
                if (sr.result_type != MempoolAcceptResult::ResultType::VALID) break;
                ++accepted;
                cur = MempoolSim::Spendable{COutPoint(tx->GetHash(), 0), RefCoin{tx->vout[0].nValue, tx->vout[0].scriptPubKey, 0, false}, false};
            }
        }
        if (accepted) ctx.probe("mempool_fill_txs", accepted);
    }

    /** A member that is accepted (or already in the mempool) and then removed again by a LATER member of the same package: X is in the
     *  mempool, A spends X, B double-spends X's input with a fee that replaces X together with A, C spends A and B. Submitted as
     *  [A, B, C]: whatever the per-transaction results say at the end must match the mempool (A is gone, C cannot be accepted). */
    void DoEvict(const Op& op)
    {
        Rng r(mix64((uint64_t)op.arg(0), 0x65766963));
        const Keyring& kr = Keys();
        std::vector<MempoolSim::Spendable> conf;
        for (auto& c : ms.FreeConfirmed())
            if (kr.Classify(c.coin.spk).kind != SK::TRUE_BARE && c.coin.value > 200000) conf.push_back(c);
        if (conf.size() < 2) return;
        auto take = [&] { size_t k = r.below(conf.size()); auto c = conf[k]; conf.erase(conf.begin() + k); return c; };
        const MempoolSim::Spendable cx = take(), cz = take();
        auto out = [&](CAmount v) { return CTxOut(v, kr.Spk(r.coin() ? SK::P2WPKH : SK::P2TR, (int)r.below(N_KEYS))); };
        auto spend_of = [&](const CTransactionRef& tx, uint32_t n) { return MempoolSim::Spendable{COutPoint(tx->GetHash(), n), RefCoin{tx->vout[n].nValue, tx->vout[n].scriptPubKey, 0, false}, false}; };
        CTransactionRef X = ms.MakeTx({cx}, {out(cx.coin.value / 2), out(0)}, 2000, 0, 2, 0, {}, SigDefect::NONE, TS_SIMPLE);
        if (ms.SubmitTx(X, false, TS_SIMPLE).result_type != MempoolAcceptResult::ResultType::VALID) return;
        CTransactionRef A = ms.MakeTx({spend_of(X, 0)}, {out(0)}, 3000, 0, 2, 0, {}, SigDefect::NONE, TS_CHAIN);
        const bool a_in_mempool = op.arg(1) & 1;
        if (a_in_mempool && ms.SubmitTx(A, false, TS_CHAIN).result_type != MempoolAcceptResult::ResultType::VALID) return;
        const CAmount fee_x = cx.coin.value - X->vout[0].nValue - X->vout[1].nValue, fee_a = X->vout[0].nValue - A->vout[0].nValue;
        CTransactionRef B = ms.MakeTx({cx, cz}, {out(0)}, 5000, fee_x + fee_a + 2000, 2, 0, {}, SigDefect::NONE, TS_CONFLICT);
        CTransactionRef C = ms.MakeTx({spend_of(A, 0), spend_of(B, 0)}, {out(0)}, 4000, 0, 2, 0, {}, SigDefect::NONE, TS_FANIN);
        ctx.probe("package_member_evicted_by_later_member_built");
        ms.SubmitPackage({A, B, C}, false, PS_CHILD_WITH_PARENTS);
        if (!ms.pool().exists(A->GetHash()) && ms.pool().exists(B->GetHash())) ctx.probe("package_member_replaced_by_later_member");
    }

    void Run()
    {
        ms.after_submit = [&](const SubmitRecord& r) {
            if (r.is_package) Oracle(r);
        };
        ms.Setup();
        for (const Op& op : ctx.plan.ops) {
            switch (op.kind) {
            case PK_DAG: DoDag(op); break;
            case PK_REPLAY: DoReplay(op); break;
            case PK_HEAVY: DoHeavy(op); break;
            case PK_FILL: DoFill(op); break;
            case PK_EVICT: DoEvict(op); break;
            default: ms.ExecOp(op); break;
            }
            if (op.kind >= PK_DAG) ms.cs.CheckAll(Describe(op).c_str());
            ctx.fingerprint(mix64(last_fp, (uint64_t)ms.TipIdx() * 1000003 + built.size()));
        }
        ms.Finish();
    }
};

void Run(Ctx& ctx)
{
    Sim s(ctx);
    s.Run();
}

Engine MakeEngine()
{
    Engine e;
    e.prop = "C29";
    e.name = "nodesim/mempool-packages";
    e.level = "exploration";
    e.gen = Gen;
    e.run = Run;
    e.describe = Describe;
    e.chunk = 1;
    e.quick_runs = 400;
    e.thorough_runs = 12000;
    e.quick_budget_s = 50;
    e.thorough_budget_s = 900;
    e.rule = "seeded mempool histories on a real regtest node (shared mempool workload, bias c29: 45% package submissions of 11 shapes, single transactions, prioritisation, blocks confirming part of the mempool, reorgs, "
             "clock jumps, per-run mempool size 45 kB..300 MB and cluster limits) plus 8-36 package operations of this engine per run: DAG packages of 1-28 transactions (7 topologies: child-with-parents tree, parents "
             "depending on each other, random DAG, chain, grandparent, two children, unrelated member; 8 mutations: none, shuffle, swap, reverse, duplicate, same-txid-different-witness duplicate, child spending a "
             "parent's input (internal conflict with intact topology), extra conflicting transaction; 6 fee modes incl. 0-fee / below-min-relay parents with a paying child; members pre-submitted to the mempool, "
             "pre-submitted and mined, conflicting with a planted mempool transaction, replaced by a different-witness twin; TRUC versions; test-accept), re-submissions of earlier packages (as is, shuffled, one member "
             "dropped, prefix, reversed, last two) after blocks and reorgs, and 2-6 transaction packages padded with OP_RETURN/witness bytes to total weight 404000 +{0,1,2,3,4,400,40000} -{1,3,4,4000} (and single "
             "transactions above 404000); one run in three is a 'trim' run (mempool limit 41-48 kB = the minimum the node accepts, filled to 70-97% with small high-feerate chains, then 0-fee/low-fee parents with "
             "a modestly paying child) so that the LimitMempoolSize call at the end of AcceptPackage evicts package members. Oracle after every ProcessNewPackage call, from an independent implementation of the rules (count <= 25; total weight <= 404000 for more than one transaction; no two members "
             "with the same txid; no two members spending the same prevout; no member spending an output of a member at the same or a later position; for submissions of more than one transaction some member spends an "
             "output of every other member): (1) a violated rule => no per-transaction result is reported and no member's mempool presence/witness changes; (2) no member is in the mempool afterwards while an in-package "
             "parent is neither in the mempool nor confirmed in the model chain; (3) for submissions, a reported VALID / MEMPOOL_ENTRY => that wtxid is in the mempool afterwards, DIFFERENT_WITNESS => its txid is, "
             "INVALID => that wtxid is not. non-trivial = at least one well-formed package was evaluated (results reported); distinct = distinct (violated-rule mask, size, per-member result/presence vector, tip, mempool "
             "size) fingerprints after an operation (first 64 per run).";
    e.real_components = {"MemPoolAccept::AcceptPackage / AcceptSubPackage / AcceptMultipleTransactionsInternal / SubmitPackage (validation.cpp)", "IsWellFormedPackage / IsTopoSortedPackage / IsConsistentPackage / IsChildWithParents (policy/packages.cpp)",
                         "CTxMemPool + TxGraph (check_ratio=1), LimitMempoolSize/TrimToSize, package RBF, TRUC and ephemeral-dust policy", "ChainstateManager, script interpreter and caches"};
    e.stub_components = {"peers / RPC (packages handed to ProcessNewPackage)", "wall clock (SetMockTime)", "ValidationSignals task runner (immediate)"};
    e.assumptions = {"'confirmed' is read from the RefChain model (UTXO of the tip, block contents of the active chain); the model is checked against the node by the C08 oracle after every operation",
                     "the child-with-parents rule is demanded of submissions only: the test-accept entry point (AcceptMultipleTransactionsAndCleanup) is documented to take any sorted conflict-free list",
                     "a package of exactly one transaction is exempt from the package weight limit (validation's documented choice: the per-transaction weight policy reports it); counted by probe single_tx_over_package_weight_evaluated",
                     "result <=> membership is checked for submissions; a test-accept result says nothing about membership"};
    e.expected_probes = {"malformed_count", "malformed_weight", "malformed_duplicate", "malformed_internal_conflict", "malformed_unsorted", "malformed_not_child_with_parents", "malformed_exactly_one_rule",
                         "count_exactly_25", "count_26", "weight_exactly_404000", "weight_limit_plus_1_to_4", "wellformed_package_evaluated", "whole_package_added", "partial_package_acceptance",
                         "result_valid", "result_mempool_entry", "result_different_witness", "result_invalid", "member_evicted_mempool_full", "two_or_more_members_evicted_mempool_full", "trim_during_package_raised_minfee", "package_meets_nonzero_mempool_minfee", "member_in_mempool_parent_confirmed", "member_and_parent_both_in_mempool",
                         "package_replaced_mempool_txs", "package_resubmitted", "package_test_accept", "mined_from_mempool", "mempool_reorg"};
    return e;
}
Engine g_engine = MakeEngine();
SIM_REGISTER_ENGINE(g_engine);

} // namespace
