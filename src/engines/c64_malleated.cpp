// C64 — a malleated copy of a transaction cannot censor the genuine one.
// peersim: one real node (chainstate + mempool + PeerManager/TxDownloadManager/orphanage/TxRequestTracker) with 2-5 scripted
// wtxid-relay peers, a chain G0 -> G1 -> G2 of 1-3 valid segwit transactions and, for each of them, seven kinds of same-txid
// copies whose witness is invalid, stripped, partially stripped, padded, non-standard, oversized or carries an annex.
// The simulator interleaves announcements, unsolicited deliveries, getdata answers (honest, malleated, notfound, silence),
// disconnects, clock steps past the request timeout, blocks and reorgs (they reset the reject filters). A TWIN node (a bare
// SimNode that gets the same blocks and only the genuine transactions) decides what "valid" means at every moment.
// After the last fault a fresh honest wtxid-relay peer announces the genuine transactions (all of them, or only the deepest
// child so that the ancestors have to be fetched by txid): the node has to ask for them within the tracker's delay bound
// and has to accept them iff the twin does.
#include "../core/sim.h"
#include "../nodesim/chainsim.h"
#include "../nodesim/mempoolsim.h"
#include "../nodesim/peersim.h"

#include <consensus/validation.h>
#include <node/txdownloadman.h>
#include <node/txorphanage.h>
#include <policy/policy.h>
#include <protocol.h>
#include <streams.h>
#include <util/time.h>

#include <deque>

using namespace sim;
using namespace nodesim;

namespace {

enum { X_INV = 500, X_TX, X_ANSWER, X_CLOCK, X_TICK, X_BLOCK, X_REORG, X_DISCONNECT, X_CONNECT, X_END };
enum VKind { V_BADSIG = 0, V_STRIP, V_PARTIAL, V_PAD_SMALL, V_PAD_NONSTD, V_OVERSIZE, V_ANNEX, V_NKINDS };
const char* kVName[V_NKINDS] = {"bad-signature", "stripped", "partially-stripped", "padded", "padded-nonstandard", "oversized", "annex"};
const char* kAnswer[4] = {"honest", "malleated", "notfound", "silence"};
const int64_t kClockStep[9] = {1, 2, 3, 5, 10, 30, 59, 61, 125};
constexpr int MAX_PEERS = 7;
// the tracker's delay bound for a fresh announcement: non-preferred 2 s + txid/parent 2 s + overloaded 2 s, plus one request
// that may be in flight elsewhere (GETDATA_TX_INTERVAL)
constexpr int64_t kRequestBoundS = 60 + 2 + 2 + 2;
static_assert(node::GETDATA_TX_INTERVAL == std::chrono::seconds{60});
static_assert(node::NONPREF_PEER_TX_DELAY == std::chrono::seconds{2} && node::TXID_RELAY_DELAY == std::chrono::seconds{2} && node::OVERLOADED_PEER_TX_DELAY == std::chrono::seconds{2});

std::string Describe(const Op& op)
{
    char b[220];
    auto which = [&](size_t i) { return op.arg(i) <= 0 ? std::string("genuine") : std::string("copy:") + kVName[(op.arg(i) - 1) % V_NKINDS]; };
    switch (op.kind) {
    case X_INV: snprintf(b, sizeof b, "peer#%ld announces %s of G%ld by %s", (long)op.arg(0), which(2).c_str(), (long)op.arg(1), op.arg(3) ? "txid (MSG_TX)" : "wtxid (MSG_WTX)"); break;
    case X_TX: snprintf(b, sizeof b, "peer#%ld sends unsolicited tx: %s of G%ld", (long)op.arg(0), which(2).c_str(), (long)op.arg(1)); break;
    case X_ANSWER: snprintf(b, sizeof b, "peer#%ld answers its oldest open getdata entry: %s%s%s", (long)op.arg(0), kAnswer[op.mod(1, 4)], op.mod(1, 4) == 1 ? " copy:" : "", op.mod(1, 4) == 1 ? kVName[op.mod(2, V_NKINDS)] : ""); break;
    case X_CLOCK: snprintf(b, sizeof b, "clock += %lds, every peer ticks", (long)kClockStep[op.mod(0, 9)]); break;
    case X_TICK: snprintf(b, sizeof b, "msghand tick peer#%ld", (long)op.arg(0)); break;
    case X_BLOCK: snprintf(b, sizeof b, "block on the tip confirming genuine txs mask=%ld (0 = empty block)", (long)op.arg(0)); break;
    case X_REORG: snprintf(b, sizeof b, "reorg(depth=%ld, extra=%ld) with empty blocks", (long)op.arg(0), (long)op.arg(1)); break;
    case X_DISCONNECT: snprintf(b, sizeof b, "FAULT peer#%ld disconnects", (long)op.arg(0)); break;
    case X_CONNECT: snprintf(b, sizeof b, "a new %s wtxid-relay peer connects", op.arg(0) & 1 ? "outbound" : "inbound"); break;
    default: snprintf(b, sizeof b, "?");
    }
    return b;
}

Plan Gen(uint64_t seed, Tier tier)
{
    Rng rng(seed);
    Plan p;
    p.knobs["base"] = rng.range(108, 116);
    p.knobs["on_disk"] = 0;
    p.knobs["coins_cache_kb"] = 8192;
    p.knobs["batch_bytes"] = 16 << 20;
    p.knobs["mempool_kb"] = 300000;
    int npeers = (int)rng.range(2, 5);
    p.knobs["peers"] = npeers;
    for (int i = 0; i < npeers; ++i) p.knobs["p" + std::to_string(i) + "_out"] = rng.chance(1, 3);
    int depth = (int)rng.pick({20, 35, 45}) + 1;
    p.knobs["depth"] = depth;
    p.knobs["txseed"] = (int64_t)(rng.next() >> 16);
    p.knobs["feerate"] = rng.range(2000, 20000);
    p.knobs["epi_mode"] = rng.chance(1, 2);  // 0: announce every missing genuine tx by wtxid, parents first; 1: announce only the deepest child
    p.knobs["epi_out"] = rng.chance(1, 3);   // the fresh honest peer is outbound (preferred) or inbound
    p.knobs["epi_attack"] = 0;
    std::vector<uint32_t> w(X_END - X_INV, 0);
    auto W = [&](int k) -> uint32_t& { return w[k - X_INV]; };
    W(X_INV) = 10 + rng.below(20);
    W(X_TX) = 6 + rng.below(20);
    W(X_ANSWER) = 10 + rng.below(25);
    W(X_CLOCK) = 5 + rng.below(12);
    W(X_TICK) = 1 + rng.below(4);
    W(X_BLOCK) = rng.chance(1, 2) ? 1 + rng.below(4) : 0;
    W(X_REORG) = rng.chance(1, 3) ? 1 + rng.below(2) : 0;
    W(X_DISCONNECT) = rng.chance(1, 2) ? 1 + rng.below(3) : 0;
    W(X_CONNECT) = 1 + rng.below(2);
    static const uint32_t kGenuinePct[5] = {0, 5, 15, 30, 50};
    uint32_t genuine_pct = kGenuinePct[rng.below(5)];
    std::vector<uint32_t> vw = {30, 30, 8, 10, 12, 3, 8};
    if (rng.chance(1, 3)) vw[rng.below(V_NKINDS)] += 60; // one favourite kind
    std::vector<uint32_t> aw = {(uint32_t)rng.below(30), 10 + (uint32_t)rng.below(30), 5 + (uint32_t)rng.below(10), 5 + (uint32_t)rng.below(15)};
    // which genuine transaction the copies concentrate on
    std::vector<uint32_t> jw(depth, 10);
    jw[rng.below(depth)] += 30;
    int nops = (int)rng.range(12, tier == Tier::THOROUGH ? 90 : 45);
    int peers_now = npeers;
    for (int i = 0; i < nops; ++i) {
        Op op;
        op.kind = X_INV + (int)rng.pick(w);
        auto which = [&]() -> int64_t { return rng.chance(genuine_pct, 100) ? 0 : 1 + (int64_t)rng.pick(vw); };
        switch (op.kind) {
        case X_INV: op.a = {(int64_t)rng.below(peers_now), (int64_t)rng.pick(jw), which(), (int64_t)rng.chance(1, 20)}; break;
        case X_TX: op.a = {(int64_t)rng.below(peers_now), (int64_t)rng.pick(jw), which()}; break;
        case X_ANSWER: op.a = {(int64_t)rng.below(peers_now), (int64_t)rng.pick(aw), (int64_t)rng.pick(vw)}; break;
        case X_CLOCK: op.a = {(int64_t)rng.pick({10, 20, 20, 10, 5, 5, 5, 15, 5})}; break;
        case X_TICK: op.a = {(int64_t)rng.below(peers_now)}; break;
        case X_BLOCK: op.a = {(int64_t)(rng.chance(1, 2) ? 0 : rng.below(8))}; break;
        case X_REORG: op.a = {(int64_t)rng.range(1, 3), (int64_t)rng.range(1, 2)}; break;
        case X_DISCONNECT: op.a = {(int64_t)rng.below(peers_now)}; break;
        case X_CONNECT: op.a = {(int64_t)rng.chance(1, 3)}; if (peers_now < MAX_PEERS) ++peers_now; break;
        }
        p.ops.push_back(op);
    }
    p.knobs["epi_attack"] = rng.chance(1, 2); // drawn last
    return p;
}

/** One same-txid copy of `g` with a different witness that cannot be valid. nullptr if `g` has no witness. */
CTransactionRef MakeCopy(const CTransaction& g, int kind)
{
    CMutableTransaction m(g);
    std::vector<size_t> wi;
    for (size_t i = 0; i < m.vin.size(); ++i)
        if (!m.vin[i].scriptWitness.IsNull()) wi.push_back(i);
    if (wi.empty()) return nullptr;
    auto& st0 = m.vin[wi[0]].scriptWitness.stack;
    auto flip = [](std::vector<unsigned char>& it, unsigned char bit) { if (it.empty()) it.push_back(bit); else it[it.size() / 2] ^= bit; };
    switch (kind) {
    case V_BADSIG: flip(st0.front(), 0x10); break;
    case V_STRIP: for (auto& in : m.vin) in.scriptWitness.SetNull(); break;
    case V_PARTIAL:
        if (wi.size() >= 2) m.vin[wi.back()].scriptWitness.SetNull();
        else flip(st0.back(), 0x01);
        break;
    case V_PAD_SMALL: st0.insert(st0.begin(), std::vector<unsigned char>{0x01}); break;
    case V_PAD_NONSTD: st0.insert(st0.begin(), std::vector<unsigned char>(200, 0x42)); break; // > MAX_STANDARD_P2WSH_STACK_ITEM_SIZE / MAX_STANDARD_TAPSCRIPT_STACK_ITEM_SIZE
    case V_OVERSIZE: st0.insert(st0.begin(), 800, std::vector<unsigned char>(510, 0x33)); break; // weight > MAX_STANDARD_TX_WEIGHT
    case V_ANNEX: st0.push_back(std::vector<unsigned char>{0x50, 0x01, 0x02}); break;
    }
    return MakeTransactionRef(std::move(m));
}

struct Sim {
    Ctx& ctx;
    MempoolSim ms;
    std::unique_ptr<SimNode> twin;
    std::unique_ptr<NetNode> net;
    size_t twin_blocks_given{1};

    struct Genuine {
        CTransactionRef tx;
        Txid txid;
        Wtxid wtxid;
        std::vector<CTransactionRef> copies; // by VKind (nullptr where not applicable)
        std::set<int> in_blocks;             // model block indices that contain it
        uint32_t copies_processed{0};        // bit per VKind: the node processed that copy at least once
        bool copy_since_reset{false};
        bool delivered_genuine{false};
        int req_epilogue{0};                 // getdata entries naming it seen after the last fault
        bool delivered_epilogue{false};      // the fresh honest peer delivered it after the last fault
        int req_total{0};
    };
    std::vector<Genuine> G;
    struct Open { CInv inv; };
    struct PState { std::deque<Open> open; };
    std::vector<PState> ps;
    bool epilogue{false};
    int honest_idx{-1};
    std::vector<char> stripped_orphan_at_epilogue; //!< per genuine tx: a witness-stripped copy of it was in the orphanage when the honest phase began
    int variants_processed{0};

    explicit Sim(Ctx& c) : ctx(c), ms(c, MempoolSimConfig{.check_consistency = false}) {}

    // ------------------------------------------------------------------------------------------ observation helpers
    bool NodeHas(int j) { return ms.pool().exists(G[j].wtxid); }
    bool TwinHas(int j) { return twin->pool().exists(G[j].wtxid); }
    bool Confirmed(int j)
    {
        int tip = ms.TipIdx();
        for (int b : G[j].in_blocks)
            if (b == tip || ms.cs.ref->IsAncestor(b, tip)) return true;
        return false;
    }
    bool InOrphanage(const Wtxid& w)
    {
        for (const auto& o : net->peerman->GetOrphanTransactions())
            if (o.tx->GetWitnessHash() == w) return true;
        return false;
    }
    /** (j, kind) of a hash: kind -1 = genuine wtxid, -2 = txid, >= 0 = wtxid of that copy */
    bool Lookup(const uint256& h, int& j, int& kind)
    {
        for (j = 0; j < (int)G.size(); ++j) {
            if (G[j].wtxid.ToUint256() == h) { kind = -1; return true; }
            if (G[j].txid.ToUint256() == h) { kind = -2; return true; }
            for (kind = 0; kind < V_NKINDS; ++kind)
                if (G[j].copies[kind] && G[j].copies[kind]->GetWitnessHash().ToUint256() == h) return true;
        }
        return false;
    }
    /** which copies (bit per kind) of each genuine transaction the node has processed so far */
    std::string Masks()
    {
        std::string m;
        char b[32];
        for (int j = 0; j < (int)G.size(); ++j) { snprintf(b, sizeof b, "%sG%d:%02x", j ? " " : "", j, G[j].copies_processed); m += b; }
        return m;
    }
    SimPeer* Peer(const Op& op, size_t arg)
    {
        if (net->peers.empty()) return nullptr;
        SimPeer& p = *net->peers[op.mod(arg, net->peers.size())];
        return p.finalized ? nullptr : &p;
    }

    /** Read what the node sent to this peer: remember getdata entries for transactions, drop the rest. */
    void Collect(SimPeer& p)
    {
        for (auto& m : p.inbox) {
            if (m.type != NetMsgType::GETDATA) continue;
            std::vector<CInv> invs;
            try {
                DataStream ds{m.payload};
                ds >> invs;
            } catch (const std::exception&) {
                ctx.failf("harness-undecodable-getdata", "peer#%d", p.idx);
            }
            for (const CInv& inv : invs) {
                if (!inv.IsGenTxMsg()) continue;
                ps[p.idx].open.push_back({inv});
                int j, kind;
                if (Lookup(inv.hash, j, kind) && kind < 0) {
                    ++G[j].req_total;
                    if (epilogue) ++G[j].req_epilogue;
                    ctx.probe(kind == -1 ? "getdata_genuine_by_wtxid" : "getdata_genuine_by_txid");
                    if (G[j].copies_processed) ctx.probe("genuine_requested_after_copy_was_processed");
                    ctx.evf("  node -> peer#%d getdata %s G%d", p.idx, kind == -1 ? "wtxid" : "txid", j);
                } else if (Lookup(inv.hash, j, kind)) {
                    ctx.probe("getdata_copy_by_wtxid");
                    ctx.evf("  node -> peer#%d getdata wtxid of copy:%s G%d", p.idx, kVName[kind], j);
                }
            }
        }
        p.inbox.clear();
    }

    void TickPeer(SimPeer& p, int max_msgs = 8)
    {
        if (p.finalized) return;
        net->Tick(p, max_msgs);
        Collect(p);
        if (p.node->fDisconnect.load() && !p.finalized) {
            // the node dropped the peer (timeouts after long clock steps): treated like any other disconnect
            net->Disconnect(p);
            ps[p.idx].open.clear();
            ctx.probe("node_disconnected_peer");
            ctx.evf("  node disconnected peer#%d", p.idx);
        }
    }
    void SettleAll(int rounds = 2)
    {
        for (int r = 0; r < rounds; ++r)
            for (auto& p : net->peers) TickPeer(*p, 4);
    }

    // ------------------------------------------------------------------------------------------ twin
    void TwinBlocks()
    {
        for (; twin_blocks_given < ms.cs.ref->blocks.size(); ++twin_blocks_given) {
            if (!ms.cs.delivered[twin_blocks_given]) break; // built but not delivered yet: never happens with our ops
            twin->ProcessBlock(ms.cs.ref->blocks[twin_blocks_given].block, true);
        }
        if (twin->TipHash() != ms.node().TipHash()) ctx.failf("harness-twin-chain-diverged", "twin tip h=%d, node tip h=%d", twin->Height(), ms.node().Height());
    }
    MempoolAcceptResult TwinSubmit(const CTransactionRef& tx)
    {
        LOCK(cs_main);
        return twin->cm().ProcessTransaction(tx, false);
    }
    /** Keep the twin's mempool equal to the node's as far as the genuine transactions go (the twin never sees a copy). */
    void TwinSync(const char* where)
    {
        for (int j = 0; j < (int)G.size(); ++j) {
            if (NodeHas(j) && !TwinHas(j)) {
                auto r = TwinSubmit(G[j].tx);
                twin->DrainSignals();
                if (r.m_result_type != MempoolAcceptResult::ResultType::VALID)
                    ctx.failf("node-accepted-what-twin-rejects", "%s: G%d is in the node's mempool but the twin (same chain, same mempool, never saw a copy) rejects it: %s", where, j, r.m_state.ToString().c_str());
            }
        }
        for (int j = 0; j < (int)G.size(); ++j)
            if (TwinHas(j) && !NodeHas(j)) ctx.failf("genuine-tx-missing-from-mempool", "%s: G%d is in the twin's mempool but not in the node's", where, j);
        // a copy must never be what sits in the mempool
        for (int j = 0; j < (int)G.size(); ++j)
            if (!NodeHas(j) && ms.pool().exists(G[j].txid)) ctx.failf("copy-accepted-into-mempool", "%s: the mempool holds txid of G%d with a witness other than the genuine one", where, j);
    }

    // ------------------------------------------------------------------------------------------ deliveries
    void SendTx(SimPeer& p, const CTransactionRef& tx) { net->SendMsg(p, NetMsgType::TX, TX_WITH_WITNESS(*tx)); }

    void DeliverCopy(SimPeer& p, int j, int kind, const char* how)
    {
        const CTransactionRef& c = G[j].copies[kind];
        if (!c) return;
        SendTx(p, c);
        TickPeer(p);
        SettleAll();
        ++variants_processed;
        G[j].copies_processed |= 1u << kind;
        G[j].copy_since_reset = true;
        ctx.probe((std::string("copy_processed_") + kVName[kind]).c_str());
        bool orphaned = InOrphanage(c->GetWitnessHash());
        if (orphaned) ctx.probe("copy_kept_as_orphan");
        if (orphaned && kind == V_STRIP) ctx.probe("stripped_copy_kept_as_orphan");
        if (NodeHas(j)) ctx.probe("copy_arrives_while_genuine_in_mempool");
        ctx.evf("%s: peer#%d delivers copy:%s of G%d -> orphanage=%d pool=%lu", how, p.idx, kVName[kind], j, (int)orphaned, ms.pool().size());
        TwinSync("after a copy was processed");
    }

    /** A genuine transaction arrives: "validated and accepted if it is valid", valid = what the twin says. */
    void DeliverGenuine(SimPeer& p, int j, const char* how)
    {
        const bool had = NodeHas(j);
        SendTx(p, G[j].tx);
        TickPeer(p);
        SettleAll();
        G[j].delivered_genuine = true;
        ctx.probe("genuine_delivered");
        if (Confirmed(j)) { ctx.evf("%s: peer#%d delivers G%d (already confirmed)", how, p.idx, j); ctx.probe("genuine_delivered_when_confirmed"); return; }
        TwinSync("after a genuine transaction was delivered");
        if (NodeHas(j)) {
            if (!had) {
                ctx.probe("genuine_accepted");
                if (G[j].copies_processed) { ctx.probe("genuine_accepted_after_copy_was_processed"); ctx.nontrivial = true; }
                if (G[j].copy_since_reset) ctx.probe("genuine_accepted_after_copy_without_filter_reset");
            }
            ctx.evf("%s: peer#%d delivers G%d -> in mempool (was=%d)", how, p.idx, j, (int)had);
            return;
        }
        auto r = TwinSubmit(G[j].tx);
        twin->DrainSignals();
        if (r.m_result_type == MempoolAcceptResult::ResultType::VALID)
            ctx.failf("genuine-tx-not-accepted", "%s: peer#%d delivered the genuine G%d (copies processed before, bit per kind: %s); the twin node, which never saw a copy, accepts it, the node does not have it in its mempool", how, p.idx, j, Masks().c_str());
        const bool missing = r.m_state.GetResult() == TxValidationResult::TX_MISSING_INPUTS;
        const bool kept = InOrphanage(G[j].wtxid);
        ctx.evf("%s: peer#%d delivers G%d -> twin says %s, orphanage=%d", how, p.idx, j, r.m_state.GetRejectReason().c_str(), (int)kept);
        if (missing) {
            // validated = recognised as an orphan and kept for when the parent shows up; silently dropping it would be "ignored as already known"
            if (!kept) ctx.failf("genuine-orphan-not-kept", "%s: peer#%d delivered the genuine G%d while its parent is unknown; the node neither accepted it nor kept it as an orphan (copies processed before, bit per kind: %s)", how, p.idx, j, Masks().c_str());
            ctx.probe("genuine_kept_as_orphan");
            if (G[j].copies_processed) { ctx.probe("genuine_kept_as_orphan_after_copy"); ctx.nontrivial = true; }
        } else {
            ctx.probe("genuine_invalid_for_twin_too");
        }
    }

    /** Honest phase: the fresh peer has every genuine transaction and serves it; the old peers no longer misbehave, they simply
     *  do not have anything (immediate notfound), so that a request parked with one of them cannot outlast the delay bound. */
    void AnswerHonestly(SimPeer& p, const char* how)
    {
        std::deque<Open> open;
        open.swap(ps[p.idx].open);
        for (auto& o : open) {
            if (p.finalized) break;
            int j, kind;
            if (!Lookup(o.inv.hash, j, kind)) continue;
            if (kind < 0 && p.idx == honest_idx) { G[j].delivered_epilogue = true; DeliverGenuine(p, j, how); }
            else {
                std::vector<CInv> nf{o.inv};
                net->SendMsg(p, NetMsgType::NOTFOUND, nf);
                TickPeer(p);
                ctx.evf("peer#%d notfound (honest phase)", p.idx);
            }
        }
    }

    // ------------------------------------------------------------------------------------------ chain
    int MineOwn(int parent, const std::vector<int>& include)
    {
        const RefBlock& P = ms.cs.ref->blocks[parent];
        std::vector<CTransactionRef> txs;
        for (int j : include) txs.push_back(G[j].tx);
        BlockExtras ex;
        ex.cb_extranonce = (uint32_t)(++ms.cs.cb_nonce);
        int64_t time = std::max<int64_t>(ms.cs.ref->MTP(parent) + 1, ms.cs.now);
        auto block = BuildBlock(P.hash, P.height + 1, time, txs, RefSubsidy(P.height + 1, ms.cs.ref->halving_interval), ex, ms.node().params->GetConsensus());
        BlockLabel label;
        int idx = ms.cs.AddBlock(block, parent, label);
        if (ms.cs.ref->blocks[idx].verdict != Verdict::VALID) ctx.failf("harness-own-block-invalid", "block #%d: %s", idx, ms.cs.ref->blocks[idx].reason.c_str());
        for (int j : include) G[j].in_blocks.insert(idx);
        return idx;
    }
    void AfterChainEvent(const char* where)
    {
        TwinBlocks();
        SettleAll();
        for (auto& g : G) g.copy_since_reset = false;
        ms.cs.CheckAll(where);
        TwinSync(where);
    }

    uint64_t Fingerprint()
    {
        uint64_t h = 0x64;
        for (int j = 0; j < (int)G.size(); ++j) h = mix64(h, (uint64_t)NodeHas(j) | (uint64_t)Confirmed(j) << 1 | (uint64_t)G[j].copies_processed << 2 | (uint64_t)(G[j].req_total > 0) << 12 | (uint64_t)G[j].delivered_genuine << 13);
        for (auto& p : net->peers) h = mix64(h, (uint64_t)p->finalized | ps[p->idx].open.size() << 1);
        h = mix64(h, net->peerman->GetOrphanTransactions().size());
        return mix64(h, (uint64_t)ms.TipIdx());
    }

    void AddPeer(bool outbound)
    {
        PeerOpts o;
        o.conn_type = outbound ? ConnectionType::OUTBOUND_FULL_RELAY : ConnectionType::INBOUND;
        o.wtxidrelay = true;
        ps.emplace_back();
        SimPeer& p = net->AddPeer(o);
        if ((int)ps.size() != p.idx + 1) ctx.failf("harness-peer-index", "%d", p.idx);
        TickPeer(p, 4);
        ps[p.idx].open.clear();
    }

    // ------------------------------------------------------------------------------------------ setup
    bool BuildGenuine()
    {
        const Keyring& kr = Keys();
        Rng r(mix64((uint64_t)ctx.knob("txseed", 1), 0x633634));
        const int tip_h = ms.cs.ref->blocks[ms.TipIdx()].height;
        std::vector<MempoolSim::Spendable> seg, other;
        for (auto& s : ms.FreeConfirmed()) {
            if (s.coin.height > tip_h - 8) continue; // deep enough that no reorg of this run touches it
            SK k = kr.Classify(s.coin.spk).kind;
            if (k == SK::P2WPKH || k == SK::P2TR || k == SK::TRUE_WSH || k == SK::P2SH_P2WPKH) seg.push_back(s);
            else if (k == SK::P2PKH) other.push_back(s);
        }
        const int depth = (int)std::clamp<int64_t>(ctx.knob("depth", 2), 1, 3);
        if ((int)seg.size() < 1) return false;
        auto take = [&](std::vector<MempoolSim::Spendable>& v) { size_t i = r.below(v.size()); auto s = v[i]; v.erase(v.begin() + i); return s; };
        static const SK kChainKinds[4] = {SK::P2WPKH, SK::P2TR, SK::TRUE_WSH, SK::P2SH_P2WPKH};
        const int next_h = tip_h + 1;
        for (int j = 0; j < depth; ++j) {
            std::vector<MempoolSim::Spendable> ins;
            if (j == 0) ins.push_back(take(seg));
            else {
                const CTransaction& par = *G[j - 1].tx;
                ins.push_back({COutPoint(par.GetHash(), 0), RefCoin{par.vout[0].nValue, par.vout[0].scriptPubKey, next_h, false}, false});
            }
            // a second, confirmed input in some runs (segwit: the partially stripped copy differs; legacy: mixed transaction)
            int second = (int)r.below(4);
            if (second == 1 && !seg.empty()) ins.push_back(take(seg));
            else if (second == 2 && !other.empty()) ins.push_back(take(other));
            CAmount in_sum = ms.InputSum(ins);
            std::vector<CTxOut> outs{CTxOut(in_sum / 2, kr.Spk(kChainKinds[r.below(4)], (int)r.below(N_KEYS))), CTxOut(0, kr.Spk(SK::P2WPKH, (int)r.below(N_KEYS)))};
            Genuine g;
            g.tx = ms.MakeTx(ins, outs, ctx.knob("feerate", 3000), 0, 2, 0, {}, SigDefect::NONE, TS_SIMPLE);
            if (!ms.made[g.tx->GetHash()].scripts_ok || !g.tx->HasWitness()) return false;
            g.txid = g.tx->GetHash();
            g.wtxid = g.tx->GetWitnessHash();
            g.copies.resize(V_NKINDS);
            for (int k = 0; k < V_NKINDS; ++k) {
                g.copies[k] = MakeCopy(*g.tx, k);
                if (g.copies[k] && (g.copies[k]->GetHash() != g.txid || g.copies[k]->GetWitnessHash() == g.wtxid)) ctx.failf("harness-copy-not-a-copy", "G%d kind %s", j, kVName[k]);
            }
            G.push_back(std::move(g));
        }
        return true;
    }

    void StartTwin()
    {
        NodeOpts o;
        o.dir = RunDir() + "/twin";
        o.coins_cache_bytes = (uint64_t)ctx.knob("coins_cache_kb", 8192) * 1024;
        o.batch_write_bytes = (uint64_t)ctx.knob("batch_bytes", 16 << 20);
        o.with_mempool = true;
        o.mempool_check_ratio = 1;
        o.check_blocks = 0;
        o.check_level = 4;
        o.mempool_max_bytes = ms.node().opts.mempool_max_bytes;
        o.mempool_expiry_s = ms.node().opts.mempool_expiry_s;
        o.require_standard = ms.node().opts.require_standard;
        o.limits = ms.node().opts.limits;
        twin = std::make_unique<SimNode>(o);
        if (!twin->Start()) ctx.failf("harness-twin-start-failed", "%s", twin->last_error.c_str());
        TwinBlocks();
    }

    // ------------------------------------------------------------------------------------------ main phase
    void Exec(const Op& op)
    {
        switch (op.kind) {
        case X_INV: {
            SimPeer* p = Peer(op, 0);
            if (!p) break;
            int j = (int)op.mod(1, G.size());
            int64_t v = op.arg(2);
            uint256 h;
            bool by_txid = op.arg(3) & 1;
            if (by_txid) h = G[j].txid.ToUint256();
            else if (v <= 0) h = G[j].wtxid.ToUint256();
            else {
                const auto& c = G[j].copies[(v - 1) % V_NKINDS];
                if (!c) break;
                h = c->GetWitnessHash().ToUint256();
            }
            std::vector<CInv> inv{CInv(by_txid ? MSG_TX : MSG_WTX, h)};
            net->SendMsg(*p, NetMsgType::INV, inv);
            TickPeer(*p);
            ctx.evf("peer#%d inv %s G%d %s", p->idx, by_txid ? "txid" : "wtxid", j, v <= 0 ? "genuine" : kVName[(v - 1) % V_NKINDS]);
            ctx.probe(by_txid ? "inv_by_txid_from_wtxid_peer" : v <= 0 ? "inv_genuine_wtxid" : "inv_copy_wtxid");
            break;
        }
        case X_TX: {
            SimPeer* p = Peer(op, 0);
            if (!p) break;
            int j = (int)op.mod(1, G.size());
            if (op.arg(2) <= 0) DeliverGenuine(*p, j, "unsolicited");
            else DeliverCopy(*p, j, (int)((op.arg(2) - 1) % V_NKINDS), "unsolicited");
            break;
        }
        case X_ANSWER: {
            SimPeer* p = Peer(op, 0);
            if (!p || ps[p->idx].open.empty()) break;
            Open o = ps[p->idx].open.front();
            ps[p->idx].open.pop_front();
            int j, kind;
            if (!Lookup(o.inv.hash, j, kind)) break;
            int mode = (int)op.mod(1, 4);
            switch (mode) {
            case 0:
                if (kind < 0) DeliverGenuine(*p, j, "getdata answer");
                else DeliverCopy(*p, j, kind, "getdata answer");
                break;
            case 1: {
                int vk = (int)op.mod(2, V_NKINDS);
                if (!G[j].copies[vk]) break;
                if (kind < 0) { ctx.probe("genuine_request_answered_with_copy"); ctx.fault("malleated_answer"); }
                DeliverCopy(*p, j, vk, "malleated getdata answer");
                break;
            }
            case 2: {
                std::vector<CInv> nf{o.inv};
                net->SendMsg(*p, NetMsgType::NOTFOUND, nf);
                TickPeer(*p);
                ctx.fault("notfound_answer");
                ctx.evf("peer#%d notfound", p->idx);
                break;
            }
            default:
                ctx.fault("request_ignored");
                ctx.evf("peer#%d ignores a request", p->idx);
                break;
            }
            break;
        }
        case X_CLOCK: {
            int64_t dt = kClockStep[op.mod(0, 9)];
            bool pending = false;
            for (auto& s : ps) pending |= !s.open.empty();
            ms.cs.now += dt;
            SetMockTime(std::chrono::seconds{ms.cs.now});
            SettleAll(1);
            if (dt >= 60 && pending) ctx.fault("clock_past_request_timeout");
            ctx.evf("clock+%ld", (long)dt);
            break;
        }
        case X_TICK: {
            SimPeer* p = Peer(op, 0);
            if (!p) break;
            TickPeer(*p, 2);
            ctx.evf("tick peer#%d", p->idx);
            break;
        }
        case X_BLOCK: {
            std::vector<int> include;
            for (int j = 0; j < (int)G.size(); ++j) {
                if (!((op.arg(0) >> j) & 1) || Confirmed(j)) continue;
                bool parent_ok = j == 0 || Confirmed(j - 1) || std::find(include.begin(), include.end(), j - 1) != include.end();
                if (parent_ok) include.push_back(j);
            }
            int idx = MineOwn(ms.TipIdx(), include);
            ms.cs.Deliver(idx, true);
            if (ms.TipIdx() != idx) ctx.failf("harness-own-block-not-connected", "block #%d", idx);
            ctx.probe(include.empty() ? "empty_block_resets_filters" : "block_confirms_genuine");
            AfterChainEvent("after a block");
            break;
        }
        case X_REORG: {
            int tip = ms.TipIdx();
            int depth = (int)std::clamp<int64_t>(op.arg(0), 1, 3);
            int fork = ms.cs.ref->Ancestor(tip, std::max(0, ms.cs.ref->blocks[tip].height - depth));
            int len = ms.cs.ref->blocks[tip].height - ms.cs.ref->blocks[fork].height + (int)std::clamp<int64_t>(op.arg(1), 1, 2);
            int parent = fork;
            for (int i = 0; i < len; ++i) {
                parent = MineOwn(parent, {});
                ms.cs.Deliver(parent, true);
            }
            if (ms.TipIdx() != parent) ctx.failf("harness-reorg-not-connected", "branch tip #%d", parent);
            ctx.probe("reorg");
            bool unconfirmed_again = false;
            for (int j = 0; j < (int)G.size(); ++j)
                if (!G[j].in_blocks.empty() && !Confirmed(j)) unconfirmed_again = true;
            if (unconfirmed_again) ctx.probe("reorg_unconfirms_genuine");
            AfterChainEvent("after a reorg");
            break;
        }
        case X_DISCONNECT: {
            SimPeer* p = Peer(op, 0);
            if (!p) break;
            if (!ps[p->idx].open.empty()) { ctx.fault("disconnect_mid_request"); ctx.probe("disconnect_mid_request"); }
            else ctx.fault("peer_disconnect");
            net->Disconnect(*p);
            ps[p->idx].open.clear();
            SettleAll(1);
            ctx.evf("peer#%d disconnects", p->idx);
            break;
        }
        case X_CONNECT:
            if ((int)net->peers.size() >= MAX_PEERS) break;
            AddPeer(op.arg(0) & 1);
            ctx.evf("peer#%zu connects", net->peers.size() - 1);
            break;
        }
    }

    // ------------------------------------------------------------------------------------------ after the last fault
    /** Answer every open request (fresh peer: the transaction; old peers: notfound) until the node asks nothing more at this instant. */
    void AnswerAll()
    {
        for (int round = 0; round < 4 * MAX_PEERS; ++round) {
            bool any = false;
            for (auto& p : net->peers)
                if (!p->finalized && !ps[p->idx].open.empty()) { any = true; AnswerHonestly(*p, "honest getdata answer"); }
            SettleAll();
            if (!any) break;
        }
    }
    /** Advance the clock by `budget` seconds in small steps, nobody misbehaves any more. Stops early when `done()`. */
    template <typename F>
    void RunHonest(int64_t budget, F done)
    {
        static const int64_t steps[] = {1, 1, 1, 1, 1, 1, 2, 2, 5, 5, 10, 10, 10, 10, 10};
        int64_t used = 0;
        for (size_t i = 0; used < budget; ++i) {
            AnswerAll();
            if (done()) return;
            int64_t dt = std::min<int64_t>(steps[std::min<size_t>(i, std::size(steps) - 1)], budget - used);
            used += dt;
            ms.cs.now += dt;
            SetMockTime(std::chrono::seconds{ms.cs.now});
            SettleAll(1);
        }
        AnswerAll();
    }

    void Epilogue()
    {
        epilogue = true;
        SettleAll();
        for (auto& st : ps) st.open.clear(); // requests made before this point stay unanswered (they time out); later ones are answered honestly
        TwinSync("before the honest phase");
        AddPeer(ctx.knob("epi_out", 0) != 0);
        SimPeer& H = *net->peers.back();
        if (H.finalized) return;
        honest_idx = H.idx;
        const int mode = (int)ctx.knob("epi_mode", 0);
        stripped_orphan_at_epilogue.clear();
        for (auto& g : G) stripped_orphan_at_epilogue.push_back(InOrphanage(Wtxid::FromUint256(g.txid.ToUint256())));
        ctx.evf("honest phase: fresh peer#%d, mode %d", H.idx, mode);
        auto settled = [&](int j) { return NodeHas(j) || Confirmed(j); };
        auto announce = [&](int j) {
            std::vector<CInv> inv{CInv(MSG_WTX, G[j].wtxid.ToUint256())};
            net->SendMsg(H, NetMsgType::INV, inv);
            TickPeer(H);
            ctx.evf("honest peer#%d announces wtxid of G%d", H.idx, j);
        };
        /** G[j], whose parents are all confirmed or in the mempool, is still missing after the bound: why? */
        auto verdict = [&](int j, const char* how) {
            TwinSync("honest phase");
            auto r = TwinSubmit(G[j].tx);
            twin->DrainSignals();
            if (r.m_result_type != MempoolAcceptResult::ResultType::VALID) {
                // not acceptable for the twin either (cannot happen with the generated histories unless an ancestor failed first)
                ctx.probe("epilogue_genuine_invalid_for_twin_too");
                return;
            }
            if (G[j].req_epilogue == 0)
                ctx.failf("genuine-tx-not-requested", "%s: the node never sent a getdata for the genuine G%d (valid per the twin; copies processed before, bit per kind: %s) within %lds of simulated time after the last fault", how, j, Masks().c_str(), (long)kRequestBoundS);
            ctx.failf("genuine-tx-not-accepted", "%s: the node requested the genuine G%d and an honest peer delivered it, the twin accepts it, the node does not have it in its mempool (copies processed before, bit per kind: %s)", how, j, Masks().c_str());
        };
        auto announce_each = [&] {
            for (int j = 0; j < (int)G.size(); ++j) {
                if (settled(j)) continue;
                if (G[j].copies_processed) ctx.nontrivial = true;
                announce(j);
                RunHonest(kRequestBoundS, [&] { return settled(j); });
                if (!settled(j)) verdict(j, "announce-by-wtxid");
                if (G[j].copies_processed) ctx.probe("epilogue_genuine_fetched_after_copy");
            }
        };
        std::string known_finding; // raised at the very end so that it masks no other clause
        if (mode == 0) {
            ctx.probe("epilogue_announce_each");
            announce_each();
        } else {
            // only the deepest missing child is announced; its ancestors have to be fetched by txid through orphan resolution.
            // Strict only if no GENUINE transaction sits in the orphanage already (a stale genuine orphan whose announcer went
            // silent stalls resolution in a way that has nothing to do with copies); otherwise fall back to announcing each.
            int k = -1;
            for (int j = 0; j < (int)G.size(); ++j)
                if (!settled(j)) k = j;
            bool genuine_orphan = false;
            for (int j = 0; j < (int)G.size(); ++j) genuine_orphan |= InOrphanage(G[j].wtxid);
            if (k >= 0 && !genuine_orphan) {
                ctx.probe("epilogue_child_first");
                int hops = 0;
                for (int j = 0; j <= k; ++j) {
                    if (!settled(j)) ++hops;
                    if (G[j].copies_processed) ctx.nontrivial = true;
                }
                for (int j = 0; j < k; ++j)
                    if (!settled(j) && G[j].copy_since_reset) ctx.probe("epilogue_parent_fetch_after_copy_without_filter_reset");
                announce(k);
                auto all = [&] { for (int j = 0; j <= k; ++j) if (!settled(j)) return false; return true; };
                if (ctx.knob("epi_attack", 0) && hops == 2 && k >= 1 && !settled(k - 1) && G[k - 1].copies[V_STRIP]) {
                    // One precisely timed last misbehaviour: right after the honest peer has delivered the child - while the request for its
                    // missing parent (by txid) is still waiting out its delay - an old peer pushes a witness-stripped copy of that parent.
                    // The parent's own inputs are known, so the copy is judged and refused (not an orphan); the pending request must survive.
                    RunHonest(kRequestBoundS, [&] { return G[k].delivered_epilogue || all(); });
                    if (G[k].delivered_epilogue && !all()) {
                        for (auto& pp : net->peers) {
                            if (pp->finalized || pp->idx == H.idx) continue;
                            DeliverCopy(*pp, k - 1, V_STRIP, "during the parent-request delay");
                            ctx.fault("stripped_copy_during_parent_request_delay");
                            break;
                        }
                    }
                }
                RunHonest(kRequestBoundS * hops, all);
                if (all()) {
                    if (hops > 1) ctx.probe("epilogue_parents_fetched_by_txid");
                } else {
                    // walk down from the announced child: the first missing transaction that the honest peer was never asked for (it answers
                    // every request at once, the old peers answer notfound at once) is where the chain broke
                    int brk = -1;
                    for (int j = k; j >= 0; --j) {
                        if (settled(j)) continue;
                        if (!G[j].delivered_epilogue) { brk = j; break; }
                    }
                    if (brk >= 0 && brk < k && stripped_orphan_at_epilogue[brk]) {
                        // A scenario of its own (own class, so that it can be told apart from every other way of losing the request): when the
                        // honest phase began a witness-stripped copy of G[brk] (its wtxid equals the txid) was held as an orphan because G[brk]'s
                        // own parent was unknown, and G[brk] was to be fetched by txid as the missing parent of its child. Whether G[brk] is
                        // valid is established by what follows: everything is announced by wtxid and has to be accepted iff the twin accepts it.
                        char buf[600];
                        snprintf(buf, sizeof buf, "parent-fetch-by-txid: an honest wtxid-relay peer delivered the child of the genuine G%d, which is unknown to the node (and valid: it was accepted once announced by wtxid), but the node never asked the honest peer for G%d (by txid, as the missing parent) within %lds per hop; a witness-stripped copy of G%d (wtxid == txid) was sitting in the orphanage when the child arrived", brk, brk, (long)kRequestBoundS, brk);
                        known_finding = buf;
                        ctx.probe("stripped_orphan_copy_suppressed_parent_fetch");
                        announce_each();
                    } else if (brk >= 0) {
                        // valid per the twin = the twin accepts the missing ancestors in order
                        TwinSync("honest phase");
                        bool valid = true;
                        for (int j = 0; j <= brk && valid; ++j) {
                            if (settled(j)) continue;
                            auto r = TwinSubmit(G[j].tx);
                            twin->DrainSignals();
                            valid = r.m_result_type == MempoolAcceptResult::ResultType::VALID;
                        }
                        if (valid)
                            ctx.failf("genuine-tx-not-requested", "%s: the node never asked the honest peer (the only one that has it; the others answer notfound) for the genuine G%d (valid per the twin; copies processed before, bit per kind: %s) within %lds per hop of simulated time after the last fault, although that peer %s", brk == k ? "announce-by-wtxid" : "parent-fetch-by-txid", brk, Masks().c_str(), (long)kRequestBoundS, brk == k ? "announced it" : "delivered its child");
                        ctx.probe("epilogue_genuine_invalid_for_twin_too");
                        return;
                    } else {
                        for (int j = 0; j <= k; ++j) {
                            bool parents = j == 0 || settled(j - 1);
                            if (!settled(j) && parents) { verdict(j, "parent-fetch-by-txid"); break; }
                        }
                    }
                }
            } else if (k >= 0) {
                ctx.probe("epilogue_child_first_fallback");
                announce_each();
            }
        }
        TwinSync("end of run");
        for (int j = 0; j < (int)G.size(); ++j)
            if (!settled(j) && (j == 0 || settled(j - 1))) verdict(j, "end of run");
        if (!known_finding.empty()) ctx.failf("parent-fetch-suppressed-by-stripped-orphan-copy", "%s", known_finding.c_str());
    }

    void Run()
    {
        ms.Setup();
        StartTwin();
        net = std::make_unique<NetNode>(ms.node(), PeerManager::Options{});
        if (!BuildGenuine()) {
            ctx.evf("no confirmed segwit coin to build on");
            ctx.probe("trivial_no_coins");
            net.reset();
            twin->Stop(true);
            ms.Finish();
            return;
        }
        int npeers = (int)std::clamp<int64_t>(ctx.knob("peers", 3), 1, 5);
        for (int i = 0; i < npeers; ++i) AddPeer(ctx.knob("p" + std::to_string(i) + "_out", 0) != 0);
        for (const Op& op : ctx.plan.ops) {
            if (op.kind < X_INV || op.kind >= X_END) continue;
            Exec(op);
            ctx.fingerprint(Fingerprint());
        }
        if (variants_processed) ctx.probe("run_with_copies");
        Epilogue();
        ctx.fingerprint(Fingerprint());
        ctx.sim_ms = (uint64_t)(ms.cs.now - ms.cs.start_time) * 1000;
        net.reset();
        twin->Stop(true);
        ms.Finish();
    }
};

void Run(Ctx& ctx)
{
    Sim s(ctx);
    s.Run();
}

Engine MakeEngine()
{
    Engine e;
    e.prop = "C64";
    e.name = "peersim/malleated-copy";
    e.level = "exploration";
    e.gen = Gen;
    e.run = Run;
    e.describe = Describe;
    e.chunk = 1;
    e.quick_runs = 800;
    e.thorough_runs = 14000;
    e.quick_budget_s = 50;
    e.thorough_budget_s = 900;
    e.rule = "each run = one real node with 2-5 (up to 7) scripted wtxid-relay peers (inbound or outbound), a chain of 1-3 valid segwit transactions G0->G1->G2 built on deep confirmed P2WPKH/P2TR/P2WSH/P2SH-P2WPKH coins, "
             "and for each of them 7 same-txid copies (signature bit flipped, all witnesses stripped, one witness stripped, stack padded, padded beyond the standard item size, padded beyond the standard weight, annex added). "
             "12-90 seeded events: inv by wtxid (or, rarely, by txid) of a genuine tx or of a copy, unsolicited tx of either, answers to the node's open getdata entries (honest, malleated copy, notfound, silence), "
             "clock steps of 1-125 s (past GETDATA_TX_INTERVAL), msghand ticks, blocks (empty or confirming genuine txs) and reorgs with empty blocks (both reset the reject filters), peers disconnecting (also mid-request) and connecting; "
             "copies of a child arrive while its parent is withheld (orphan copies). Oracle: (1) whenever a genuine tx is delivered and is not confirmed: it is in the mempool iff a twin node (same blocks, genuine txs only) accepts it; "
             "if the twin says missing-inputs the node must hold it as an orphan; the twin's mempool must equal the node's at every event; a copy is never what sits in the mempool. (2) after the last fault a fresh honest peer announces "
             "the missing genuine txs by wtxid (mode 0: each, parents first; mode 1: only the deepest child, ancestors have to be fetched by txid through orphan resolution) and serves every request at once, the old peers leave their earlier "
             "requests unanswered and answer new ones with notfound at once: the node must ask the fresh peer for each missing genuine tx within 66 s of simulated time per hop (60 s request timeout + 2+2+2 s delays), "
             "and at the end every genuine tx is confirmed or in the mempool. The one scenario in which the unchanged tree does not ask (a witness-stripped copy of the parent held as an orphan when its child arrives) has its own violation "
             "class, is raised only after every other clause of the run has been evaluated, and is a recorded known finding. "
             "non-trivial = the node processed at least one copy of a genuine tx before that tx was delivered/fetched; distinct = fingerprints of (mempool/confirmed/copies-processed/requested per genuine tx, open requests and liveness per peer, orphanage size, tip).";
    e.real_components = {"PeerManagerImpl (inv/tx/notfound/getdata handling, orphan reconsideration)", "TxDownloadManagerImpl (reject filters, AlreadyHaveTx, MempoolRejectedTx, orphan resolution)", "TxRequestTracker, TxOrphanage", "MemPoolAccept (PreChecks, PolicyScriptChecks incl. TX_WITNESS_STRIPPED detection), CTxMemPool", "validation (blocks, reorgs, mempool update on reorg)", "V1 transport framing of incoming messages"};
    e.stub_components = {"sockets (outgoing messages captured through the CaptureMessage seam)", "net/msghand threads (their loop bodies are simulator events)", "remote peers (scripted)", "clock (SetMockTime)", "twin node = second SimNode without P2P layer"};
    e.assumptions = {"'valid' is decided by the twin node at the moment of the check; the twin's mempool is kept equal to the node's for the genuine transactions",
                     "a genuine transaction whose parent is unknown counts as 'validated' if it is held in the orphanage afterwards (observed through PeerManager::GetOrphanTransactions)",
                     "bounded liveness is checked only in the final honest phase, in simulated seconds; mode 1 is strict only when no genuine transaction is already an orphan at that point (a genuine orphan whose announcer stays silent about the parent stalls orphan resolution without any copy being involved)",
                     "all copies are invalid or non-standard by construction; a copy with a different VALID witness is outside this engine (it would legitimately occupy the txid)"};
    e.expected_probes = {"copy_processed_bad-signature", "copy_processed_stripped", "copy_processed_padded-nonstandard", "copy_processed_oversized", "copy_processed_annex", "copy_kept_as_orphan", "stripped_copy_kept_as_orphan",
                         "genuine_accepted_after_copy_was_processed", "genuine_accepted_after_copy_without_filter_reset", "genuine_kept_as_orphan_after_copy", "genuine_requested_after_copy_was_processed",
                         "getdata_genuine_by_txid", "genuine_request_answered_with_copy", "empty_block_resets_filters", "reorg_unconfirms_genuine", "disconnect_mid_request", "epilogue_genuine_fetched_after_copy",
                         "epilogue_parents_fetched_by_txid", "epilogue_parent_fetch_after_copy_without_filter_reset"};
    return e;
}
Engine g_engine = MakeEngine();
SIM_REGISTER_ENGINE(g_engine);

} // namespace
