// C41 — wallet-created transactions are correct, sufficiently funded and not overpaying.
// walletsim = nodesim (real regtest node + RefChain model) + a real descriptor CWallet on SQLite attached through the real
// interfaces::Chain. The history gives the wallet coins of every kind (mature / immature coinbases, confirmed and unconfirmed
// receives of all four address types, own unconfirmed change, locked coins, coins of conflicted transactions); at seeded points
// wallet::CreateTransaction is called with seeded recipient lists and coin control and every result is judged against the
// property statement with an independent model of the chain (RefChain UTXO(tip)) + the real mempool's contents.
#include "../core/sim.h"
#include "../nodesim/chainsim.h"
#include "../nodesim/walletsim.h"

#include <addresstype.h>
#include <chain.h>
#include <consensus/validation.h>
#include <kernel/mempool_entry.h>
#include <policy/policy.h>
#include <script/interpreter.h>
#include <script/solver.h>
#include <txmempool.h>
#include <util/moneystr.h>
#include <util/time.h>
#include <util/translation.h>
#include <validation.h>
#include <validationinterface.h>
#include <wallet/coincontrol.h>
#include <wallet/spend.h>

#include <algorithm>
#include <map>
#include <set>

using namespace sim;
using namespace nodesim;

namespace {

enum COp { C_RECEIVE = 0, C_MINE, C_REORG, C_CREATE, C_LOCK, C_UNLOCK, C_NEWADDR, C_CLOCK, C_NOPS, C_SWEEPMANY = 50 };

// C_CREATE arguments
enum { CA_SEED = 0, CA_NREC, CA_FLAGS, CA_SFFO, CA_FEERATE, CA_CHANGE, CA_AMOUNT, CA_PRESET, CA_DEPTH, CA_AFTER };
enum { F_UNSAFE = 1, F_OVERRIDE = 2, F_APS = 4, F_NOSIGN = 8, F_OPRETURN = 16, F_NONSTD = 32, F_SELF = 64, F_CHANGEPOS = 128, F_DESTCHANGE = 256, F_DUP = 512, F_NO_OTHER = 1024,
       F_LOCKTIME = 2048, F_NORBF = 4096 };
enum AmountMode { A_SMALL = 0, A_MODERATE, A_MOST, A_EXCEED, A_SWEEP_EXACT, A_SWEEP_DELTA, A_DUSTY, A_NMODES };
enum PresetMode { P_NONE = 0, P_SPENDABLE, P_LOCKED, P_UNSAFE, P_IMMATURE, P_EXTERNAL, P_OWN_CHANGE, P_CONFLICT, P_NMODES };
enum After { AF_NONE = 0, AF_COMMIT, AF_SUBMIT, AF_HOLD, AF_NMODES };

constexpr int kConsensusMaturity = 100; //!< a coinbase output can be spent by a transaction of the next block from 100 confirmations on

const char* kAmountNames[] = {"small", "moderate", "most-of-balance", "more-than-the-wallet-owns", "sweep-presets-exactly", "sweep-presets-minus-delta", "around-dust"};
const char* kPresetNames[] = {"none", "spendable-wallet-coins", "locked-coin", "unconfirmed-foreign-coin", "immature-coinbase", "external-coin", "own-unconfirmed-change", "inputs-of-an-earlier-send"};
const char* kAfterNames[] = {"discard", "commit", "submit-to-node-not-commit", "hold-for-a-block"};

std::string Describe(const Op& op)
{
    char b[512];
    switch (op.kind) {
    case C_RECEIVE: snprintf(b, sizeof b, "receive(outputs=%ld, seed=%ld, addr_mode=%ld, fee_sel=%ld)  external tx paying wallet addresses enters the mempool", (long)op.arg(0), (long)op.arg(1), (long)op.arg(2), (long)op.arg(3)); break;
    case C_MINE: snprintf(b, sizeof b, "mine(blocks=%ld, seed=%ld, include_sel=%ld, coinbase_to_wallet_bits=%ld, held_sel=%ld)", (long)op.arg(0), (long)op.arg(1), (long)op.arg(2), (long)op.arg(3), (long)op.arg(4)); break;
    case C_REORG: snprintf(b, sizeof b, "reorg(depth=%ld, extra=%ld, seed=%ld, reinclude_sel=%ld, coinbase_to_wallet_bits=%ld)", (long)op.arg(0), (long)op.arg(1), (long)op.arg(2), (long)op.arg(3), (long)op.arg(4)); break;
    case C_CREATE: {
        std::string f;
        static const char* names[] = {"include-unsafe", "override-feerate", "avoid-partial-spends", "sign-later", "op-return-recipient", "nonstandard-recipient", "self-recipient", "fixed-change-pos", "dest-change", "duplicate-recipient",
                                      "no-other-inputs", "locktime", "no-rbf"};
        for (int i = 0; i < 13; ++i)
            if (op.arg(CA_FLAGS) & (1 << i)) f += std::string(f.empty() ? "" : "|") + names[i];
        snprintf(b, sizeof b, "createtransaction(seed=%ld, recipients=%ld, flags=%s, subtract_fee_mask=%ld, feerate=%ld sat/kvB, change_type=%ld, amounts=%s, presets=%s, depth_sel=%ld, then=%s)", (long)op.arg(CA_SEED),
                 (long)op.arg(CA_NREC), f.empty() ? "-" : f.c_str(), (long)op.arg(CA_SFFO), (long)op.arg(CA_FEERATE), (long)op.arg(CA_CHANGE), kAmountNames[op.mod(CA_AMOUNT, A_NMODES)], kPresetNames[op.mod(CA_PRESET, P_NMODES)],
                 (long)op.arg(CA_DEPTH), kAfterNames[op.mod(CA_AFTER, AF_NMODES)]);
        break;
    }
    case C_LOCK: snprintf(b, sizeof b, "lockunspent(coins=%ld, seed=%ld, persistent=%ld)", (long)op.arg(0), (long)op.arg(1), (long)op.arg(2)); break;
    case C_UNLOCK: snprintf(b, sizeof b, "unlock(%s, sel=%ld)", op.arg(0) ? "all" : "one", (long)op.arg(1)); break;
    case C_NEWADDR: snprintf(b, sizeof b, "getnewaddress(type=%ld)", (long)op.arg(0)); break;
    case C_CLOCK: snprintf(b, sizeof b, "clock += %lds", (long)op.arg(0)); break;
    case C_SWEEPMANY: snprintf(b, sizeof b, "create a transaction sweeping every small confirmed wallet coin (hundreds of inputs) at %ld sat/kvB, fee subtracted from the recipient", (long)op.arg(0)); break;
    default: snprintf(b, sizeof b, "?");
    }
    return b;
}

int64_t GenFeerate(Rng& rng)
{
    switch (rng.pick({4, 4, 5, 4, 10, 8, 2, 1})) {
    case 0: return -1;                          // none: the wallet's fallback fee
    case 1: return 100;                         // the node's minimum
    case 2: return 1000;                        // the wallet's -mintxfee default
    case 3: return rng.range(100, 999);         // between the two
    case 4: return rng.range(1000, 30000);
    case 5: return rng.range(30000, 500000);
    case 6: return rng.range(1000000, 30000000); // runs into -maxtxfee
    default: return rng.range(0, 99);           // below the node's minimum (needs override)
    }
}

Op GenCreate(Rng& rng)
{
    Op op;
    op.kind = C_CREATE;
    int64_t nrec = rng.pick({8, 5, 3, 2, 2}) + 1;
    int64_t flags = 0;
    if (rng.chance(1, 4)) flags |= F_UNSAFE;
    if (rng.chance(1, 4)) flags |= F_OVERRIDE;
    if (rng.chance(1, 6)) flags |= F_APS;
    if (rng.chance(1, 8)) flags |= F_NOSIGN;
    if (rng.chance(1, 8)) flags |= F_OPRETURN;
    if (rng.chance(1, 16)) flags |= F_NONSTD;
    if (rng.chance(1, 6)) flags |= F_SELF;
    if (rng.chance(1, 5)) flags |= F_CHANGEPOS;
    if (rng.chance(1, 8)) flags |= F_DESTCHANGE;
    if (rng.chance(1, 12)) flags |= F_DUP;
    if (rng.chance(1, 10)) flags |= F_NO_OTHER;
    if (rng.chance(1, 10)) flags |= F_LOCKTIME;
    if (rng.chance(1, 8)) flags |= F_NORBF;
    int64_t sffo = 0;
    switch (rng.pick({10, 3, 3, 2})) {
    case 1: sffo = 1; break;
    case 2: sffo = 31; break;
    case 3: sffo = (int64_t)rng.below(32); break;
    default: break;
    }
    int64_t amount = (int64_t)rng.pick({6, 9, 6, 1, 3, 4, 1});
    int64_t preset = (int64_t)rng.pick({14, 4, 2, 2, 1, 2, 2, 2});
    if (amount == A_SWEEP_EXACT || amount == A_SWEEP_DELTA) {
        if (preset == P_NONE || preset == P_CONFLICT || preset == P_IMMATURE) preset = P_SPENDABLE;
        if (amount == A_SWEEP_EXACT) sffo = 31;
        else if (!rng.chance(1, 8)) sffo = 0; // leftovers smaller than a viable change output, mostly on the sender's side
        flags &= ~(int64_t)(F_OPRETURN | F_NONSTD);
    }
    if (preset == P_EXTERNAL) flags |= F_NOSIGN;
    if (preset == P_NONE || preset == P_CONFLICT || !rng.chance(1, 3)) flags &= ~(int64_t)F_NO_OTHER;
    int64_t feerate = GenFeerate(rng);
    if (feerate >= 0 && feerate < 1000 && rng.chance(3, 4)) flags |= F_OVERRIDE; // below the wallet's own minimum: refused unless overridden
    int64_t after = (int64_t)rng.pick({10, 6, 1, 1});
    if (preset == P_CONFLICT) after = (int64_t)rng.pick({1, 1, 0, 3});
    op.a = {(int64_t)(rng.next() >> 16), nrec, flags, sffo, feerate, (int64_t)rng.below(5), amount, preset, (int64_t)rng.pick({12, 2, 1, 1, 1, 1}), after};
    return op;
}

Plan Gen(uint64_t seed, Tier tier)
{
    Rng rng(seed);
    Plan p;
    p.knobs["base"] = rng.range(104, 124);
    p.knobs["on_disk"] = 0;
    p.knobs["coins_cache_kb"] = 8192;
    p.knobs["batch_bytes"] = 16 << 20;
    p.knobs["cb_wallet_pct"] = rng.range(25, 85);
    p.knobs["keypool"] = rng.range(3, 9);
    p.knobs["naddr"] = rng.range(4, 8);
    p.knobs["wallet_seed"] = (int64_t)(rng.next() >> 8);
    static const int64_t maxfees[] = {10000000, 10000000, 10000000, 1000000, 100000, 10000};
    p.knobs["maxtxfee_sat"] = maxfees[rng.below(6)];
    static const int64_t minfees[] = {1000, 1000, 1000, 100, 5000};
    p.knobs["mintxfee_sat"] = minfees[rng.below(5)];
    p.knobs["fallbackfee_sat"] = rng.chance(1, 8) ? 0 : (rng.chance(1, 2) ? 20000 : rng.range(1000, 100000));
    p.knobs["changetype"] = rng.chance(1, 3) ? rng.range(1, 4) : 0; // -changetype (0 = unset)
    p.knobs["spendzeroconfchange"] = rng.chance(1, 5) ? 0 : 1;
    static const int64_t aps[] = {0, 0, -1, 10000};
    p.knobs["maxapsfee_sat"] = aps[rng.below(4)];
    std::vector<uint32_t> w(C_NOPS, 0);
    w[C_RECEIVE] = 13; w[C_MINE] = 11; w[C_REORG] = 4; w[C_CREATE] = 46; w[C_LOCK] = 6; w[C_UNLOCK] = 3; w[C_NEWADDR] = 3; w[C_CLOCK] = 2;
    if (rng.chance(1, 4)) w[C_REORG] = 0;
    if (rng.chance(1, 4)) w[C_LOCK] = 12;
    if (rng.chance(1, 4)) w[C_RECEIVE] = 24;
    int nops = (int)rng.range(16, tier == Tier::THOROUGH ? 70 : 36);
    auto R64 = [&] { return (int64_t)(rng.next() >> 16); };
    // every history starts with a few receives so that the wallet owns small coins of several types next to its coinbases
    int nrecv = (int)rng.range(1, 4);
    for (int i = 0; i < nrecv; ++i) p.ops.push_back(Op(C_RECEIVE, {(int64_t)rng.range(1, 6), R64(), (int64_t)rng.below(4), (int64_t)rng.below(4)}));
    if (rng.chance(2, 3)) p.ops.push_back(Op(C_MINE, {1, R64(), 0, (int64_t)rng.below(2), 0}));
    for (int i = 0; i < nops; ++i) {
        if (rng.chance(1, 10)) {
            // scripted situations made of ordinary operations
            std::vector<Op> m;
            switch (rng.below(5)) {
            case 0: { // a chain of committed sends, then a create that may build on the unconfirmed change
                Op a = GenCreate(rng), b = GenCreate(rng);
                a.a[CA_AFTER] = AF_COMMIT; a.a[CA_AMOUNT] = A_MODERATE; a.a[CA_PRESET] = P_NONE; a.a[CA_FEERATE] = rng.range(1000, 50000); a.a[CA_FLAGS] &= ~(int64_t)(F_NONSTD | F_NOSIGN | F_OVERRIDE);
                b.a[CA_PRESET] = P_OWN_CHANGE;
                m = {a, b};
                break;
            }
            case 1: { // lock coins, then ask for most of the balance
                Op c = GenCreate(rng);
                c.a[CA_AMOUNT] = A_MOST; c.a[CA_PRESET] = P_NONE;
                m = {Op(C_LOCK, {(int64_t)rng.range(1, 4), R64(), (int64_t)rng.below(2)}), c};
                break;
            }
            case 2: { // several recipients share the fee
                Op c = GenCreate(rng);
                c.a[CA_NREC] = rng.range(2, 5); c.a[CA_SFFO] = rng.chance(1, 2) ? 31 : (int64_t)rng.range(3, 31); c.a[CA_AMOUNT] = rng.chance(1, 2) ? A_MODERATE : A_MOST;
                c.a[CA_FLAGS] &= ~(int64_t)(F_OPRETURN | F_NONSTD);
                m = {c};
                break;
            }
            case 3: { // a conflicting spend confirmed in a block: the earlier send and its change die
                Op a = GenCreate(rng), b = GenCreate(rng), c = GenCreate(rng);
                a.a[CA_AFTER] = AF_COMMIT; a.a[CA_AMOUNT] = A_MODERATE; a.a[CA_PRESET] = P_NONE; a.a[CA_FEERATE] = rng.range(1000, 20000); a.a[CA_FLAGS] &= ~(int64_t)(F_NONSTD | F_NOSIGN | F_OVERRIDE);
                b.a[CA_PRESET] = P_CONFLICT; b.a[CA_AFTER] = AF_HOLD; b.a[CA_AMOUNT] = A_SMALL; b.a[CA_FEERATE] = rng.range(1000, 20000); b.a[CA_FLAGS] &= ~(int64_t)(F_NONSTD | F_OVERRIDE);
                c.a[CA_AMOUNT] = A_MOST;
                m = {a, b, Op(C_MINE, {1, R64(), 0, (int64_t)rng.below(2), 2}), c};
                break;
            }
            default: { // unconfirmed foreign coins on offer
                Op c = GenCreate(rng);
                c.a[CA_FLAGS] |= F_UNSAFE; c.a[CA_AMOUNT] = A_MOST;
                m = {Op(C_RECEIVE, {(int64_t)rng.range(2, 6), R64(), (int64_t)rng.below(4), (int64_t)rng.below(4)}), c};
                break;
            }
            }
            for (auto& o : m) p.ops.push_back(o);
        }
        Op op;
        op.kind = (int)rng.pick(w);
        switch (op.kind) {
        case C_RECEIVE: op.a = {(int64_t)rng.range(1, 6), R64(), (int64_t)rng.below(4), (int64_t)rng.below(4)}; break;
        case C_MINE: op.a = {(int64_t)rng.skewed(1, 3), R64(), (int64_t)rng.below(5), (int64_t)rng.below(8), (int64_t)rng.pick({3, 2, 2})}; break;
        case C_REORG: op.a = {(int64_t)rng.skewed(1, 4), (int64_t)rng.range(1, 2), R64(), (int64_t)rng.below(5), (int64_t)rng.below(64)}; break;
        case C_CREATE: op = GenCreate(rng); break;
        case C_LOCK: op.a = {(int64_t)rng.range(1, 3), R64(), (int64_t)rng.below(2)}; break;
        case C_UNLOCK: op.a = {(int64_t)rng.chance(1, 3), (int64_t)rng.below(16)}; break;
        case C_NEWADDR: op.a = {(int64_t)rng.below(4)}; break;
        case C_CLOCK: op.a = {(int64_t)(rng.chance(1, 3) ? rng.range(8 * 3600, 12 * 3600) : rng.skewed(1, 3000))}; break;
        default: break;
        }
        p.ops.push_back(op);
    }
    if (rng.chance(1, 8)) {
        // a wallet with hundreds of small coins: a sweep of them has more than 252 inputs
        Op rcv(C_RECEIVE, {(int64_t)rng.range(256, 320), (int64_t)(rng.next() >> 16), 0, 0});
        Op mine(C_MINE, {100, (int64_t)(rng.next() >> 16), 0, 0});
        Op sweep(C_SWEEPMANY, {(int64_t)rng.pick({1, 1, 1}) * 0 + (int64_t)(1000 + rng.below(4000)), (int64_t)(rng.next() >> 16)});
        size_t at = rng.below(p.ops.size() / 2 + 1);
        p.ops.insert(p.ops.begin() + at, {rcv, mine, sweep});
    }
    return p;
}

// ---------------------------------------------------------------------------------------------------------------------------

/** What the node told its validation-interface clients, in order (used for the model of coin locks: the wallet documents that a
 *  coin is unlocked as soon as a transaction spending it is added to the wallet). */
struct Recorder : public CValidationInterface {
    std::vector<CTransactionRef> seen;
    void TransactionAddedToMempool(const NewMempoolTransactionInfo& tx, uint64_t) override { seen.push_back(tx.info.m_tx); }
    void BlockConnected(const kernel::ChainstateRole&, const std::shared_ptr<const CBlock>& block, const CBlockIndex*) override
    {
        for (auto& tx : block->vtx) seen.push_back(tx);
    }
};

std::string Hx(const uint256& h) { return h.ToString().substr(0, 10); }
std::string Hx(const Txid& h) { return h.ToString().substr(0, 10); }

/** Output type of a scriptPubKey as the wallet's address types name them (template match only). */
std::optional<OutputType> TypeOfScript(const CScript& spk)
{
    std::vector<std::vector<unsigned char>> sol;
    switch (Solver(spk, sol)) {
    case TxoutType::PUBKEYHASH: return OutputType::LEGACY;
    case TxoutType::SCRIPTHASH: return OutputType::P2SH_SEGWIT;
    case TxoutType::WITNESS_V0_KEYHASH: return OutputType::BECH32;
    case TxoutType::WITNESS_V1_TAPROOT: return OutputType::BECH32M;
    default: return std::nullopt;
    }
}

std::string BtcString(CAmount sat)
{
    char b[64];
    snprintf(b, sizeof b, "%ld.%08ld", (long)(sat / COIN), (long)(sat % COIN));
    return b;
}

struct CreateSim {
    Ctx& ctx;
    ChainSim cs;
    std::shared_ptr<Recorder> rec{std::make_shared<Recorder>()};
    std::unique_ptr<WalletNode> wn;
    std::shared_ptr<wallet::CWallet> w;

    // ---- model ----
    std::set<CScript> S;                            //!< the wallet's scripts: every address handed out + every change script it produced (verified against its descriptors)
    std::set<COutPoint> locked;                     //!< coins locked by the user and not spent by a transaction shown to the wallet since
    std::map<Txid, CTransactionRef> alltx;          //!< every transaction the simulation ever built or obtained (for values of spent outputs)
    CAmount max_tx_fee{0}, fallback_fee{0}, node_min_feerate{0};
    std::optional<OutputType> knob_change_type;

    // ---- generator state ----
    struct Addr { CTxDestination dest; CScript spk; };
    std::vector<Addr> addrs;
    std::set<Txid> foreign_txs;                     //!< receives built by the stranger
    std::vector<CTransactionRef> held;              //!< signed conflicting transactions waiting for a block
    std::vector<CTransactionRef> sends;             //!< wallet transactions that were committed
    std::vector<COutPoint> own_change;
    int64_t start_time{0};
    uint64_t last_result_hash{0};
    std::optional<Violation> deferred;              //!< a violation that is reported at the end of the run so that it hides no other clause

    explicit CreateSim(Ctx& c) : ctx(c), cs(c, ChainSimConfig{.check_most_work = false}) {}

    RefChain& ref() { return *cs.ref; }
    SimNode& node() { return *cs.node; }
    bool Mine(const CScript& s) const { return S.count(s) > 0; }
    void Register(const CTransactionRef& tx) { alltx[tx->GetHash()] = tx; }

    // ================================================ model: chain + mempool view ==========================================
    struct View {
        int tip{0};
        int height{0};
        const RefUtxo* utxo{nullptr};
        std::map<Txid, CTransactionRef> pool;
        std::map<COutPoint, Txid> pool_spender;
    };
    View MakeView()
    {
        View v;
        v.tip = cs.TipIdx();
        if (v.tip < 0) ctx.failf("sim-tip-unknown", "the node's tip %s is not a generated block", Hx(node().TipHash()).c_str());
        const RefBlock& T = ref().blocks[v.tip];
        if (T.verdict != Verdict::VALID) ctx.failf("invalid-block-in-active-chain", "tip #%d is not valid per the model: %s", v.tip, T.reason.c_str());
        v.height = T.height;
        v.utxo = T.utxo.get();
        for (auto& info : node().pool().infoAll()) {
            v.pool[info.tx->GetHash()] = info.tx;
            for (auto& in : info.tx->vin) v.pool_spender[in.prevout] = info.tx->GetHash();
        }
        return v;
    }
    /** A wallet coin as chain + mempool define it. */
    struct MCoin {
        COutPoint op;
        CAmount value{0};
        CScript spk;
        int depth{0};          //!< 0 = in the mempool
        bool coinbase{false};
        bool immature{false};  //!< coinbase that a transaction of the next block may not spend yet
        bool foreign{false};   //!< unconfirmed and created by the stranger
        bool is_locked{false};
    };
    std::vector<MCoin> ModelCoins(const View& v)
    {
        std::vector<MCoin> out;
        for (auto& [op, c] : *v.utxo) {
            if (!Mine(c.spk) || v.pool_spender.count(op)) continue;
            int depth = v.height - c.height + 1;
            out.push_back({op, c.value, c.spk, depth, c.coinbase, c.coinbase && depth < kConsensusMaturity, false, locked.count(op) > 0});
        }
        for (auto& [id, tx] : v.pool)
            for (uint32_t n = 0; n < tx->vout.size(); ++n) {
                COutPoint op(id, n);
                if (!Mine(tx->vout[n].scriptPubKey) || v.pool_spender.count(op)) continue;
                out.push_back({op, tx->vout[n].nValue, tx->vout[n].scriptPubKey, 0, false, false, foreign_txs.count(id) > 0, locked.count(op) > 0});
            }
        std::sort(out.begin(), out.end(), [](const MCoin& a, const MCoin& b) { return a.op < b.op; });
        return out;
    }
    /** Value and script of any output the simulation knows (spent or not). */
    std::optional<CTxOut> KnownOutput(const COutPoint& op) const
    {
        auto it = alltx.find(op.hash);
        if (it == alltx.end() || op.n >= it->second->vout.size()) return std::nullopt;
        return it->second->vout[op.n];
    }
    /** Locks: the wallet unlocks a coin when a transaction spending it is added to the wallet. */
    void AbsorbSeen()
    {
        for (auto& tx : rec->seen) {
            Register(tx);
            if (tx->IsCoinBase()) continue;
            for (auto& in : tx->vin)
                if (locked.erase(in.prevout)) ctx.probe("lock_released_by_spend");
        }
        rec->seen.clear();
    }
    void Settle()
    {
        node().DrainSignals();
        if (node().Fatal()) ctx.failf("node-fatal-error", "fatal error reported by the node");
        AbsorbSeen();
    }

    // ====================================================== generator ======================================================
    struct GenCoin { COutPoint op; RefCoin coin; };
    std::vector<GenCoin> GenCoins()
    {
        std::vector<GenCoin> out;
        int t = cs.TipIdx();
        if (t < 0) return out;
        const RefBlock& T = ref().blocks[t];
        const Keyring& kr = Keys();
        for (auto& [op, c] : *T.utxo) {
            if (Mine(c.spk) || !kr.CanSpend(c.spk)) continue;
            if (c.coinbase && T.height + 1 - c.height < ref().maturity) continue;
            if (node().pool().isSpent(op)) continue;
            if (c.value < 100000) continue;
            out.push_back({op, c});
        }
        return out;
    }
    bool SubmitToNode(const CTransactionRef& tx, const char* what)
    {
        MempoolAcceptResult::ResultType rt;
        std::string reason;
        {
            LOCK(cs_main);
            const MempoolAcceptResult res = node().cm().ProcessTransaction(tx, /*test_accept=*/false);
            rt = res.m_result_type;
            reason = res.m_state.GetRejectReason();
        }
        Settle();
        bool ok = rt == MempoolAcceptResult::ResultType::VALID;
        ctx.evf("submit %s %s -> %s %s pool=%lu", what, Hx(tx->GetHash()).c_str(), ok ? "accepted" : "rejected", reason.c_str(), node().pool().size());
        return ok;
    }
    Addr NewAddr(uint64_t type_sel)
    {
        OutputType t = OUTPUT_TYPES[type_sel % OUTPUT_TYPES.size()];
        unsigned before = WITH_LOCK(w->cs_wallet, return w->GetKeyPoolSize());
        auto d = wn->NewAddress(*w, t);
        if (!d) ctx.failf("sim-no-address", "getnewaddress failed: %s", wn->last_error.c_str());
        unsigned after = WITH_LOCK(w->cs_wallet, return w->GetKeyPoolSize());
        if (after >= before) ctx.probe("keypool_topup");
        Addr a{*d, WalletNode::ScriptFor(*d)};
        S.insert(a.spk);
        addrs.push_back(a);
        return a;
    }
    CScript WalletSpk(Rng& r, bool fresh)
    {
        if (fresh || addrs.empty()) return NewAddr(r.below(4)).spk;
        return addrs[r.below(addrs.size())].spk;
    }
    CScript GenSpk(Rng& r)
    {
        static const SK kinds[] = {SK::P2WPKH, SK::P2WPKH, SK::P2PKH, SK::P2TR, SK::P2SH_P2WPKH, SK::TRUE_WSH};
        return Keys().Spk(kinds[r.below(6)], (int)r.below(N_KEYS));
    }
    std::vector<CTransactionRef> PoolTxs()
    {
        std::vector<CTransactionRef> v;
        for (auto& info : node().pool().infoAll()) v.push_back(info.tx);
        std::sort(v.begin(), v.end(), [](auto& a, auto& b) { return a->GetHash() < b->GetHash(); });
        return v;
    }
    /** Build one block on `parent` from the candidates that are valid there (model's judgement), deliver it unless told not to. */
    int BuildBlock(int parent, std::vector<CTransactionRef> cands, Rng& r, int include_pct, bool cb_to_wallet, bool deliver)
    {
        const RefBlock& P = ref().blocks[parent];
        const int height = P.height + 1;
        const int64_t mtp = ref().MTP(parent);
        cs.now += r.range(20, 400);
        SetMockTime(std::chrono::seconds{cs.now});
        int64_t time = std::max<int64_t>(mtp + 1, cs.now);
        RefUtxo view = *P.utxo;
        for (size_t i = cands.size(); i > 1; --i) std::swap(cands[i - 1], cands[r.below(i)]);
        std::vector<CTransactionRef> pool;
        std::set<Txid> seen;
        for (auto& tx : cands)
            if (seen.insert(tx->GetHash()).second && (int)r.below(100) < include_pct) pool.push_back(tx);
        std::vector<CTransactionRef> chosen;
        CAmount fees = 0;
        bool progress = true;
        std::vector<char> used(pool.size(), 0);
        while (progress && chosen.size() < 400) {
            progress = false;
            for (size_t i = 0; i < pool.size(); ++i) {
                if (used[i]) continue;
                const CTransaction& tx = *pool[i];
                if (!ref().IsFinal(tx, height, mtp)) continue;
                CAmount fee = 0;
                if (!ref().CheckTxContextual(tx, view, height, parent, fee).empty()) continue;
                RefApplyTx(view, tx, height);
                fees += fee;
                chosen.push_back(pool[i]);
                used[i] = 1;
                progress = true;
            }
        }
        BlockExtras ex;
        ex.cb_extranonce = (uint32_t)(++cs.cb_nonce);
        ex.coinbase_spk = cb_to_wallet && !addrs.empty() ? addrs[r.below(addrs.size())].spk : GenSpk(r);
        auto block = nodesim::BuildBlock(P.hash, height, time, chosen, RefSubsidy(height, ref().halving_interval) + fees, ex, node().params->GetConsensus());
        for (auto& tx : block->vtx) Register(tx);
        int idx = cs.AddBlock(block, parent, BlockLabel{});
        if (ref().blocks[idx].verdict != Verdict::VALID) ctx.failf("sim-built-invalid-block", "block #%d: %s", idx, ref().blocks[idx].reason.c_str());
        if (cb_to_wallet) ctx.probe("coinbase_to_wallet");
        for (auto& tx : chosen)
            for (auto& h : held)
                if (h->GetHash() == tx->GetHash()) ctx.probe("held_conflict_in_block");
        if (deliver) { cs.Deliver(idx, true); Settle(); }
        return idx;
    }

    // ========================================================= ops =========================================================
    void Setup()
    {
        cs.tweak_opts = [&](NodeOpts& o) {
            o.listeners.push_back(rec);
            o.make_runner = &MakeDeferredTaskRunner; // callbacks after the emitting validation call, as on a real node (see walletsim.h)
            o.mempool_check_ratio = 0;
            o.require_standard = true;
        };
        cs.StartNode();
        max_tx_fee = std::clamp<int64_t>(ctx.knob("maxtxfee_sat", 10000000), 1000, 100000000);
        fallback_fee = std::clamp<int64_t>(ctx.knob("fallbackfee_sat", 20000), 0, 1000000);
        WalletNodeOpts wo;
        wo.keypool = (int)std::clamp<int64_t>(ctx.knob("keypool", 5), 1, 50);
        wo.unsafe_sync = true; // no crash in this property: speed only
        wo.spend_zero_conf_change = ctx.knob("spendzeroconfchange", 1) != 0;
        wo.fallbackfee = BtcString(fallback_fee);
        wo.extra_args.emplace_back("-maxtxfee", BtcString(max_tx_fee));
        wo.extra_args.emplace_back("-mintxfee", BtcString(std::clamp<int64_t>(ctx.knob("mintxfee_sat", 1000), 1, 100000)));
        int64_t aps = ctx.knob("maxapsfee_sat", 0);
        wo.extra_args.emplace_back("-maxapsfee", aps < 0 ? std::string("-1") : BtcString(std::min<int64_t>(aps, 100000)));
        static const char* tnames[] = {"", "legacy", "p2sh-segwit", "bech32", "bech32m"};
        int ct = (int)std::clamp<int64_t>(ctx.knob("changetype", 0), 0, 4);
        if (ct) {
            wo.extra_args.emplace_back("-changetype", tnames[ct]);
            knob_change_type = OUTPUT_TYPES[ct - 1];
        }
        wn = std::make_unique<WalletNode>(node(), wo);
        WalletCreateOpts co;
        co.seed = (uint64_t)ctx.knob("wallet_seed", 1);
        w = wn->CreateWallet("w0", co);
        if (!w) ctx.failf("wallet-create-failed", "%s", wn->last_error.c_str());
        if (w->m_default_max_tx_fee != max_tx_fee) ctx.failf("sim-maxtxfee-not-applied", "wallet has %ld, knob says %ld", (long)w->m_default_max_tx_fee, (long)max_tx_fee);
        node_min_feerate = std::max(wn->chain().relayMinFee().GetFeePerK(), wn->chain().mempoolMinFee().GetFeePerK());
        rec->seen.clear();
        int naddr = (int)std::clamp<int64_t>(ctx.knob("naddr", 4), 1, 12);
        for (int i = 0; i < naddr; ++i) NewAddr(i);
        Rng r(mix64(ctx.plan.seed, 0xba5e41));
        int base = (int)std::clamp<int64_t>(ctx.knob("base", 105), 103, 300);
        int pct = (int)std::clamp<int64_t>(ctx.knob("cb_wallet_pct", 50), 0, 100);
        // heights 1-2 fund the stranger, height 3 the wallet; the rest by the per-run percentage. The last 99 coinbases are immature.
        for (int i = 1; i <= base; ++i) BuildBlock(cs.TipIdx(), {}, r, 0, i == 3 || (i > 3 && (int)r.below(100) < pct), true);
        if (node().Height() != base) ctx.failf("base-chain-not-connected", "height %d after %d base blocks", node().Height(), base);
        start_time = cs.now;
        ctx.evf("setup base=%d addrs=%zu maxtxfee=%ld fallback=%ld node_min=%ld", base, addrs.size(), (long)max_tx_fee, (long)fallback_fee, (long)node_min_feerate);
    }

    std::vector<CScript> flood_spks;
    void OpReceive(const Op& op)
    {
        Rng r(mix64((uint64_t)op.arg(1), 0x72637631));
        std::vector<GenCoin> funds = GenCoins();
        if (funds.empty()) { ctx.ev("receive: stranger has no funds"); return; }
        GenCoin c = funds[r.below(funds.size())];
        const bool flood = op.arg(0) >= 100; // hundreds of small outputs to the wallet in one transaction
        int nouts = flood ? (int)std::clamp<int64_t>(op.arg(0), 100, 330) : (int)std::clamp<int64_t>(op.arg(0), 1, 6);
        CAmount fee = flood ? 40000 : 3000 + 1500 * (CAmount)op.mod(3, 4);
        CAmount left = c.coin.value - fee;
        std::vector<CTxOut> outs;
        for (int i = 0; i < nouts; ++i) {
            // log-uniform from 600 sat to a few coins
            int bits = (int)r.range(10, 29);
            CAmount v = std::max<CAmount>(600, (CAmount)r.range(int64_t(1) << (bits - 1), int64_t(1) << bits));
            if (flood) v = (CAmount)r.range(20000, 60000);
            if (v + 20000 > left) break;
            // (flood: P2WPKH addresses only - with low-R signatures the wallet's size estimate of the sweep is exact to a fraction of a vbyte;
            //  taproot key spends are estimated with a 65-byte signature and would hide a few vbytes)
            if (flood) { if (flood_spks.size() < 8) flood_spks.push_back(NewAddr(2).spk); outs.emplace_back(v, flood_spks[r.below(flood_spks.size())]); }
            else outs.emplace_back(v, WalletSpk(r, (op.arg(2) & 1) != 0 && i == 0));
            left -= v;
        }
        if (outs.empty()) { ctx.ev("receive: coin too small"); return; }
        if (left > 5000) outs.emplace_back(left, Keys().Spk(SK::P2WPKH, (int)r.below(N_KEYS)));
        if (op.arg(2) & 2) std::reverse(outs.begin(), outs.end());
        std::vector<TxIn> ins{{c.op, c.coin, 0xfffffffdu}};
        bool ok = true;
        CTransactionRef tx = BuildTx(ins, outs, 0, 2, SigDefect::NONE, 0, ok);
        Register(tx);
        foreign_txs.insert(tx->GetHash());
        if (SubmitToNode(tx, "receive")) {
            ctx.probe("receive_unconfirmed");
            ctx.nontrivial = true;
        }
    }
    std::vector<CTransactionRef> HeldSubset(Rng& r, int pct)
    {
        std::vector<CTransactionRef> v;
        for (auto& h : held)
            if ((int)r.below(100) < pct) v.push_back(h);
        return v;
    }
    void OpMine(const Op& op)
    {
        Rng r(mix64((uint64_t)op.arg(1), 0x6d696e65));
        static const int inc[] = {100, 100, 75, 40, 0};
        int n = (int)std::clamp<int64_t>(op.arg(0), 1, 4);
        static const int hp[] = {0, 50, 100};
        for (int i = 0; i < n; ++i) {
            std::vector<CTransactionRef> cands = HeldSubset(r, hp[op.mod(4, 3)]);
            for (auto& t : PoolTxs()) cands.push_back(t);
            BuildBlock(cs.TipIdx(), cands, r, inc[op.mod(2, 5)], (op.arg(3) >> i) & 1, true);
        }
    }
    void OpReorg(const Op& op)
    {
        int t = cs.TipIdx();
        if (t < 0) return;
        Rng r(mix64((uint64_t)op.arg(2), 0x72656f72));
        int depth = (int)std::clamp<int64_t>(op.arg(0), 1, 5);
        int H = ref().blocks[t].height;
        int fork = ref().Ancestor(t, std::max(0, H - depth));
        int len = H - ref().blocks[fork].height + (int)std::clamp<int64_t>(op.arg(1), 1, 2);
        static const int inc[] = {100, 80, 50, 20, 0};
        std::vector<CTransactionRef> cands = HeldSubset(r, 70);
        for (int b : ref().PathFrom(fork, t))
            for (auto& tx : ref().blocks[b].block->vtx)
                if (!tx->IsCoinBase()) cands.push_back(tx);
        for (auto& tx : PoolTxs()) cands.push_back(tx);
        std::vector<int> branch;
        int parent = fork;
        for (int i = 0; i < len; ++i) {
            parent = BuildBlock(parent, cands, r, inc[op.mod(3, 5)], (op.arg(4) >> i) & 1, false);
            branch.push_back(parent);
        }
        for (int b : branch) { cs.Deliver(b, true); Settle(); }
        int nt = cs.TipIdx();
        if (nt >= 0 && !ref().IsAncestor(t, nt)) {
            ctx.probe("reorg");
            for (int b : ref().PathFrom(ref().ForkPoint(t, nt), t))
                if (Mine(ref().blocks[b].block->vtx[0]->vout[0].scriptPubKey)) ctx.probe("wallet_coinbase_disconnected");
        }
    }
    void OpLock(const Op& op)
    {
        Rng r(mix64((uint64_t)op.arg(1), 0x6c6f636b));
        View v = MakeView();
        std::vector<MCoin> coins = ModelCoins(v);
        if (coins.empty()) { ctx.ev("lock: no coin"); return; }
        int n = (int)std::clamp<int64_t>(op.arg(0), 1, 4);
        std::vector<size_t> ripe;
        for (size_t i = 0; i < coins.size(); ++i)
            if (!coins[i].immature) ripe.push_back(i);
        for (int i = 0; i < n; ++i) {
            const MCoin& c = !ripe.empty() && r.chance(3, 4) ? coins[ripe[r.below(ripe.size())]] : coins[r.below(coins.size())];
            bool ok = WITH_LOCK(w->cs_wallet, return w->LockCoin(c.op, /*persist=*/op.arg(2) != 0));
            if (!ok) ctx.failf("sim-lock-failed", "LockCoin returned false");
            locked.insert(c.op);
            ctx.evf("lock %s:%u value=%ld depth=%d", Hx(c.op.hash).c_str(), c.op.n, (long)c.value, c.depth);
            ctx.probe(c.immature ? "locked_immature_coin" : c.depth == 0 ? "locked_unconfirmed_coin" : "locked_confirmed_coin");
        }
    }
    void OpUnlock(const Op& op)
    {
        if (op.arg(0)) {
            WITH_LOCK(w->cs_wallet, return w->UnlockAllCoins());
            locked.clear();
            ctx.ev("unlock all");
        } else if (!locked.empty()) {
            auto it = locked.begin();
            std::advance(it, op.mod(1, locked.size()));
            WITH_LOCK(w->cs_wallet, return w->UnlockCoin(*it));
            ctx.evf("unlock %s:%u", Hx(it->hash).c_str(), it->n);
            locked.erase(it);
        }
    }

    // ================================================= the operation under test =============================================
    struct Rec { CTxDestination dest; CScript spk; CAmount amount; bool sffo; bool standard; };
    struct Request {
        std::vector<Rec> recs;
        std::optional<int64_t> feerate;              //!< sat/kvB, explicit
        bool override_feerate{false};
        std::optional<OutputType> change_type;       //!< coin control
        std::optional<CScript> dest_change;
        std::set<COutPoint> presets;
        std::map<COutPoint, CTxOut> external;
        bool presets_spendable{true};                //!< every caller-supplied input is unspent and mature per the model
        bool allow_other{true};
        bool sign{true};
        const char* must_fail{nullptr};
    };

    /** A recipient the wallet does not own. `standard` is the generator's label (by construction, not by asking the policy code). */
    CTxDestination RandomDest(Rng& r, bool& standard)
    {
        standard = true;
        unsigned char h[40];
        r.fill(h, sizeof h);
        switch (r.pick({5, 4, 6, 3, 5, 2, 2, 1, 3})) {
        case 0: return PKHash(uint160(std::span<const unsigned char>(h, 20)));
        case 1: return ScriptHash(uint160(std::span<const unsigned char>(h, 20)));
        case 2: return WitnessV0KeyHash(uint160(std::span<const unsigned char>(h, 20)));
        case 3: return WitnessV0ScriptHash(uint256(std::span<const unsigned char>(h, 32)));
        case 4: return WitnessV1Taproot(XOnlyPubKey(std::span<const unsigned char>(h, 32)));
        case 5: return WitnessUnknown((int)r.range(2, 16), std::vector<unsigned char>(h, h + r.range(2, 40)));
        case 6: return PubKeyDestination(Keys().pubs[r.below(N_KEYS)]);
        case 7: return PayToAnchor();
        default: return WalletNode::DestFor(GenSpk(r)); // something the stranger can spend later
        }
    }
    static const char* ErrorKind(const std::string& e)
    {
        static const std::pair<const char*, const char*> table[] = {
            {"Insufficient funds", "fail_insufficient_funds"}, {"Transaction amount too small", "fail_recipient_dust"}, {"too small to pay the fee", "fail_sffo_amount_below_fee"},
            {"too small to send after the fee", "fail_sffo_leaves_dust"}, {"is lower than the minimum fee rate", "fail_feerate_below_wallet_minimum"}, {"Fee exceeds maximum", "fail_max_tx_fee"},
            {"Fallbackfee is disabled", "fail_no_fallback_fee"}, {"Signing transaction failed", "fail_signing"}, {"does not cover the transaction target", "fail_presets_do_not_cover"},
            {"index out of range", "fail_change_pos_out_of_range"}, {"The total exceeds your balance", "fail_fee_not_covered"}, {"rejected by the mempool", "fail_long_chain"},
            {"too many unconfirmed", "fail_long_chain"}, {"too-long-mempool-chain", "fail_long_chain"}, {"exceeds", "fail_limit"}, {"Not solvable", "fail_preset_not_solvable"},
            {"Not found pre-selected", "fail_preset_not_found"}, {"Transaction too large", "fail_too_large"}, {"needs a change address", "fail_no_change_address"}, {"requires one destination", "fail_nothing_to_pay"}};
        for (auto& [needle, name] : table)
            if (e.find(needle) != std::string::npos) return name;
        return "fail_other";
    }

    /** Sign what CreateTransaction(sign=false) returned: the wallet signs its inputs, the stranger his. */
    CTransactionRef SignLater(const CTransactionRef& tx, const Request& q, bool& complete)
    {
        CMutableTransaction mtx(*tx);
        std::map<COutPoint, Coin> coins;
        for (auto& in : mtx.vin) {
            std::optional<CTxOut> o = KnownOutput(in.prevout);
            if (!o) { complete = false; return tx; }
            coins[in.prevout] = Coin(*o, 1, false);
        }
        wn->PartialSign(*w, mtx, coins);
        for (size_t i = 0; i < mtx.vin.size(); ++i) {
            auto e = q.external.find(mtx.vin[i].prevout);
            if (e == q.external.end()) continue;
            SpendInfo si = Keys().Classify(e->second.scriptPubKey);
            const CPubKey& pub = Keys().pubs[si.key];
            CScript code = CScript() << OP_DUP << OP_HASH160 << ToByteVector(pub.GetID()) << OP_EQUALVERIFY << OP_CHECKSIG;
            uint256 h = SignatureHash(code, mtx, (unsigned)i, SIGHASH_ALL, e->second.nValue, SigVersion::WITNESS_V0);
            std::vector<unsigned char> sig;
            Keys().keys[si.key].Sign(h, sig);
            sig.push_back(SIGHASH_ALL);
            mtx.vin[i].scriptWitness.stack = {sig, ToByteVector(pub)};
        }
        complete = true;
        for (auto& in : mtx.vin)
            if (in.scriptSig.empty() && in.scriptWitness.IsNull()) complete = false;
        return MakeTransactionRef(mtx);
    }

    /** A violation of its own class that is reported when the run ends, so that it hides no other clause (first one wins). */
    void Defer(const char* cls, const char* fmt, ...) __attribute__((format(printf, 3, 4)))
    {
        char b[2048];
        va_list ap;
        va_start(ap, fmt);
        vsnprintf(b, sizeof b, fmt, ap);
        va_end(ap);
        if (!deferred) deferred = Violation{cls, b};
    }

    /** The oracle: decides every clause of the statement for one successful CreateTransaction. `tx` is fully signed unless !is_signed. */
    void Judge(const Request& q, const View& v, const CTransactionRef& tx, std::optional<unsigned> change_pos, bool is_signed, const std::string& what)
    {
        const char* W = what.c_str();
        if (!tx || tx->vin.empty()) ctx.failf("created-tx-without-inputs", "%s", W);
        // ---- inputs: distinct, and each one explicitly supplied or a spendable wallet coin ----
        std::set<COutPoint> seen;
        CAmount in_value = 0;
        bool in_value_known = true;
        for (auto& in : tx->vin) {
            const COutPoint& op = in.prevout;
            if (!seen.insert(op).second) ctx.failf("inputs-not-distinct", "%s: %s:%u is spent twice", W, Hx(op.hash).c_str(), op.n);
            const bool preset = q.presets.count(op) > 0;
            std::optional<CTxOut> out;
            int depth = -1;
            bool coinbase = false;
            auto u = v.utxo->find(op);
            auto p = v.pool.find(op.hash);
            if (u != v.utxo->end()) { out = CTxOut(u->second.value, u->second.spk); depth = v.height - u->second.height + 1; coinbase = u->second.coinbase; }
            else if (p != v.pool.end() && op.n < p->second->vout.size()) { out = p->second->vout[op.n]; depth = 0; }
            if (preset) {
                ctx.probe("input_supplied_by_caller");
                if (!out) out = KnownOutput(op); // the caller may name a coin that is gone; its value is still known
                if (auto e = q.external.find(op); e != q.external.end()) { out = e->second; ctx.probe("input_external"); }
                if (!out) in_value_known = false; else in_value += out->nValue;
                continue;
            }
            if (!out) ctx.failf("input-not-in-chain-or-mempool", "%s: selected %s:%u is neither an unspent output of the active chain nor an output of a mempool transaction", W, Hx(op.hash).c_str(), op.n);
            in_value += out->nValue;
            if (!Mine(out->scriptPubKey)) ctx.failf("input-not-a-wallet-coin", "%s: selected %s:%u pays a script the wallet never handed out", W, Hx(op.hash).c_str(), op.n);
            if (auto sp = v.pool_spender.find(op); sp != v.pool_spender.end())
                ctx.failf("input-spent-in-mempool", "%s: selected %s:%u is spent by mempool transaction %s", W, Hx(op.hash).c_str(), op.n, Hx(sp->second).c_str());
            if (coinbase && depth < kConsensusMaturity)
                ctx.failf("input-immature-coinbase", "%s: selected coinbase output %s:%u has %d confirmations", W, Hx(op.hash).c_str(), op.n, depth);
            if (locked.count(op)) {
                // the model's lock set and the wallet's must agree; if they do not the model is at fault and the clause is left undecided
                if (WITH_LOCK(w->cs_wallet, return w->IsLockedCoin(op))) ctx.failf("input-locked-coin", "%s: selected %s:%u is locked", W, Hx(op.hash).c_str(), op.n);
                ctx.probe("lock_model_disagrees");
            }
            if (depth == 0) ctx.probe(foreign_txs.count(op.hash) ? "selected_unconfirmed_foreign_coin" : "selected_own_unconfirmed_coin");
            if (coinbase) ctx.probe("selected_mature_coinbase");
        }
        for (auto& op : q.presets)
            if (!seen.count(op)) ctx.probe("preset_not_used");
        // ---- outputs: every recipient paid, change to the wallet ----
        const size_t nrec = q.recs.size();
        if (change_pos && *change_pos >= tx->vout.size()) ctx.failf("change-position-out-of-range", "%s: change_pos %u of %zu outputs", W, *change_pos, tx->vout.size());
        if (tx->vout.size() != nrec + (change_pos ? 1 : 0))
            ctx.failf("output-count-mismatch", "%s: %zu outputs for %zu recipients and %s change", W, tx->vout.size(), nrec, change_pos ? "one" : "no");
        std::vector<int> out_of(nrec, -1);
        std::vector<char> used(tx->vout.size(), 0);
        if (change_pos) used[*change_pos] = 1;
        for (size_t i = 0; i < nrec; ++i) {
            for (size_t j = 0; j < tx->vout.size(); ++j)
                if (!used[j] && tx->vout[j].scriptPubKey == q.recs[i].spk) { out_of[i] = (int)j; used[j] = 1; break; }
            if (out_of[i] < 0) ctx.failf("recipient-not-paid", "%s: no output pays recipient %zu", W, i);
            if ((size_t)out_of[i] != i + (change_pos && *change_pos <= i ? 1 : 0)) ctx.probe("recipients_out_of_order");
        }
        CAmount out_value = 0;
        for (auto& o : tx->vout) out_value += o.nValue;
        const CAmount change_value = change_pos ? tx->vout[*change_pos].nValue : 0;
        int n_sffo = 0;
        CAmount reduced = 0, requested_sum = 0;
        for (size_t i = 0; i < nrec; ++i) {
            const CAmount paid = tx->vout[out_of[i]].nValue;
            requested_sum += q.recs[i].amount;
            if (!q.recs[i].sffo) {
                if (paid != q.recs[i].amount) ctx.failf("recipient-amount-wrong", "%s: recipient %zu asked for %ld and is paid %ld", W, i, (long)q.recs[i].amount, (long)paid);
            } else {
                ++n_sffo;
                reduced += q.recs[i].amount - paid;
            }
        }
        std::optional<CAmount> fee;
        if (in_value_known) fee = in_value - out_value;
        if (n_sffo > 0) {
            // equal shares, the first fee-paying recipient also pays what does not divide
            const CAmount share = reduced / n_sffo, rest = reduced % n_sffo;
            bool first = true;
            for (size_t i = 0; i < nrec; ++i) {
                if (!q.recs[i].sffo) continue;
                const CAmount d = q.recs[i].amount - tx->vout[out_of[i]].nValue;
                const CAmount want = share + (first ? rest : 0);
                if (d != want)
                    ctx.failf("sffo-fee-share-unequal", "%s: recipient %zu is reduced by %ld, its share of %ld among %d is %ld", W, i, (long)d, (long)reduced, n_sffo, (long)want);
                first = false;
            }
            if (rest != 0) ctx.probe("sffo_remainder_paid_by_first");
            if (fee) {
                if (change_pos && reduced != *fee)
                    ctx.failf("sffo-shares-do-not-sum-to-fee", "%s: the fee is %ld but the fee-paying recipients are reduced by %ld in total (change %ld)", W, (long)*fee, (long)reduced, (long)change_value);
                // without change: fee = reduced + (inputs - requested amounts); the leftover of the inputs pays part of the fee
                if (!change_pos && reduced > *fee)
                    ctx.failf("sffo-shares-exceed-fee", "%s: the fee is %ld but the fee-paying recipients are reduced by %ld in total", W, (long)*fee, (long)reduced);
                if (!change_pos && reduced < *fee) ctx.probe("sffo_leftover_pays_part_of_fee");
                if (reduced < 0) {
                    Defer("sffo-recipient-paid-more-than-requested", "%s: the recipients asked for %ld in total and the fee-paying ones are paid %ld MORE than they asked for (fee %ld, no change output): the leftover of the inputs goes to the recipient", W,
                          (long)requested_sum, (long)-reduced, (long)*fee);
                    ctx.probe("sffo_recipient_overpaid");
                }
            }
            ctx.probe("sffo_checked");
        }
        if (change_pos) {
            const CScript& cspk = tx->vout[*change_pos].scriptPubKey;
            std::set<CScript> all = wn->AllScripts(*w);
            if (!all.count(cspk)) ctx.failf("change-not-to-wallet", "%s: the change output pays a script that no descriptor of the wallet produces", W);
            S.insert(cspk);
            if (q.dest_change) {
                if (cspk != *q.dest_change) ctx.failf("change-not-to-requested-destination", "%s: a change destination was supplied but the change goes elsewhere", W);
                ctx.probe("change_to_supplied_destination");
            } else if (std::optional<OutputType> want = q.change_type ? q.change_type : knob_change_type) {
                std::optional<OutputType> got = TypeOfScript(cspk);
                if (!got || *got != *want)
                    ctx.failf("change-type-not-as-requested", "%s: change type %s requested, the change script is %s", W, FormatOutputType(*want).c_str(), got ? FormatOutputType(*got).c_str() : "of no address type");
                ctx.probe("change_type_checked");
            }
            ctx.probe("change_output");
        } else ctx.probe("no_change_output");
        // ---- fee ----
        std::optional<int64_t> rate = q.feerate;
        if (!rate && fallback_fee > 0) rate = fallback_fee;
        if (fee) {
            if (*fee < 0) ctx.failf("outputs-exceed-inputs", "%s: inputs %ld, outputs %ld", W, (long)in_value, (long)out_value);
            if (*fee > max_tx_fee) ctx.failf("fee-above-max-tx-fee", "%s: fee %ld, -maxtxfee %ld", W, (long)*fee, (long)max_tx_fee);
            if (is_signed && rate) {
                const int64_t vsize = GetVirtualTransactionSize(*tx);
                if ((__int128)*fee * 1000 < (__int128)*rate * vsize)
                    ctx.failf("fee-below-requested-feerate", "%s: fee %ld for %ld vbytes is below %ld sat/kvB (needs %ld)", W, (long)*fee, (long)vsize, (long)*rate, (long)((*rate * vsize + 999) / 1000));
                if (*fee == max_tx_fee) ctx.probe("fee_equals_max");
                ctx.probe("fee_checked");
                if (!change_pos && n_sffo == 0 && (__int128)*fee * 1000 > (__int128)*rate * vsize + 1000) ctx.probe("leftover_dropped_to_fee");
            }
        } else ctx.probe("fee_undecided_unknown_input_value");
        // ---- the node's opinion ----
        bool all_standard = true;
        for (auto& r : q.recs) all_standard &= r.standard;
        if (!is_signed) ctx.probe("accept_undecided_unsigned");
        else if (!all_standard) ctx.probe("accept_not_claimed_nonstandard_recipient");
        else if (!rate || *rate < node_min_feerate) ctx.probe("accept_not_claimed_feerate_below_node_minimum");
        else if (!q.presets_spendable) ctx.probe("accept_not_claimed_unspendable_preset");
        else {
            MempoolAcceptResult::ResultType rt;
            std::string reason, debug;
            {
                LOCK(cs_main);
                const MempoolAcceptResult res = node().cm().ProcessTransaction(tx, /*test_accept=*/true);
                rt = res.m_result_type;
                reason = res.m_state.GetRejectReason();
                debug = res.m_state.GetDebugMessage();
            }
            ctx.evf("testaccept %s -> %s %s", Hx(tx->GetHash()).c_str(), rt == MempoolAcceptResult::ResultType::VALID ? "ok" : "rejected", reason.c_str());
            if (rt != MempoolAcceptResult::ResultType::VALID) {
                std::string cls = "testmempoolaccept-rejects-" + reason;
                for (auto& c : cls)
                    if (!isalnum((unsigned char)c) && c != '-') c = '-';
                if (reason == "tx-size-small") {
                    // known divergence (one input, one recipient with a 4-byte script: 64 bytes without witness): reported at the end of the run
                    Defer(cls.c_str(), "%s: standard recipients, feerate %ld >= node minimum %ld, but the node says: %s (non-witness size %zu)", W, (long)*rate, (long)node_min_feerate, reason.c_str(),
                          GetSerializeSize(TX_NO_WITNESS(*tx)));
                    ctx.probe("created_tx_below_minimum_standard_size");
                    return;
                }
                ctx.failf(cls.c_str(), "%s: standard recipients, feerate %ld >= node minimum %ld, but the node says: %s (%s)", W, (long)*rate, (long)node_min_feerate, reason.c_str(), debug.c_str());
            }
            ctx.probe("testmempoolaccept_ok");
        }
    }

    void OpCreate(const Op& op)
    {
        Rng r(mix64((uint64_t)op.arg(CA_SEED), 0x63726561));
        const int64_t flags = op.arg(CA_FLAGS);
        View v = MakeView();
        std::vector<MCoin> coins = ModelCoins(v);
        CAmount total_all = 0, spendable_total = 0, foreign_total = 0;
        std::vector<const MCoin*> spendable;
        for (auto& c : coins) {
            total_all += c.value;
            if (c.immature || (c.coinbase && c.depth <= kConsensusMaturity) || c.is_locked) continue;
            if (c.foreign) { foreign_total += c.value; continue; }
            spendable_total += c.value;
            spendable.push_back(&c);
        }
        Request q;
        wallet::CCoinControl cc;
        // ---- caller-supplied inputs ----
        CAmount preset_value = 0, external_value = 0;
        auto preset_coin = [&](const MCoin& c) {
            if (!q.presets.insert(c.op).second) return;
            cc.Select(c.op);
            preset_value += c.value;
            if (c.immature) q.presets_spendable = false;
        };
        int pm = (int)op.mod(CA_PRESET, P_NMODES);
        switch (pm) {
        case P_SPENDABLE:
            for (int k = (int)r.range(1, 3); k > 0 && !spendable.empty(); --k) preset_coin(*spendable[r.below(spendable.size())]);
            break;
        case P_LOCKED:
            for (auto& c : coins)
                if (c.is_locked && !c.immature) { preset_coin(c); ctx.probe("preset_locked_coin"); break; }
            break;
        case P_UNSAFE:
            for (auto& c : coins)
                if (c.foreign && !c.is_locked) { preset_coin(c); ctx.probe("preset_unconfirmed_foreign_coin"); break; }
            break;
        case P_IMMATURE:
            for (auto& c : coins)
                if (c.immature) { preset_coin(c); ctx.probe("preset_immature_coinbase"); break; }
            break;
        case P_EXTERNAL:
            for (auto& g : GenCoins()) {
                if (Keys().Classify(g.coin.spk).kind != SK::P2WPKH) continue;
                CTxOut txout(g.coin.value, g.coin.spk);
                cc.Select(g.op).SetTxOut(txout);
                const CPubKey& pub = Keys().pubs[Keys().Classify(g.coin.spk).key];
                cc.m_external_provider.pubkeys.emplace(pub.GetID(), pub);
                q.presets.insert(g.op);
                q.external[g.op] = txout;
                external_value += g.coin.value;
                preset_value += g.coin.value;
                ctx.probe("preset_external_coin");
                break;
            }
            break;
        case P_OWN_CHANGE:
            for (size_t k = own_change.size(); k-- > 0;) {
                auto it = std::find_if(coins.begin(), coins.end(), [&](const MCoin& c) { return c.op == own_change[k] && c.depth == 0; });
                if (it != coins.end()) { preset_coin(*it); ctx.probe("preset_own_unconfirmed_change"); break; }
            }
            break;
        case P_CONFLICT:
            if (!sends.empty()) {
                const CTransaction& A = *sends[sends.size() - 1 - r.below(std::min<size_t>(sends.size(), 4))];
                size_t take = r.chance(1, 2) ? 1 : A.vin.size();
                for (size_t k = 0; k < take; ++k) {
                    const COutPoint& p = A.vin[k].prevout;
                    std::optional<CTxOut> o = KnownOutput(p);
                    if (!o || !Mine(o->scriptPubKey)) continue;
                    if (q.presets.insert(p).second) { cc.Select(p); preset_value += o->nValue; }
                }
                if (!q.presets.empty()) { q.presets_spendable = false; ctx.probe("preset_inputs_of_earlier_send"); }
            }
            break;
        default: break;
        }
        // ---- coin control ----
        if (op.arg(CA_FEERATE) >= 0) {
            q.feerate = std::min<int64_t>(op.arg(CA_FEERATE), 100000000);
            cc.m_feerate = CFeeRate(*q.feerate);
            q.override_feerate = (flags & F_OVERRIDE) != 0;
            cc.fOverrideFeeRate = q.override_feerate;
        }
        if (int cs_ = (int)op.mod(CA_CHANGE, 5)) { q.change_type = OUTPUT_TYPES[cs_ - 1]; cc.m_change_type = q.change_type; }
        if (flags & F_DESTCHANGE) {
            CScript spk;
            if (r.chance(1, 2) || addrs.empty()) {
                auto d = wn->NewChangeAddress(*w, OUTPUT_TYPES[r.below(4)]);
                if (d) { spk = WalletNode::ScriptFor(*d); S.insert(spk); cc.destChange = *d; }
            } else {
                const Addr& a = addrs[r.below(addrs.size())];
                spk = a.spk;
                cc.destChange = a.dest;
            }
            if (!spk.empty()) q.dest_change = spk;
        }
        cc.m_include_unsafe_inputs = (flags & F_UNSAFE) != 0;
        cc.m_avoid_partial_spends = (flags & F_APS) != 0;
        if (flags & F_NORBF) cc.m_signal_bip125_rbf = false;
        if (flags & F_LOCKTIME) cc.m_locktime = (uint32_t)r.range(0, v.height);
        switch (op.mod(CA_DEPTH, 6)) {
        case 1: cc.m_min_depth = 1; break;
        case 2: cc.m_min_depth = 6; break;
        case 3: cc.m_min_depth = 100; break;
        case 4: cc.m_max_depth = (int)r.range(1, 50); break;
        case 5: cc.m_min_depth = 1; cc.m_max_depth = 110; break;
        default: break;
        }
        int am = (int)op.mod(CA_AMOUNT, A_NMODES);
        if ((am == A_SWEEP_EXACT || am == A_SWEEP_DELTA) && q.presets.empty()) am = A_MODERATE;
        q.allow_other = !(flags & F_NO_OTHER) && am != A_SWEEP_EXACT && am != A_SWEEP_DELTA;
        cc.m_allow_other_inputs = q.allow_other;
        q.sign = !(flags & F_NOSIGN) && q.external.empty();
        // ---- recipients ----
        int nrec = (int)std::clamp<int64_t>(op.arg(CA_NREC), 1, 5);
        int special = (int)r.below(nrec);
        for (int i = 0; i < nrec; ++i) {
            Rec rc{CNoDestination{}, CScript(), 0, ((op.arg(CA_SFFO) >> i) & 1) != 0, true};
            bool zero = false;
            if ((flags & F_OPRETURN) && i == special) {
                std::vector<unsigned char> data(r.range(0, 75));
                r.fill(data.data(), data.size());
                rc.dest = CNoDestination(CScript() << OP_RETURN << data);
                rc.sffo = false;
                zero = true;
            } else if ((flags & F_NONSTD) && i == (special + 1) % nrec) {
                rc.dest = CNoDestination(r.coin() ? (CScript() << OP_TRUE) : (CScript() << OP_2 << OP_ADD << OP_3 << OP_EQUAL));
                rc.standard = false;
            } else if ((flags & F_SELF) && i == 0) {
                rc.dest = WalletNode::DestFor(WalletSpk(r, r.chance(1, 2)));
            } else if ((flags & F_DUP) && i > 0 && i == nrec - 1) {
                rc.dest = q.recs[0].dest;
                rc.standard = q.recs[0].standard;
            } else {
                rc.dest = RandomDest(r, rc.standard);
            }
            rc.spk = GetScriptForDestination(rc.dest);
            rc.amount = zero ? 0 : -1;
            q.recs.push_back(rc);
        }
        // amounts: split `sum` over the recipients that are not OP_RETURN
        auto split = [&](CAmount sum) {
            std::vector<size_t> idx;
            for (size_t i = 0; i < q.recs.size(); ++i)
                if (q.recs[i].amount < 0) idx.push_back(i);
            if (idx.empty()) return;
            CAmount left = std::max<CAmount>(sum, 0);
            for (size_t k = 0; k + 1 < idx.size(); ++k) {
                CAmount a = (CAmount)((double)left * (double)r.range(10, 60) / 100.0);
                q.recs[idx[k]].amount = a;
                left -= a;
            }
            q.recs[idx.back()].amount = left;
        };
        const int64_t rate_guess = q.feerate ? *q.feerate : std::max<int64_t>(fallback_fee, 1000);
        switch (am) {
        case A_SMALL:
            for (auto& rc : q.recs)
                if (rc.amount < 0) rc.amount = r.chance(1, 12) ? r.range(0, 545) : r.range(546, 200000);
            break;
        case A_DUSTY:
            for (auto& rc : q.recs)
                if (rc.amount < 0) rc.amount = r.range(200, 700);
            break;
        case A_MODERATE: split(std::max<CAmount>(2000 * nrec, (CAmount)((double)std::max<CAmount>(spendable_total, 100000) * (double)r.range(1, 25) / 100.0))); break;
        case A_MOST: {
            CAmount base = spendable_total + ((flags & F_UNSAFE) ? foreign_total : 0) + preset_value;
            split((CAmount)((double)std::max<CAmount>(base, 100000) * (double)r.range(55, 99) / 100.0));
            break;
        }
        case A_EXCEED:
            split(total_all + external_value + r.range(1, 1000000));
            break;
        case A_SWEEP_EXACT: split(preset_value); break;
        default: { // A_SWEEP_DELTA
            bool any_sffo = false;
            for (auto& rc : q.recs) any_sffo |= rc.sffo;
            CAmount approx_fee = any_sffo ? 0 : (CAmount)(rate_guess * (11 + 34 * nrec + 75 * (int64_t)q.presets.size()) / 1000);
            split(preset_value - approx_fee - r.range(any_sffo ? 1 : 0, 1500));
            break;
        }
        }
        CAmount requested = 0;
        bool any_sffo = false;
        std::vector<wallet::CRecipient> vec;
        for (auto& rc : q.recs) {
            rc.amount = std::clamp<CAmount>(rc.amount, 0, MAX_MONEY);
            requested += rc.amount;
            any_sffo |= rc.sffo;
            vec.push_back(wallet::CRecipient{rc.dest, rc.amount, rc.sffo});
        }
        if (requested > total_all + external_value) q.must_fail = "the recipients ask for more than every coin of the wallet plus the supplied external inputs are worth";
        if (!q.allow_other && !q.must_fail && preset_value < requested) q.must_fail = "other inputs are not allowed and the supplied inputs are worth less than the recipients ask for";
        std::optional<unsigned> want_pos;
        if (flags & F_CHANGEPOS) want_pos = (unsigned)r.below(nrec + 1) + (r.chance(1, 20) ? 2 : 0);

        // ---- the call ----
        bool ok = false;
        std::string error;
        CTransactionRef tx;
        CAmount reported_fee = 0;
        std::optional<unsigned> change_pos;
        try {
            auto res = wallet::CreateTransaction(*w, vec, want_pos, cc, q.sign);
            if (res) { ok = true; tx = res->tx; reported_fee = res->fee; change_pos = res->change_pos; }
            else error = util::ErrorString(res).original;
        } catch (const std::exception& e) {
            error = std::string("exception: ") + e.what();
        }
        Settle();
        std::string what = Describe(op);
        ctx.nontrivial = true;
        if (!ok) {
            ctx.evf("create failed: %s", error.c_str());
            if (error.empty()) ctx.failf("create-failed-without-reason", "%s", what.c_str());
            if (error.find("nternal bug") != std::string::npos || error.rfind("exception:", 0) == 0)
                ctx.failf("create-failed-internal-bug", "%s: %s", what.c_str(), error.c_str());
            ctx.probe(ErrorKind(error));
            ctx.probe("create_failed");
            if (q.must_fail) ctx.probe("must_fail_case_failed");
            last_result_hash = strhash(error);
            return;
        }
        Register(tx);
        ctx.evf("created %s nin=%zu nout=%zu fee=%ld change=%d requested=%ld sffo=%d", Hx(tx->GetHash()).c_str(), tx->vin.size(), tx->vout.size(), (long)reported_fee, change_pos ? (int)*change_pos : -1, (long)requested, (int)any_sffo);
        ctx.probe("create_ok");
        if (tx->vin.size() > 1) ctx.probe("created_multi_input");
        bool is_signed = q.sign;
        CTransactionRef final_tx = tx;
        if (!q.sign) {
            final_tx = SignLater(tx, q, is_signed);
            Register(final_tx);
            ctx.probe(is_signed ? "signed_after_creation" : "signing_after_creation_incomplete");
        }
        Judge(q, v, final_tx, change_pos, is_signed, what);
        if (!change_pos && !any_sffo && !q.allow_other && q.sign && reported_fee > 2000 && (op.arg(CA_AFTER) / AF_NMODES) % 2 == 0) {
            // no change output: what is left over went into the fee. The same request under a maximum fee one satoshi below what was
            // just paid must be refused, or answered with a cheaper transaction - never with one that pays more than the maximum.
            const CAmount saved = w->m_default_max_tx_fee;
            w->m_default_max_tx_fee = reported_fee - 1;
            CAmount fee2 = -1;
            try {
                auto res2 = wallet::CreateTransaction(*w, vec, want_pos, cc, q.sign);
                if (res2) {
                    Register(res2->tx);
                    CAmount in2 = 0, out2 = 0;
                    bool all_known = true;
                    for (auto& in : res2->tx->vin) { auto ko = KnownOutput(in.prevout); if (ko) in2 += ko->nValue; else all_known = false; }
                    for (auto& o : res2->tx->vout) out2 += o.nValue;
                    if (all_known) fee2 = in2 - out2;
                }
            } catch (const std::exception&) {
            }
            w->m_default_max_tx_fee = saved;
            Settle();
            ctx.probe("recreated_under_max_fee_just_below_fee_paid");
            if (fee2 > reported_fee - 1) ctx.failf("fee-above-max-tx-fee", "%s: with the maximum transaction fee set to %ld the wallet created a transaction paying %ld", what.c_str(), (long)(reported_fee - 1), (long)fee2);
        }
        if (q.must_fail) ctx.failf("created-although-it-cannot-be-funded", "%s: %s", what.c_str(), q.must_fail);
        last_result_hash = final_tx->GetHash().ToUint256().GetUint64(0);
        if (want_pos && change_pos && *want_pos != *change_pos) ctx.probe("change_pos_not_as_requested");
        if (!is_signed) return;
        // ---- what becomes of it ----
        int after = (int)op.mod(CA_AFTER, AF_NMODES);
        if (after == AF_COMMIT && !q.external.empty()) after = AF_SUBMIT; // CommitTransaction is for transactions whose inputs are all in the wallet
        switch (after) {
        case AF_COMMIT: {
            wn->Commit(*w, final_tx);
            for (auto& in : final_tx->vin) locked.erase(in.prevout); // a coin is unlocked when a transaction spending it enters the wallet
            Settle();
            sends.push_back(final_tx);
            if (change_pos) own_change.emplace_back(final_tx->GetHash(), *change_pos);
            bool inpool = node().pool().exists(final_tx->GetHash());
            ctx.evf("committed inpool=%d", (int)inpool);
            ctx.probe(inpool ? "committed_tx_in_mempool" : "committed_tx_not_in_mempool");
            break;
        }
        case AF_SUBMIT:
            if (SubmitToNode(final_tx, "created")) ctx.probe("created_tx_submitted_externally");
            break;
        case AF_HOLD:
            held.push_back(final_tx);
            ctx.probe("created_tx_held_for_block");
            break;
        default: break;
        }
    }

    /** Every small confirmed coin of the wallet as preset inputs, one recipient who pays the fee, explicit feerate: the fee actually paid
     *  must cover the requested feerate on the signed size (the size estimate has to get the input-count encoding right). */
    void OpSweepMany(const Op& op)
    {
        View v = MakeView();
        wallet::CCoinControl cc;
        cc.m_allow_other_inputs = false;
        const CFeeRate rate{(CAmount)std::clamp<int64_t>(op.arg(0), 1000, 100000)};
        cc.m_feerate = rate;
        cc.fOverrideFeeRate = true;
        CAmount total = 0;
        size_t n = 0;
        for (const MCoin& c : ModelCoins(v)) {
            if (c.depth < 1 || c.coinbase || c.is_locked || c.value > 100000) continue;
            cc.Select(c.op);
            total += c.value;
            ++n;
        }
        if (n < 253) { ctx.evf("sweep-many: only %zu small coins", n); return; }
        Rng r(mix64((uint64_t)op.arg(1), 0x73776d));
        std::vector<wallet::CRecipient> vec{wallet::CRecipient{WalletNode::DestFor(Keys().Spk(SK::P2WPKH, (int)r.below(N_KEYS))), total, /*fSubtractFeeFromAmount=*/true}};
        auto res = wallet::CreateTransaction(*w, vec, std::nullopt, cc, /*sign=*/true);
        Settle();
        if (!res) { ctx.evf("sweep-many failed: %s", util::ErrorString(res).original.c_str()); ctx.probe("sweep_many_failed"); return; }
        CTransactionRef tx = res->tx;
        Register(tx);
        ctx.probe("created_with_more_than_252_inputs");
        ctx.nontrivial = true;
        CAmount out = 0;
        for (auto& o : tx->vout) out += o.nValue;
        const CAmount fee = total - out;
        const int64_t vsize = GetVirtualTransactionSize(*tx);
        if (tx->vin.size() != n) ctx.failf("inputs-not-the-supplied-ones", "sweep of %zu supplied coins has %zu inputs", n, tx->vin.size());
        if (fee * 1000 < rate.GetFeePerK() * vsize) ctx.failf("fee-below-requested-feerate", "sweep of %zu inputs: fee %ld for %ld vbytes is below the requested %ld sat/kvB", n, (long)fee, (long)vsize, (long)rate.GetFeePerK());
        if (fee > w->m_default_max_tx_fee) ctx.failf("fee-above-max-tx-fee", "sweep of %zu inputs pays %ld, -maxtxfee is %ld", n, (long)fee, (long)w->m_default_max_tx_fee);
        ctx.evf("sweep-many nin=%zu fee=%ld vsize=%ld", n, (long)fee, (long)vsize);
    }

    void Exec(const Op& op)
    {
        switch (op.kind) {
        case C_RECEIVE: OpReceive(op); break;
        case C_MINE: OpMine(op); break;
        case C_REORG: OpReorg(op); break;
        case C_CREATE: OpCreate(op); break;
        case C_LOCK: OpLock(op); break;
        case C_UNLOCK: OpUnlock(op); break;
        case C_NEWADDR: NewAddr(op.mod(0, 4)); ctx.ev("newaddr"); break;
        case C_SWEEPMANY: OpSweepMany(op); break;
        case C_CLOCK:
            cs.now += std::clamp<int64_t>(op.arg(0), 1, 100000);
            SetMockTime(std::chrono::seconds{cs.now});
            ctx.evf("clock+%ld", (long)op.arg(0));
            break;
        default: break;
        }
        Settle();
        uint64_t fp = mix64(node().TipHash().GetUint64(0), node().pool().size());
        fp = mix64(fp, locked.size() * 1000003 + S.size());
        fp = mix64(fp, last_result_hash);
        ctx.fingerprint(fp);
    }

    void Run()
    {
        Setup();
        for (const Op& op : ctx.plan.ops) Exec(op);
        ctx.sim_ms = (uint64_t)(cs.now - start_time) * 1000;
        w.reset();
        wn->Detach();
        node().Stop(true);
        if (deferred) throw *deferred;
    }
};

void Run(Ctx& ctx)
{
    CreateSim s(ctx);
    s.Run();
}

Engine MakeEngine()
{
    Engine e;
    e.prop = "C41";
    e.name = "walletsim/create-transaction";
    e.level = "exploration";
    e.gen = Gen;
    e.run = Run;
    e.describe = Describe;
    e.chunk = 1;
    e.quick_runs = 500;
    e.thorough_runs = 12000;
    e.quick_budget_s = 50;
    e.thorough_budget_s = 900;
    e.run_timeout_s = 300;
    e.rule = "each run = one history on a real regtest node with a real descriptor wallet (SQLite, HD seed from the plan; per-run -maxtxfee, -mintxfee, -fallbackfee, -changetype, -maxapsfee, -spendzeroconfchange, keypool) attached "
             "through interfaces::Chain since genesis: a base chain of 104-124 blocks whose coinbases pay the wallet with a per-run probability (mature and immature coinbases on both sides of the maturity boundary), then 16-70 "
             "operations: external receives of 1-6 outputs (600 sat to a few coins, all four address types, address reuse) into the mempool, blocks with seeded subsets of the mempool and of held conflicting spends, reorgs of depth 1-5, "
             "lockunspent/unlock, new addresses, clock jumps, and (46% of the operations) wallet::CreateTransaction with 1-5 recipients (P2PKH, P2SH, P2WPKH, P2WSH, P2TR, future witness versions, P2PK, P2A, OP_RETURN, non-standard scripts, the "
             "wallet itself, duplicates), amounts from below dust to more than the wallet owns, subtract-fee masks, explicit feerates from 0 to 30000 sat/vB (with and without fOverrideFeeRate) or the fallback fee, preset inputs "
             "(spendable, locked, unconfirmed foreign, immature, external with solving data, own unconfirmed change, inputs of an earlier send), sweeps of preset inputs with and without leftover, m_allow_other_inputs, "
             "m_include_unsafe_inputs, m_min_depth/m_max_depth, m_avoid_partial_spends, every change type, destChange, fixed change position, locktime, sign now or later. A created transaction is discarded, committed, submitted "
             "to the node without the wallet, or held and confirmed as a conflict of an earlier send. The oracle judges every successful call. non-trivial = at least one CreateTransaction call; distinct = (tip, mempool size, "
             "locks, wallet scripts, last result) fingerprints.";
    e.real_components = {"wallet::CreateTransaction / CreateTransactionInternal, FetchSelectedInputs, AvailableCoins, SelectCoins / AutomaticCoinSelection / AttemptSelection / ChooseSelectionResult (BnB, knapsack, SRD, CoinGrinder), "
                         "CalculateMaximumSignedTxSize, GetMinimumFeeRate, DiscourageFeeSniping, CWallet::SignTransaction, ReserveDestination, LockCoin/UnlockCoin, CommitTransaction",
                         "wallet::CWallet transaction tracking (SyncTransaction, blockConnected/blockDisconnected, conflicts)", "DescriptorScriptPubKeyMan (HD derivation, keypool top-up)", "wallet SQLite database",
                         "interfaces::Chain (node/interfaces.cpp ChainImpl) incl. bump-fee calculation and checkChainLimits", "ChainstateManager, CTxMemPool + MemPoolAccept (test_accept) with standardness rules, ValidationSignals"};
    e.stub_components = {"peers (PeerManager stub: relay is a no-op)", "clock (SetMockTime)", "scheduler (none: notifications are delivered by the deferred task runner and drained after every operation)",
                         "fee estimator (none: fallback fee or explicit feerate)", "HD seed (derived from the plan instead of GetStrongRandBytes)"};
    e.assumptions = {"RefChain's UTXO(tip) is the chain's truth (see C08/C09); unspent = in UTXO(tip) or an output of a mempool transaction, and not spent by a mempool transaction",
                     "the wallet's script set is the set of addresses it handed out plus the change scripts it produced (each verified against the scripts of its descriptors); nobody pays its look-ahead scripts",
                     "mature = a coinbase output has at least 100 confirmations (the consensus rule for a transaction of the next block; the wallet itself waits for 101)",
                     "locked = locked by lockunspent and not spent since by a transaction shown to the wallet (documented: spending a coin unlocks it); if the model's lock set and the wallet's disagree the clause is left undecided (probe lock_model_disagrees)",
                     "requested feerate = CCoinControl::m_feerate if given, else the configured -fallbackfee (there is no estimator); final size = GetVirtualTransactionSize of the fully signed transaction "
                     "(transactions created with sign=false are signed afterwards by the wallet and, for the external input, by its owner)",
                     "subtract-fee: the fee-paying recipients are reduced by equal shares, the first one also by the indivisible rest; with a change output the reductions sum to the fee exactly; without one the leftover of the inputs "
                     "(inputs - requested amounts, too small for a change output) pays part of the fee and the recipients the rest. A recipient being paid MORE than it asked for (leftover larger than the fee) is reported as "
                     "sffo-recipient-paid-more-than-requested at the end of the run",
                     "the test-accept clause is claimed only when every recipient is standard by construction, the requested feerate is >= max(minrelaytxfee, mempool minimum), every caller-supplied input is itself unspent and mature, and a "
                     "caller-supplied locktime is not in the future",
                     "a created transaction that the node refuses as tx-size-small (one input, one recipient with a 4-byte script, no change: 64 bytes without witness) is reported as testmempoolaccept-rejects-tx-size-small at the end of the "
                     "run (known finding); every other test-accept rejection fails the run at once",
                     "change must go to a script of the wallet's descriptors; to destChange if supplied; of m_change_type / -changetype if set",
                     "failures are legal with any non-empty reason except an internal-bug report or an exception; a call that cannot be funded by construction must fail"};
    e.expected_probes = {"create_ok", "create_failed", "created_multi_input", "input_supplied_by_caller", "input_external", "preset_locked_coin", "preset_unconfirmed_foreign_coin", "preset_immature_coinbase", "preset_own_unconfirmed_change",
                         "preset_inputs_of_earlier_send", "selected_unconfirmed_foreign_coin", "selected_own_unconfirmed_coin", "selected_mature_coinbase", "sffo_checked", "sffo_remainder_paid_by_first", "sffo_leftover_pays_part_of_fee",
                         "change_output", "no_change_output", "change_type_checked", "change_to_supplied_destination", "fee_checked", "leftover_dropped_to_fee", "testmempoolaccept_ok", "accept_not_claimed_nonstandard_recipient",
                         "accept_not_claimed_feerate_below_node_minimum", "signed_after_creation", "must_fail_case_failed", "fail_insufficient_funds", "fail_recipient_dust", "fail_sffo_amount_below_fee", "fail_sffo_leaves_dust",
                         "fail_feerate_below_wallet_minimum", "fail_max_tx_fee", "fail_no_fallback_fee", "fail_presets_do_not_cover", "fail_fee_not_covered", "committed_tx_in_mempool", "created_tx_held_for_block", "held_conflict_in_block",
                         "locked_confirmed_coin", "lock_released_by_spend", "receive_unconfirmed", "reorg", "keypool_topup", "coinbase_to_wallet"};
    return e;
}
Engine g_engine = MakeEngine();
SIM_REGISTER_ENGINE(g_engine);

} // namespace
