// C58 — unrequested blocks cannot fill the node's storage.
// nodesim: a real regtest node (ChainstateManager + BlockManager with real blk*.dat files) is given blocks through
// ProcessNewBlock(force_processing=false) ("a peer pushed a block we never asked for") at every position relative to the
// active tip that the statement names: less / equal / more work than the tip, heights tip+{287,288,289} (header chains
// ~290 long, delivered header-first or not at all), with -minimumchainwork below, at and above the block's chain work;
// then the same block is delivered again with force_processing=true ("now we asked for it").
// Storage is observed from the outside: the BLOCK_HAVE_DATA bit of the index entry and an own parser of the (XOR-obfuscated)
// blk*.dat files that counts the records that were appended during the call.
#include "../core/sim.h"
#include "../nodesim/chainsim.h"

#include <arith_uint256.h>
#include <chain.h>
#include <hash.h>
#include <util/time.h>
#include <validation.h>

#include <fcntl.h>
#include <sys/stat.h>
#include <unistd.h>

#include <algorithm>
#include <array>

using namespace sim;
using namespace nodesim;

namespace {

/** "at most 288 blocks above the tip" — the constant of the property statement (not taken from validation.h). */
constexpr int kWindow = 288;

enum { OP_CHAIN = 100, OP_UNREQ = 101, OP_REQ = 102, OP_HEADERS = 103, OP_REGRESS = 104 };

/** How a delivery op picks its block, relative to the active tip at the time the op executes. */
enum Cat { CAT_ANY = 0, CAT_PLUS_288, CAT_PLUS_289, CAT_PLUS_287, CAT_NEAR_ABOVE, CAT_EQUAL_WORK, CAT_LESS_WORK, CAT_MIN_WORK_EDGE, CAT_DROPPED_BEFORE, CAT_TIP_CHILD, CAT_OWN_DEFECT, N_CATS };
const char* kCatNames[N_CATS] = {"any", "tip+288", "tip+289", "tip+287", "tip+1..3", "equal-work", "less-work", "min-chain-work-edge", "dropped-before", "child-of-tip", "labelled-invalid"};

/** Defects that need no spendable input (the chains here are empty blocks). */
const int kDefects[] = {D_NONE, D_WRONG_BIP34, D_CB_OVERPAY, D_BAD_COMMITMENT, D_BAD_MERKLE, D_BAD_POW, D_TIME_TOO_OLD, D_SECOND_COINBASE, D_OLD_VERSION};
constexpr int kNDefects = sizeof(kDefects) / sizeof(kDefects[0]);

std::string Describe(const Op& op)
{
    char b[256];
    static const char* pc[] = {"tip", "ancestor-of-tip", "any", "last-mined"};
    static const char* hm[] = {"all", "none", "prefix"};
    switch (op.kind) {
    case OP_CHAIN:
        if (op.mod(2, 2))
            snprintf(b, sizeof b, "mine_chain(parent=%s#%ld, until height tip+%ld, headers=%s#%ld, defect=%s at %s#%ld)", pc[op.mod(0, 4)], (long)op.arg(1), (long)(286 + op.mod(3, 6)), hm[op.mod(5, 3)],
                     (long)op.arg(6), DefectName(kDefects[op.mod(7, kNDefects)]), op.mod(8, 2) ? "pos" : "last", (long)op.arg(9));
        else
            snprintf(b, sizeof b, "mine_chain(parent=%s#%ld, len=%ld, headers=%s#%ld, defect=%s at %s#%ld)", pc[op.mod(0, 4)], (long)op.arg(1), (long)(1 + op.mod(3, 6)), hm[op.mod(5, 3)], (long)op.arg(6),
                     DefectName(kDefects[op.mod(7, kNDefects)]), op.mod(8, 2) ? "pos" : "last", (long)op.arg(9));
        break;
    case OP_UNREQ: snprintf(b, sizeof b, "FAULT unrequested_block(%s#%ld, times=%ld)%s", kCatNames[op.mod(0, N_CATS)], (long)op.arg(1), (long)std::clamp<int64_t>(op.arg(3), 1, 2), op.arg(2) ? " then requested_block(same)" : ""); break;
    case OP_REQ: snprintf(b, sizeof b, "requested_block(%s#%ld)", kCatNames[op.mod(0, N_CATS)], (long)op.arg(1)); break;
    case OP_REGRESS: snprintf(b, sizeof b, "tip falls back below the minimum chain work (invalidateblock) after the node left initial block download, then FAULT unrequested child of the new tip, then reconsiderblock"); break;
    case OP_HEADERS: snprintf(b, sizeof b, "headers(up to %s#%ld)", kCatNames[op.mod(0, N_CATS)], (long)op.arg(1)); break;
    default: snprintf(b, sizeof b, "?");
    }
    return b;
}

Plan Gen(uint64_t seed, Tier tier)
{
    Rng rng(seed);
    Plan p;
    const int base = (int)(rng.chance(6, 10) ? rng.range(1, 6) : rng.chance(3, 4) ? rng.range(7, 30) : rng.range(31, 60));
    p.knobs["base"] = base;
    // -minimumchainwork in half-block units: a block at height h has chain work 2*(h+1) half units
    const int64_t tipw = 2 * (int64_t)(base + 1);
    int64_t mcw = 0;
    switch (rng.pick({20, 15, 25, 30, 10})) {
    case 0: mcw = 0; break;                                          // option absent (regtest default: 0)
    case 1: mcw = std::max<int64_t>(1, tipw - rng.range(0, tipw)); break; // at or below the tip's work
    case 2: mcw = tipw + rng.range(1, 16); break;                    // just above the tip
    case 3: mcw = tipw + 2 * kWindow + rng.range(-8, 8); break;      // around the chain work of tip+288
    case 4: mcw = tipw + rng.range(17, 2 * kWindow - 9); break;      // somewhere inside the window
    }
    p.knobs["mcw_half"] = mcw;
    p.knobs["fast_prune"] = rng.chance(1, 3); // 64 KiB block files: the stored blocks span several blk files
    p.knobs["exact"] = 1;                     // also check that eligible valid blocks ARE stored (see Engine::assumptions)
    p.knobs["max_blocks"] = tier == Tier::THOROUGH ? 2600 : 1500;

    auto chain_op = [&](bool long_chain, int parent_cat) {
        Op op;
        op.kind = OP_CHAIN;
        int hm = (int)rng.pick({75, 10, 15});
        int defect = rng.chance(1, 6) ? (int)(rng.chance(1, 3) ? 1 : rng.range(1, kNDefects - 1)) : 0;
        op.a = {parent_cat, (int64_t)rng.below(1000), long_chain ? 1 : 0, (int64_t)(long_chain ? rng.pick({5, 20, 30, 30, 10, 5}) : rng.below(6)), (int64_t)(rng.next() >> 16), hm, (int64_t)rng.below(400), defect,
                rng.chance(1, 4) ? 1 : 0, (int64_t)rng.below(400), (int64_t)rng.below(3)};
        return op;
    };
    // every run starts with a header chain from the tip that reaches beyond tip+288
    p.ops.push_back(chain_op(true, 0));
    p.ops.back().a[5] = rng.chance(9, 10) ? 0 : 2;
    p.ops.back().a[7] = 0;
    int long_left = (int)rng.range(0, tier == Tier::THOROUGH ? 4 : 2);
    const int nops = (int)rng.range(12, tier == Tier::THOROUGH ? 90 : 45);
    std::vector<uint32_t> catw = {8, 18, 14, 6, 8, 10, 8, 16, 6, 6, 5};
    // swarm: silence some categories per run
    for (auto& w : catw)
        if (rng.chance(1, 5)) w = 0;
    if (mcw == 0) catw[CAT_MIN_WORK_EDGE] = 0;
    catw[CAT_ANY] = std::max<uint32_t>(catw[CAT_ANY], 2);
    for (int i = 0; i < nops; ++i) {
        Op op;
        if (mcw > 0 && i > nops / 3 && rng.chance(1, 12)) { op.kind = OP_REGRESS; op.a = {(int64_t)(rng.next() >> 16)}; p.ops.push_back(op); continue; }
        switch (rng.pick({8, 55, 14, 5})) {
        case 0: {
            bool lng = long_left > 0 && rng.chance(1, 2);
            if (lng) --long_left;
            op = chain_op(lng, (int)rng.pick({20, 50, 10, 20}));
            break;
        }
        case 1:
            op.kind = OP_UNREQ;
            op.a = {(int64_t)rng.pick(catw), (int64_t)rng.below(1000), rng.chance(2, 5) ? 1 : 0, rng.chance(1, 8) ? 2 : 1};
            break;
        case 2:
            op.kind = OP_REQ;
            op.a = {(int64_t)(rng.chance(1, 2) ? CAT_TIP_CHILD : rng.chance(1, 2) ? CAT_DROPPED_BEFORE : (int)rng.pick(catw)), (int64_t)rng.below(1000)};
            break;
        case 3:
            op.kind = OP_HEADERS;
            op.a = {(int64_t)rng.pick(catw), (int64_t)rng.below(1000)};
            break;
        }
        p.ops.push_back(op);
    }
    return p;
}

/** Own reader of the node's blk*.dat files: [magic(4)][size(4, LE)][block bytes] records, appended from offset 0, the whole file
 *  XORed with the 8-byte key in blocks/xor.dat (key byte = file offset mod 8). Shares nothing with BlockManager. */
struct BlkScanner {
    std::string dir;
    std::array<unsigned char, 8> key{};
    std::array<unsigned char, 4> magic{};
    bool have_key{false};
    std::vector<uint64_t> upto;           //!< per file: offset up to which records were parsed
    std::map<uint256, int> records;       //!< block hash -> number of records holding it
    uint64_t nrecords{0}, nbytes{0};

    bool ReadAt(int fd, uint64_t off, unsigned char* out, size_t n)
    {
        ssize_t r = pread(fd, out, n, (off_t)off);
        if (r != (ssize_t)n) return false;
        for (size_t i = 0; i < n; ++i) out[i] ^= key[(off + i) % 8];
        return true;
    }
    /** Parse what was appended since the last call; returns the block hashes of the new records. */
    std::vector<uint256> Rescan()
    {
        std::vector<uint256> fresh;
        if (!have_key) {
            int fd = open((dir + "/xor.dat").c_str(), O_RDONLY);
            if (fd < 0) return fresh;
            have_key = read(fd, key.data(), 8) == 8;
            close(fd);
            if (!have_key) return fresh;
        }
        for (size_t n = 0;; ++n) {
            char name[32];
            snprintf(name, sizeof name, "/blk%05u.dat", (unsigned)n);
            int fd = open((dir + name).c_str(), O_RDONLY);
            if (fd < 0) break;
            if (upto.size() <= n) upto.resize(n + 1, 0);
            struct stat st;
            uint64_t fsize = fstat(fd, &st) == 0 ? (uint64_t)st.st_size : 0;
            for (;;) {
                uint64_t off = upto[n];
                unsigned char hdr[8];
                if (off + 8 > fsize || !ReadAt(fd, off, hdr, 8)) break;
                if (memcmp(hdr, magic.data(), 4) != 0) break;
                uint32_t size = (uint32_t)hdr[4] | (uint32_t)hdr[5] << 8 | (uint32_t)hdr[6] << 16 | (uint32_t)hdr[7] << 24;
                if (size < 81 || size > 4'000'000 || off + 8 + size > fsize) break;
                unsigned char h80[80];
                if (!ReadAt(fd, off + 8, h80, 80)) break;
                uint256 hash;
                CHash256().Write(std::span<const unsigned char>(h80, 80)).Finalize(hash);
                ++records[hash];
                ++nrecords;
                nbytes += 8 + size;
                fresh.push_back(hash);
                upto[n] = off + 8 + size;
            }
            close(fd);
        }
        return fresh;
    }
};

constexpr uint32_t ST_PRESENT = 1u << 20;
constexpr uint32_t ST_HAVE = BLOCK_HAVE_DATA;
constexpr uint32_t ST_FAILED = BLOCK_FAILED_VALID | BLOCK_FAILED_CHILD;

struct Sim {
    Ctx& ctx;
    ChainSim cs;
    BlkScanner scan;
    arith_uint256 W;      //!< work of one regtest block, own arithmetic from nBits
    arith_uint256 mcw;    //!< the -minimumchainwork the node was started with
    std::vector<char> known;          //!< model: the node has an index entry for this (model-VALID) block
    std::vector<char> dropped_before; //!< an unrequested delivery of this block was dropped at least once
    int last_mined{0};
    int decided{0};
    const bool exact;

    explicit Sim(Ctx& c) : ctx(c), cs(c, ChainSimConfig{}), exact(c.knob("exact", 1) != 0) {}

    RefChain& ref() { return *cs.ref; }
    void Grow()
    {
        known.resize(ref().blocks.size(), 0);
        dropped_before.resize(ref().blocks.size(), 0);
    }
    arith_uint256 ChainWork(int idx) { return W * arith_uint256((uint64_t)(ref().blocks[idx].height + 1)); }

    std::vector<uint32_t> Snapshot()
    {
        std::vector<uint32_t> s(ref().blocks.size(), 0);
        LOCK(cs_main);
        auto& bm = cs.node->cm().m_blockman;
        for (size_t i = 0; i < s.size(); ++i) {
            const CBlockIndex* pi = bm.LookupBlockIndex(ref().blocks[i].hash);
            if (pi) s[i] = ST_PRESENT | (pi->nStatus & (ST_HAVE | ST_FAILED));
        }
        return s;
    }
    void CheckFatal()
    {
        if (cs.node->Fatal()) ctx.failf("node-fatal-error", "%s", cs.node->notifications->fatal_errors.empty() ? cs.node->notifications->flush_errors[0].c_str() : cs.node->notifications->fatal_errors[0].c_str());
    }
    int Tip()
    {
        int t = cs.TipIdx();
        if (t < 0) ctx.failf("sim-tip-unknown-block", "active tip %s is not a generated block", cs.node->TipHash().ToString().c_str());
        return t;
    }

    void Setup()
    {
        cs.tweak_opts = [&](NodeOpts& o) {
            o.with_mempool = false;
            o.coins_db_in_memory = true;
            o.block_tree_db_in_memory = true;
            o.fast_prune = ctx.knob("fast_prune", 0) != 0; // BlockManager file size only; pruning itself stays off
            auto params = CChainParams::RegTest(o.regtest);
            // work of one block: floor(2^256 / (target+1)), written as (2^256-1-target)/(target+1) + 1 to stay inside 256 bits
            arith_uint256 target;
            target.SetCompact(params->GenesisBlock().nBits);
            W = (~target / (target + arith_uint256(1))) + arith_uint256(1);
            int64_t half = std::max<int64_t>(0, ctx.knob("mcw_half", 0));
            mcw = W * arith_uint256((uint64_t)half) / arith_uint256(2);
            if (half > 0) o.min_chain_work = mcw;
            const auto& ms = params->MessageStart();
            for (int i = 0; i < 4; ++i) scan.magic[i] = (unsigned char)ms[i];
            scan.dir = o.dir + "/blocks";
        };
        cs.Setup(); // node start + base chain (requested deliveries)
        Grow();
        int base = cs.node->Height();
        for (int i = 0; i <= base && i < (int)known.size(); ++i) known[i] = 1;
        // the storage observer must see exactly the base chain before it is used as a witness
        scan.Rescan();
        // (genesis is written by the node itself at start)
        if ((int)scan.nrecords != base + 1) ctx.failf("sim-blk-scanner-broken", "blk files hold %lu parsable records after genesis and a base chain of %d blocks", (unsigned long)scan.nrecords, base);
        for (int i = 0; i <= base; ++i)
            if (scan.records[ref().blocks[i].hash] != 1) ctx.failf("sim-blk-scanner-broken", "base block #%d not found in the blk files", i);
        ctx.evf("setup base=%d mcw_half=%ld fast_prune=%ld", base, (long)ctx.knob("mcw_half", 0), (long)ctx.knob("fast_prune", 0));
    }

    /** candidates of a category relative to the current tip; prefers blocks the node does not hold yet */
    int Select(const Op& op, const std::vector<uint32_t>& st, int tip)
    {
        const int n = (int)ref().blocks.size();
        if (n <= 1) return -1;
        const int hT = ref().blocks[tip].height;
        const int cat = (int)op.mod(0, N_CATS);
        auto in_cat = [&](int i) {
            const RefBlock& B = ref().blocks[i];
            switch (cat) {
            case CAT_PLUS_288: return B.height == hT + kWindow;
            case CAT_PLUS_289: return B.height == hT + kWindow + 1;
            case CAT_PLUS_287: return B.height == hT + kWindow - 1;
            case CAT_NEAR_ABOVE: return B.height > hT && B.height <= hT + 3;
            case CAT_EQUAL_WORK: return B.height == hT && i != tip;
            case CAT_LESS_WORK: return B.height < hT;
            case CAT_MIN_WORK_EDGE: {
                arith_uint256 cw = ChainWork(i);
                return cw + W >= mcw && cw <= mcw + W;
            }
            case CAT_DROPPED_BEFORE: return (bool)dropped_before[i];
            case CAT_TIP_CHILD: return B.parent == tip;
            case CAT_OWN_DEFECT: return B.verdict == Verdict::INVALID || B.verdict == Verdict::MUTATED;
            default: return true;
            }
        };
        std::vector<int> fresh, all;
        for (int i = 1; i < n; ++i) {
            if (!in_cat(i)) continue;
            all.push_back(i);
            if (!(st[i] & ST_HAVE)) fresh.push_back(i);
        }
        if (!fresh.empty()) return fresh[op.mod(1, fresh.size())];
        if (!all.empty()) return all[op.mod(1, all.size())];
        fresh.clear();
        for (int i = 1; i < n; ++i)
            if (!(st[i] & ST_HAVE)) fresh.push_back(i);
        if (!fresh.empty()) return fresh[op.mod(1, fresh.size())];
        return 1 + (int)op.mod(1, n - 1);
    }

    static std::string VerdictStr(const SimNode::BlockResult& r)
    {
        if (!r.verdict) return "-";
        return r.verdict->valid ? "valid" : "invalid:" + r.verdict->reason;
    }

    void ModelLearnsHeader(int i)
    {
        const RefBlock& B = ref().blocks[i];
        if (B.verdict == Verdict::VALID && B.parent >= 0 && known[B.parent]) known[i] = 1;
    }

    void Unrequested(int i)
    {
        const RefBlock& B = ref().blocks[i];
        const int t = Tip();
        const int hT = ref().blocks[t].height;
        const std::vector<uint32_t> s0 = Snapshot();
        const bool have0 = s0[i] & ST_HAVE;
        const bool valid = B.verdict == Verdict::VALID;
        const bool parent_known = known[B.parent];
        // the statement's three conditions, from the model (work of a block = W, equal for every regtest block)
        const arith_uint256 cwB = ChainWork(i), cwT = ChainWork(t);
        const bool c_work = cwB >= cwT;
        const bool c_height = B.height <= hT + kWindow;
        const bool c_min = cwB >= mcw;
        const bool eligible = c_work && c_height && c_min;

        auto res = cs.node->ProcessBlock(B.block, /*force_processing=*/false);
        CheckFatal();
        cs.delivered[i] = 1;
        const std::vector<uint256> appended = scan.Rescan();
        const std::vector<uint32_t> s1 = Snapshot();
        const bool have1 = s1[i] & ST_HAVE;
        const bool stored = (!have0 && have1) || !appended.empty();
        ModelLearnsHeader(i);
        ctx.fault("unrequested_block");
        ctx.evf("unrequested #%d h=tip%+d verdict=%d parent_known=%d have0=%d cond(work=%d,height=%d,minwork=%d) -> accepted=%d new=%d checked=%s have=%d appended=%zu failed=%d tip=h%d", i, B.height - hT, (int)B.verdict,
                parent_known, have0, c_work, c_height, c_min, res.accepted, res.new_block, VerdictStr(res).c_str(), have1, appended.size(), (s1[i] & ST_FAILED) != 0, cs.node->Height());

        if (have0 && !stored) { ctx.probe("unreq_already_have"); return; }
        ++decided;
        ctx.nontrivial = true;
        if (stored) {
            // clause 1: stored => at least the tip's work, at most 288 above the tip, chain work reaches the minimum
            if (!c_work) ctx.failf("unrequested-block-stored-with-less-work-than-tip", "block #%d at height %d (tip height %d) was stored (have_data %d->%d, %zu blk records appended) although its chain has less work than the active tip", i, B.height, hT, have0, have1, appended.size());
            if (!c_height) ctx.failf("unrequested-block-stored-too-far-ahead", "block #%d at height tip+%d (tip height %d) was stored (have_data %d->%d, %zu blk records appended); the limit is tip+%d", i, B.height - hT, hT, have0, have1, appended.size(), kWindow);
            if (!c_min) ctx.failf("unrequested-block-stored-below-minimum-chain-work", "block #%d at height %d was stored (have_data %d->%d, %zu blk records appended) although its chain work %s is below the minimum chain work %s", i, B.height, have0, have1, appended.size(), cwB.GetHex().c_str(), mcw.GetHex().c_str());
            ctx.probe("unreq_stored");
            if (B.height == hT + kWindow) ctx.probe("unreq_stored_at_tip_plus_288");
            if (B.height == hT) ctx.probe("unreq_stored_equal_work");
            if (cwB == mcw) ctx.probe("unreq_stored_exactly_min_work");
            if (mcw > cwT) ctx.probe("unreq_stored_while_tip_below_min_work");
            if (!(s0[i] & ST_PRESENT)) ctx.probe("unreq_stored_without_header_first");
            if (cs.node->Height() != hT || cs.TipIdx() != t) ctx.probe("tip_moved_by_unrequested_block");
            return;
        }
        if (eligible) {
            if (!parent_known) ctx.probe("unreq_parent_unknown");
            if (!valid) ctx.probe("unreq_eligible_invalid_not_stored");
            // Converse for ground-truth valid blocks whose parent the node knows (see Engine::assumptions): nothing else in the statement
            // allows the node to drop such a block, and only this makes the constants (>=, 288, minimum) exact from both sides.
            if (exact && valid && parent_known)
                ctx.failf("eligible-unrequested-block-not-stored", "valid block #%d at height tip%+d (tip height %d) with work >= tip, within tip+%d and chain work %s >= minimum %s was not stored (accepted=%d, checked=%s)", i, B.height - hT, hT,
                          kWindow, cwB.GetHex().c_str(), mcw.GetHex().c_str(), res.accepted, VerdictStr(res).c_str());
            return;
        }
        // clause 2: dropped -> not marked invalid (no failure flag appears anywhere in the index) ...
        for (size_t j = 0; j < s1.size(); ++j)
            if ((s1[j] & ST_FAILED) && !(s0[j] & ST_FAILED))
                ctx.failf("dropped-unrequested-block-marked-failed", "unrequested block #%d (height tip%+d, conditions work=%d height=%d minwork=%d) was dropped, but block #%zu%s now carries a failure flag", i, B.height - hT, c_work, c_height, c_min, j,
                          (int)j == i ? " (the same block)" : "");
        if (valid && parent_known && res.verdict && !res.verdict->valid)
            ctx.failf("dropped-unrequested-block-reported-invalid", "valid unrequested block #%d (height tip%+d) was dropped and BlockChecked reported it invalid: %s", i, B.height - hT, res.verdict->reason.c_str());
        dropped_before[i] = 1;
        ctx.probe("unreq_dropped");
        if (!c_work) ctx.probe("unreq_dropped_less_work");
        if (!c_height) ctx.probe("unreq_dropped_too_far_ahead");
        if (!c_min) ctx.probe("unreq_dropped_below_min_work");
        if (B.height == hT + kWindow + 1 && c_min) ctx.probe("unreq_dropped_at_tip_plus_289");
        if (!c_min && c_work && c_height) ctx.probe("unreq_dropped_only_for_min_work");
        if (!c_min && cwB + W >= mcw) ctx.probe("unreq_dropped_just_below_min_work");
        if (!valid) ctx.probe("unreq_dropped_invalid_block");
        if (!(s0[i] & ST_PRESENT)) ctx.probe("unreq_dropped_without_header_first");
    }

    void Requested(int i)
    {
        const RefBlock& B = ref().blocks[i];
        const int t = Tip();
        const int hT = ref().blocks[t].height;
        const bool valid = B.verdict == Verdict::VALID;
        const bool parent_known = known[B.parent];
        auto res = cs.node->ProcessBlock(B.block, /*force_processing=*/true);
        CheckFatal();
        cs.delivered[i] = 1;
        const std::vector<uint256> appended = scan.Rescan();
        uint32_t st = 0;
        {
            LOCK(cs_main);
            const CBlockIndex* pi = cs.node->cm().m_blockman.LookupBlockIndex(B.hash);
            if (pi) st = ST_PRESENT | (pi->nStatus & (ST_HAVE | ST_FAILED));
        }
        ModelLearnsHeader(i);
        const int in_files = scan.records.count(B.hash) ? scan.records[B.hash] : 0;
        ctx.evf("requested #%d h=tip%+d verdict=%d parent_known=%d dropped_before=%d -> accepted=%d new=%d checked=%s have=%d in_files=%d appended=%zu failed=%d tip=h%d", i, B.height - hT, (int)B.verdict, parent_known,
                (int)dropped_before[i], res.accepted, res.new_block, VerdictStr(res).c_str(), (st & ST_HAVE) != 0, in_files, appended.size(), (st & ST_FAILED) != 0, cs.node->Height());
        if (!dropped_before[i]) return;
        // ... so the same block is accepted later when it is requested (if it is valid and connects to something the node knows)
        if (valid && parent_known) {
            if (!res.accepted || !(st & ST_HAVE) || in_files < 1 || (st & ST_FAILED) || (res.verdict && !res.verdict->valid))
                ctx.failf("dropped-block-not-accepted-when-requested", "valid block #%d (height tip%+d) had been dropped as unrequested; requested delivery: accepted=%d have_data=%d records_in_blk_files=%d failure_flag=%d checked=%s", i,
                          B.height - hT, res.accepted, (st & ST_HAVE) != 0, in_files, (st & ST_FAILED) != 0, VerdictStr(res).c_str());
            ctx.probe("requested_after_drop_accepted");
            if (B.height > hT + kWindow) ctx.probe("requested_after_drop_accepted_beyond_window");
            if (ChainWork(i) < mcw) ctx.probe("requested_after_drop_accepted_below_min_work");
            if (B.height < hT) ctx.probe("requested_after_drop_accepted_less_work");
            dropped_before[i] = 0;
        }
    }

    void GiveHeaders(int i)
    {
        std::vector<int> path;
        for (int a = i; a > 0 && !known[a] && path.size() < 2000; a = ref().blocks[a].parent) path.push_back(a);
        std::reverse(path.begin(), path.end());
        if (path.empty()) return;
        std::vector<CBlockHeader> hs;
        for (int j : path) hs.push_back(static_cast<const CBlockHeader&>(*ref().blocks[j].block));
        BlockValidationState st;
        bool ok = cs.node->ProcessHeaders(hs, st);
        CheckFatal();
        for (int j : path) {
            cs.header_given[j] = 1;
            ModelLearnsHeader(j);
        }
        ctx.probe("headers_message");
        ctx.evf("headers #%d..#%d (%zu) -> %d %s", path.front(), path.back(), path.size(), ok, st.GetRejectReason().c_str());
    }

    void MineChain(const Op& op)
    {
        const int t = Tip();
        const int hT = ref().blocks[t].height;
        const int n = (int)ref().blocks.size();
        int parent;
        switch (op.mod(0, 4)) {
        case 0: parent = t; break;
        case 1: parent = ref().Ancestor(t, std::max(0, hT - 1 - (int)op.mod(1, 6))); break;
        case 2: parent = (int)op.mod(1, n); break;
        default: parent = last_mined > 0 && last_mined < n ? last_mined : t; break;
        }
        const int hP = ref().blocks[parent].height;
        int len = op.mod(2, 2) ? hT + 286 + (int)op.mod(3, 6) - hP : 1 + (int)op.mod(3, 6);
        len = std::clamp(len, 1, 300);
        const int room = (int)std::clamp<int64_t>(ctx.knob("max_blocks", 1500), 10, 5000) - n;
        len = std::min(len, room);
        if (len <= 0) return;
        const int defect = kDefects[op.mod(7, kNDefects)];
        const int defect_pos = op.mod(8, 2) ? (int)op.mod(9, len) : len - 1;
        Rng r(mix64((uint64_t)op.arg(4), 0xc58));
        std::vector<int> chain;
        int p = parent;
        for (int k = 0; k < len; ++k) {
            p = cs.MineOn(p, 0, r.next(), k == defect_pos ? defect : D_NONE, B_NONE, (int)op.mod(10, 3));
            chain.push_back(p);
        }
        last_mined = p;
        Grow();
        if (len >= 200) ctx.probe("long_chain");
        if (parent != t) ctx.probe("fork_chain");
        const int hm = (int)op.mod(5, 3);
        size_t nh = hm == 0 ? chain.size() : hm == 1 ? 0 : op.mod(6, chain.size() + 1);
        if (nh > 0) {
            std::vector<CBlockHeader> hs;
            for (size_t k = 0; k < nh; ++k) hs.push_back(static_cast<const CBlockHeader&>(*ref().blocks[chain[k]].block));
            BlockValidationState st;
            bool ok = cs.node->ProcessHeaders(hs, st);
            CheckFatal();
            for (size_t k = 0; k < nh; ++k) {
                cs.header_given[chain[k]] = 1;
                ModelLearnsHeader(chain[k]);
            }
            ctx.probe("headers_message");
            ctx.evf("chain #%d..#%d on #%d (h=%d) headers=%zu -> %d %s", chain.front(), chain.back(), parent, hP, nh, ok, st.GetRejectReason().c_str());
        } else {
            ctx.probe("chain_without_headers");
            ctx.evf("chain #%d..#%d on #%d (h=%d) headers=0", chain.front(), chain.back(), parent, hP);
        }
    }

    uint64_t Fingerprint()
    {
        int t = cs.TipIdx();
        uint64_t nk = 0, nd = 0;
        for (char c : known) nk += c;
        for (char c : dropped_before) nd += c;
        return mix64(mix64((uint64_t)t + 3, ref().blocks.size()), mix64(mix64(nk, nd), mix64(scan.nrecords, (uint64_t)decided)));
    }

    /** The tip can fall back below the minimum chain work after the node has left initial block download (the IBD flag never goes
     *  back to true): the minimum-chain-work condition for unrequested blocks must still hold then. */
    void Regress(const Op& op)
    {
        if (mcw == arith_uint256(0)) return;
        const int t = Tip();
        if (ChainWork(t) < mcw) return;
        if (cs.node->cm().IsInitialBlockDownload()) { ctx.probe("regress_skipped_still_in_ibd"); return; }
        // the highest ancestor `a` of the tip whose parent is at least two blocks of work short of the minimum
        int a = t;
        int depth = 0;
        while (ref().blocks[a].parent > 0 && !(ChainWork(ref().blocks[a].parent) + W + W <= mcw) && depth < 60) { a = ref().blocks[a].parent; ++depth; }
        const int nt = ref().blocks[a].parent;
        if (nt <= 0 || !(ChainWork(nt) + W + W <= mcw)) return;
        CBlockIndex* pi = WITH_LOCK(cs_main, return cs.node->cm().m_blockman.LookupBlockIndex(ref().blocks[a].hash));
        if (!pi) return;
        BlockValidationState st, st2;
        cs.node->cs().InvalidateBlock(st, pi);
        cs.node->cs().ActivateBestChain(st2);
        cs.node->DrainSignals();
        CheckFatal();
        const int t2 = Tip();
        if (ChainWork(t2) + W <= mcw && ref().blocks[t2].verdict == Verdict::VALID) {
            int idx = cs.MineOn(t2, 0, (uint64_t)op.arg(0), D_NONE, B_NONE, 1);
            Grow();
            ctx.probe("unrequested_block_below_minimum_work_after_ibd");
            Unrequested(idx);
        }
        {
            LOCK(cs_main);
            cs.node->cs().ResetBlockFailureFlags(pi);
            cs.node->cm().RecalculateBestHeader();
        }
        BlockValidationState st3;
        cs.node->cs().ActivateBestChain(st3);
        cs.node->DrainSignals();
        CheckFatal();
    }

    void Run()
    {
        Setup();
        for (const Op& op : ctx.plan.ops) {
            switch (op.kind) {
            case OP_CHAIN: MineChain(op); break;
            case OP_UNREQ: {
                int i = Select(op, Snapshot(), Tip());
                if (i <= 0) break;
                int times = (int)std::clamp<int64_t>(op.arg(3), 1, 2);
                for (int k = 0; k < times; ++k) Unrequested(i);
                if (op.arg(2)) Requested(i);
                break;
            }
            case OP_REQ: {
                int i = Select(op, Snapshot(), Tip());
                if (i <= 0) break;
                Requested(i);
                break;
            }
            case OP_HEADERS: {
                int i = Select(op, Snapshot(), Tip());
                if (i <= 0) break;
                GiveHeaders(i);
                break;
            }
            case OP_REGRESS: Regress(op); break;
            default: break;
            }
            ctx.fingerprint(Fingerprint());
        }
        ctx.sim_ms = (uint64_t)std::max<int64_t>(0, cs.now - cs.start_time) * 1000;
        cs.node->Stop(false);
    }
};

void Run(Ctx& ctx)
{
    Sim s(ctx);
    s.Run();
}

Engine MakeEngine()
{
    Engine e;
    e.prop = "C58";
    e.name = "nodesim/unrequested-blocks";
    e.level = "exploration";
    e.gen = Gen;
    e.run = Run;
    e.describe = Describe;
    e.chunk = 1;
    e.quick_runs = 2400;
    e.thorough_runs = 40000;
    e.quick_budget_s = 50;
    e.thorough_budget_s = 900;
    e.rule = "each run = one real regtest node (in-memory DBs, real blk*.dat files, 128 MiB or 64 KiB block files) with a requested base chain of 1-60 blocks and a per-run -minimumchainwork "
             "(absent / at or below the tip / 1-16 half-blocks above the tip / within +-4 blocks of the chain work of tip+288 / inside the window), then 12-90 operations: mine a chain of empty blocks "
             "(on the tip, on an ancestor of the tip, on any block, continuing the last chain; 1-6 blocks or up to height tip+286..291; headers announced for all / none / a prefix; optionally one labelled-invalid block), "
             "deliver a block UNREQUESTED (ProcessNewBlock force_processing=false) chosen relative to the current tip (tip+288, tip+289, tip+287, tip+1..3, equal work, less work, chain work within one block of the minimum, "
             "dropped before, child of tip, any), optionally twice and optionally followed by the REQUESTED delivery of the same block, requested deliveries (which also move the tip), headers messages. "
             "After every unrequested delivery the oracle compares BLOCK_HAVE_DATA before/after and the records appended to the blk files (own parser) with the statement's three conditions evaluated on the model "
             "(heights and per-block work of the generated tree, tip before the call). non-trivial = at least one unrequested delivery of a block the node did not hold yet was decided; "
             "distinct = distinct (tip, #blocks, #index entries per model, #dropped, #blk records, #decisions) fingerprints after an operation (first 64 per run)";
    e.real_components = {"ChainstateManager::ProcessNewBlock/AcceptBlock/AcceptBlockHeader/ProcessNewBlockHeaders (validation.cpp)", "CheckBlock/ContextualCheckBlock(Header), ActivateBestChain/ConnectTip", "BlockManager::WriteBlock + FlatFileSeq blk*.dat files (XOR-obfuscated) on tmpfs",
                         "block index (CBlockIndex nStatus/nChainWork), CheckBlockIndex after every header/block", "MinimumChainWork option plumbing (ChainstateManager::Options)"};
    e.stub_components = {"peers / net_processing (blocks and headers are handed to ProcessNewBlock / ProcessNewBlockHeaders directly; 'requested' is the force_processing argument)", "wall clock (SetMockTime)", "ValidationSignals task runner (immediate)", "block tree and coins LevelDB (in-memory env)", "mempool (absent)"};
    e.assumptions = {"regtest: every block carries the same work W (computed by the engine from nBits with its own arithmetic), so 'more/equal/less work than the tip' coincides with 'higher/equal/lower than the tip'; work and height cannot be varied independently",
                     "ground-truth validity of generated blocks comes from RefChain (see C08); the index entry of a valid block exists per model once its header or body was delivered while its parent was known",
                     "clause 'stored => conditions' and clause 'dropped => no failure flag, not reported invalid, accepted when requested later' are exactly the statement; the additional class eligible-unrequested-block-not-stored (knob exact=1) "
                     "checks the converse for ground-truth valid blocks with a known parent, i.e. reads the statement's two sentences as a partition (blocks meeting the three conditions are stored, 'other' blocks are dropped); "
                     "it is what pins the constants from the strict side (a node that also drops tip+288 or equal-work blocks)",
                     "pruning is off: the 'previously processed block that was pruned' exit of AcceptBlock is not exercised"};
    e.expected_probes = {"unreq_stored", "unreq_stored_at_tip_plus_288", "unreq_dropped_at_tip_plus_289", "unreq_stored_equal_work", "unreq_dropped_less_work", "unreq_dropped_too_far_ahead", "unreq_dropped_below_min_work",
                         "unreq_dropped_only_for_min_work", "unreq_dropped_just_below_min_work", "unreq_stored_exactly_min_work", "unreq_stored_while_tip_below_min_work", "unreq_dropped_invalid_block",
                         "unreq_dropped_without_header_first", "unreq_stored_without_header_first", "requested_after_drop_accepted", "requested_after_drop_accepted_beyond_window",
                         "requested_after_drop_accepted_below_min_work", "requested_after_drop_accepted_less_work", "tip_moved_by_unrequested_block", "unreq_already_have", "unreq_parent_unknown", "fork_chain", "long_chain"};
    return e;
}
Engine g_engine = MakeEngine();
SIM_REGISTER_ENGINE(g_engine);

} // namespace
