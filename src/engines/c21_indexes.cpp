// C21 — indexes and UTXO statistics agree with recomputation from the active chain.
// nodesim (cooperative part): a real regtest node driven through the shared chain-history workload (forks, reorgs,
// invalidateblock/reconsiderblock, flushes, clean restarts) with the four real indexes (TxIndex, BlockFilterIndex BASIC,
// CoinStatsIndex, TxoSpenderIndex) attached to the node's ValidationSignals. There is no index thread: BaseIndex::Sync() is
// called inline at seeded points, an index can be switched off for a while (so that it falls behind and reorgs happen while
// it is behind), restarted (Interrupt/Stop/destroy, re-create, Init) with or without a preceding chainstate flush, and a
// running Sync() can be interrupted after its N-th database write (seam: a logging callback that counts the index's own
// "WriteBatch" debug lines and calls BaseIndex::Interrupt(), or steps the mock clock past the 30 s locator-write interval).
// Oracle: whenever an index reports itself synced (BlockUntilSyncedToCurrentChain), its answers for the active chain are
// compared with an independent recomputation from the model (RefChain blocks and UTXO sets).
#include "../core/sim.h"
#include "../nodesim/chainsim.h"

#include <blockfilter.h>
#include <chain.h>
#include <common/args.h>
#include <crypto/muhash.h>
#include <hash.h>
#include <index/blockfilterindex.h>
#include <index/coinstatsindex.h>
#include <index/txindex.h>
#include <index/txospenderindex.h>
#include <interfaces/chain.h>
#include <kernel/coinstats.h>
#include <logging.h>
#include <node/context.h>
#include <streams.h>
#include <util/fs.h>
#include <util/time.h>
#include <validation.h>

#include <atomic>
#include <unistd.h>
#include <list>

using namespace sim;
using namespace nodesim;

namespace {

enum { OP_IDX_RESTART = 100, OP_IDX_SYNC = 101, OP_IDX_CHECK = 102, OP_IDX_PRUNE = 103, OP_IDX_TWIN = 104 };
enum Kind { K_TX = 0, K_FILTER, K_STATS, K_SPENDER, NK };
const char* const kName[NK] = {"txindex", "blockfilterindex", "coinstatsindex", "txospenderindex"};

std::string MaskStr(int64_t mask)
{
    std::string s;
    for (int k = 0; k < NK; ++k)
        if (mask & (1 << k)) s += std::string(s.empty() ? "" : "+") + kName[k];
    return s.empty() ? "none" : s;
}

std::string Describe(const Op& op)
{
    char b[320];
    switch (op.kind) {
    case OP_IDX_RESTART:
        snprintf(b, sizeof b, "shutdown+start(indexes %s %s, real_node_restart=%ld, sync=%ld, FAULT shutdown_again_after_writes=%ld, clock+31s_at_write=%ld, then_sync=%ld)",
                 op.mod(0, 3) == 0 ? "=" : op.mod(0, 3) == 1 ? "+=" : "-=", MaskStr(op.arg(1, 15) & 15).c_str(), (long)op.arg(2), (long)op.arg(3), (long)op.arg(4), (long)op.arg(5), (long)op.arg(6));
        return b;
    case OP_IDX_SYNC:
        snprintf(b, sizeof b, "index_sync(%s, FAULT shutdown_after_writes=%ld, clock+31s_at_write=%ld, then_sync=%ld, real_node_restart=%ld)", MaskStr(op.arg(0, 15) & 15).c_str(), (long)op.arg(1), (long)op.arg(2),
                 (long)op.arg(3), (long)op.arg(4));
        return b;
    case OP_IDX_CHECK: snprintf(b, sizeof b, "index_check(full=%ld, compute_utxo_stats_at_tip=%ld)", (long)op.arg(0), (long)op.arg(1)); return b;
    case OP_IDX_PRUNE: snprintf(b, sizeof b, "pruneblockchain(height#%ld) [prune runs only]", (long)op.arg(0)); return b;
    case OP_IDX_TWIN: snprintf(b, sizeof b, "twin_reorg(sibling of the tip with the same transactions overtakes it, reorg_back=%ld)", (long)op.arg(0)); return b;
    case OP_RESTART:
        snprintf(b, sizeof b, "node_restart(clean; indexes: sync=%ld, FAULT shutdown_again_after_writes=%ld, clock+31s_at_write=%ld, then_sync=%ld)", (long)op.arg(0, 1), (long)op.arg(1), (long)op.arg(2), (long)op.arg(3, 1));
        return b;
    default: return DescribeChainOp(op);
    }
}

Plan Gen(uint64_t seed, Tier tier)
{
    Rng rng(seed);
    Plan p = GenChainPlan(rng.next(), tier, "c09");
    p.knobs["on_disk"] = rng.chance(4, 5);
    p.knobs["base"] = rng.range(101, 118);
    p.knobs["idx_mask"] = rng.chance(3, 4) ? 15 : rng.range(1, 15);
    p.knobs["idx_start"] = (int64_t)rng.below(4); // 0 with the empty chain (callbacks only), 1 after the base chain + full Sync, 2 after it, lagging, 3 off
    p.knobs["restart_to_enable"] = rng.chance(1, 2);
    // calm = the two situations in which BaseIndex::Commit declines to write (index ahead of the last flushed chainstate block) are kept
    // out of the run: no invalidateblock (which leaves a synced index ahead of the tip) and a chainstate flush right before every Sync()
    // calm=2: no invalidateblock either, but no extra flush: an interrupted Sync() may then be ahead of the last flushed chainstate block
    p.knobs["calm"] = (int64_t)rng.pick({7, 9, 4});
    p.knobs["idx_cache_kb"] = (int64_t)std::vector<int>{8, 64, 1024}[rng.below(3)];
    // prune runs: a pruning node (manual pruning, 64 KiB block files) whose chain is extended by ~330 padded blocks so that whole block
    // files fall out of the 288-block keep window; only the indexes that allow pruning (block filter, coin statistics) exist
    const bool prune = rng.chance(1, 8);
    p.knobs["prune"] = prune;
    if (prune) {
        p.knobs["on_disk"] = 1;
        p.knobs["calm"] = 1; // invalidateblock could otherwise try to disconnect pruned blocks
        p.knobs["idx_mask"] = (p.knobs["idx_mask"] & 6) ? (p.knobs["idx_mask"] & 6) : 6;
        p.knobs["idx_start"] = (int64_t)rng.range(0, 1);
        p.knobs["pad_down"] = rng.range(0, 30);   // padded blocks mined while the indexes are switched off
        p.knobs["pad_lag"] = rng.range(310, 340); // padded blocks mined while the indexes are up but not syncing
    }
    // swarm weights of the index operations
    std::vector<uint32_t> w = {(uint32_t)(4 + rng.below(12)) /*restart*/, (uint32_t)(4 + rng.below(14)) /*sync*/, (uint32_t)(1 + rng.below(4)) /*check*/, (uint32_t)rng.below(6) /*extra flush*/,
                               (uint32_t)(prune ? 3 + rng.below(6) : 0) /*prune*/, (uint32_t)rng.below(5) /*twin reorg*/};
    const int pct = (int)rng.range(25, 60);
    const int intr_pct = (int)rng.range(20, 70);
    const int sync_pct = (int)rng.range(20, 80);
    auto mask = [&]() -> int64_t { return rng.chance(1, 3) ? 15 : (int64_t)rng.range(1, 15); };
    auto intr = [&]() -> int64_t { return rng.chance(intr_pct, 100) ? (int64_t)rng.skewed(1, 60) : 0; };
    auto bump = [&]() -> int64_t { return rng.chance(1, 3) ? (int64_t)rng.skewed(1, 40) : 0; };
    std::vector<Op> out;
    for (const Op& cop : p.ops) {
        while (rng.chance(pct, 100)) {
            Op op;
            switch (rng.pick(w)) {
            case 0:
                op = Op(OP_IDX_RESTART, {(int64_t)rng.pick({2, 5, 3}), mask(), (int64_t)rng.chance(1, 3), (int64_t)rng.chance(sync_pct, 100), intr(), bump(), (int64_t)rng.chance(1, 2)});
                break;
            case 1: op = Op(OP_IDX_SYNC, {mask(), intr(), bump(), (int64_t)rng.chance(1, 2), (int64_t)rng.chance(1, 3)}); break;
            case 2: op = Op(OP_IDX_CHECK, {(int64_t)rng.chance(1, 2), (int64_t)rng.chance(1, 3)}); break;
            case 4: op = Op(OP_IDX_PRUNE, {(int64_t)rng.below(1000)}); break;
            case 5: op = Op(OP_IDX_TWIN, {(int64_t)rng.chance(2, 3), (int64_t)(rng.next() >> 16)}); break;
            default: op = Op(OP_FLUSH, {(int64_t)rng.below(4)}); break;
            }
            out.push_back(op);
            if (!rng.chance(1, 4)) break;
        }
        Op c = cop;
        if (c.kind == OP_RESTART) c.a = {(int64_t)rng.chance(sync_pct, 100), intr(), bump(), (int64_t)rng.chance(1, 2)};
        out.push_back(c);
    }
    if (prune) out.insert(out.begin(), Op(OP_IDX_PRUNE, {999})); // first thing after the padded extension: prune as far as the node allows
    p.ops = std::move(out);
    return p;
}

// ---------------------------------------------------------------------------------------------------------------------
// Seam used to stop a running BaseIndex::Sync() at a seeded moment without a second thread: every CDBWrapper::WriteBatch of the
// index under sync emits one BCLog::LEVELDB debug line while that category is enabled; the callback counts them.
struct SyncSeam {
    BaseIndex* idx{nullptr};
    int64_t intr_after{0};
    int64_t bump_at{0};
    int64_t writes{0};
    bool intr_fired{false};
    bool bump_fired{false};
    int64_t* now{nullptr};
};
std::atomic<SyncSeam*> g_seam{nullptr};

void SeamCallback(const std::string& line)
{
    SyncSeam* s = g_seam.load();
    if (!s) return;
    if (line.find("WriteBatch memory usage") == std::string::npos) return;
    ++s->writes;
    if (s->bump_at > 0 && s->writes == s->bump_at) {
        *s->now += 31;
        SetMockTime(std::chrono::seconds{*s->now});
        s->bump_fired = true;
    }
    if (s->intr_after > 0 && s->writes == s->intr_after) {
        s->idx->Interrupt();
        s->intr_fired = true;
    }
}

struct SeamGuard {
    std::list<std::function<void(const std::string&)>>::iterator it;
    bool had_category;
    explicit SeamGuard(SyncSeam* s)
    {
        had_category = LogInstance().WillLogCategory(BCLog::LEVELDB);
        g_seam.store(s);
        it = LogInstance().PushBackCallback(SeamCallback);
        LogInstance().EnableCategory(BCLog::LEVELDB);
    }
    ~SeamGuard()
    {
        if (!had_category) LogInstance().DisableCategory(BCLog::LEVELDB);
        LogInstance().DeleteCallback(it);
        g_seam.store(nullptr);
    }
};

// ---------------------------------------------------------------------------------------------------------------------
// Model side: per generated block, the BIP158 basic filter and the UTXO statistics, computed from RefChain data only.
struct MStats {
    uint64_t count{0};
    uint64_t bogo{0};
    CAmount total{0};
    CAmount subsidy{0};
    CAmount u_genesis{0};
    CAmount u_scripts{0};
    CAmount u_unclaimed{0};
    arith_uint256 spent{0};
    arith_uint256 newout{0};
    arith_uint256 cbout{0};
    uint256 muhash;
};
struct MBlock {
    bool done{false};
    std::vector<unsigned char> filter;
    uint256 fhash, fheader;
    MStats st;
};

std::string Hx(const uint256& h) { return h.ToString().substr(0, 10); }

// optional wall-clock profile of the harness itself (VERIF_TIMING=1; never part of the trace)
struct Prof {
    std::map<std::string, double> t;
    bool on{getenv("VERIF_TIMING") != nullptr};
    void Dump()
    {
        if (!on) return;
        FILE* f = fopen(getenv("VERIF_TIMING"), "a");
        if (!f) return;
        for (auto& [k, v] : t) fprintf(f, "timing: %-24s %8.1f ms\n", k.c_str(), v);
        fclose(f);
        t.clear();
    }
};
Prof g_prof;
struct ProfScope {
    const char* name;
    std::chrono::steady_clock::time_point t0;
    explicit ProfScope(const char* n) : name(n) { if (g_prof.on) t0 = std::chrono::steady_clock::now(); }
    ~ProfScope() { if (g_prof.on) g_prof.t[name] += std::chrono::duration<double, std::milli>(std::chrono::steady_clock::now() - t0).count(); }
};

struct IdxSim {
    Ctx& ctx;
    ChainSim cs;
    std::unique_ptr<node::NodeContext> nctx;
    struct Slot {
        std::unique_ptr<BaseIndex> obj;
        bool interrupted{false};
        bool need_full{false};
        // what the index had reached when it was last stopped, to see at the next Init() whether the stop persisted it
        bool have_down{false};
        uint256 down_best;
        int down_height{0};
        bool gap{false}; //!< sticky: a clean stop did not persist this index's state (BaseIndex::Commit skipped) at least once
    };
    // destroyed before nctx and cs (reverse declaration order)
    struct Slots {
        Slot s[NK];
    };
    std::unique_ptr<Slots> slots_holder;
    Slot* slot{nullptr};
    int enabled{15};
    bool fatal{false};
    std::string fatal_msg;
    std::vector<MBlock> mb;
    uint64_t opno{0};
    bool node_restarted{false};
    bool any_event{false};   //!< a restart, an interrupted or rewinding sync, or a reorg seen by a synced index happened
    uint64_t checks{0};

    explicit IdxSim(Ctx& c) : ctx(c), cs(c, ChainSimConfig{}) {}
    ~IdxSim()
    {
        g_prof.Dump();
        // unwinding after a violation: indexes first (their destructors unregister from the node's signals), then the borrowed context
        slots_holder.reset();
        DropContext();
    }

    TxIndex* tx() { return static_cast<TxIndex*>(slot[K_TX].obj.get()); }
    BlockFilterIndex* bf() { return static_cast<BlockFilterIndex*>(slot[K_FILTER].obj.get()); }
    CoinStatsIndex* st() { return static_cast<CoinStatsIndex*>(slot[K_STATS].obj.get()); }
    TxoSpenderIndex* sp() { return static_cast<TxoSpenderIndex*>(slot[K_SPENDER].obj.get()); }

    // ---- node context (borrows the SimNode's objects) ----
    void MakeContext()
    {
        nctx = std::make_unique<node::NodeContext>();
        nctx->chainman.reset(cs.node->chainman.get());
        nctx->mempool.reset(cs.node->mempool.get());
        nctx->validation_signals.reset(cs.node->signals.get());
        nctx->args = &gArgs;
        nctx->shutdown_signal = &cs.node->interrupt;
        nctx->shutdown_request = [this] { fatal = true; return true; };
    }
    void DropContext()
    {
        if (!nctx) return;
        (void)nctx->chainman.release();
        (void)nctx->mempool.release();
        (void)nctx->validation_signals.release();
        nctx.reset();
    }

    void CheckFatal(const char* where)
    {
        if (fatal || (nctx && nctx->exit_status.load() != EXIT_SUCCESS)) ctx.failf("index-fatal-error", "%s: an index requested node shutdown (BaseIndex::FatalErrorf)%s", where, AnyTag());
        if (cs.node->Fatal()) ctx.failf("node-fatal-error", "%s", where);
    }

    const CBlockIndex* Pindex(const uint256& h) { return WITH_LOCK(cs_main, return cs.node->cm().m_blockman.LookupBlockIndex(h)); }

    bool OnActive(const uint256& h)
    {
        if (!cs.ref) return true; // during node start-up, before the model exists: only the genesis block is there
        int i = cs.ref->Find(h);
        int t = cs.TipIdx();
        return i >= 0 && t >= 0 && cs.ref->IsAncestor(i, t);
    }

    // Marker carried by every event and violation that concerns an index whose progress was once lost across a clean stop
    // (see the known finding of C21): keeps that finding apart from anything else the oracle may report.
    static constexpr const char* kGapTag = " [uncommitted-index-progress: at an earlier clean stop BaseIndex::Commit declined to write, leaving this index's locator and committed state behind the entries it had already written or erased]";
    const char* Tag(int k) { return slot[k].gap ? kGapTag : ""; }
    const char* AnyTag()
    {
        for (int k = 0; k < NK; ++k)
            if (slot[k].gap) return kGapTag;
        return "";
    }

    /** BaseIndex::Commit writes only if the index's best block is an ancestor (or equal) of the last flushed chainstate block. */
    bool CommitWouldWrite(const IndexSummary& sum)
    {
        LOCK(cs_main);
        const CBlockIndex* lf = cs.node->cs().GetLastFlushedBlock();
        if (!lf || sum.best_block_height > lf->nHeight) return false;
        const CBlockIndex* a = lf->GetAncestor(sum.best_block_height);
        return a && a->GetBlockHash() == sum.best_block_hash;
    }
    void NoteUncommitted(int k, const char* how)
    {
        if (!slot[k].gap) ctx.evf("gap %s: %s", kName[k], how);
        slot[k].gap = true;
        ctx.probe("clean_stop_lost_index_progress");
    }

    // ---- index life cycle ----
    void Create(int k, const char* where)
    {
        ProfScope ps("create+init");
        Slot& s = slot[k];
        ctx.evf("init-start %s%s", kName[k], Tag(k));
        const size_t cache = (size_t)std::clamp<int64_t>(ctx.knob("idx_cache_kb", 1024), 4, 4096) * 1024;
        auto chain = interfaces::MakeChain(*nctx);
        switch (k) {
        case K_TX: s.obj = std::make_unique<TxIndex>(std::move(chain), cache, false, false); break;
        case K_FILTER: s.obj = std::make_unique<BlockFilterIndex>(std::move(chain), BlockFilterType::BASIC, cache, false, false); break;
        case K_STATS: s.obj = std::make_unique<CoinStatsIndex>(std::move(chain), cache, false, false); break;
        default: s.obj = std::make_unique<TxoSpenderIndex>(std::move(chain), cache, false, false); break;
        }
        s.interrupted = false;
        s.need_full = true;
        const bool ok = s.obj->Init();
        IndexSummary sum = s.obj->GetSummary();
        ctx.evf("up %s init=%d synced=%d best=%d/%s", kName[k], ok, sum.synced, sum.best_block_height, Hx(sum.best_block_hash).c_str());
        if (s.have_down && (sum.best_block_hash != s.down_best || sum.best_block_height != s.down_height)) {
            // not a violation by itself (the index may redo the work), but everything written beyond the locator is now unknown to the index
            if (!s.gap) ctx.probe("clean_stop_lost_index_progress");
            s.gap = true;
            ctx.evf("gap %s: stopped at %d/%s, restarted at %d/%s", kName[k], s.down_height, Hx(s.down_best).c_str(), sum.best_block_height, Hx(sum.best_block_hash).c_str());
        }
        if (!ok) ctx.failf("index-init-failed", "%s: %s Init() failed after a clean stop (the index considers its own database unusable)%s", where, kName[k], Tag(k));
        if (sum.synced) ctx.probe("init_at_tip");
        else {
            ctx.probe("init_behind");
            if (!OnActive(sum.best_block_hash)) { ctx.probe("init_on_stale_branch"); any_event = true; }
        }
    }

    void Teardown(int k)
    {
        Slot& s = slot[k];
        if (!s.obj) return;
        IndexSummary sum = s.obj->GetSummary();
        s.have_down = true;
        s.down_best = sum.best_block_hash;
        s.down_height = sum.best_block_height;
        s.obj->Interrupt();
        s.obj->Stop();
        s.obj.reset();
        s.interrupted = false;
        ctx.evf("down %s", kName[k]);
    }

    bool Synced(int k) { return slot[k].obj && !slot[k].interrupted && slot[k].obj->GetSummary().synced; }

    /** Run Sync() inline; returns true if the index ended synced. */
    bool SyncOne(int k, int64_t intr_after, int64_t bump_at, const char* where)
    {
        Slot& s = slot[k];
        if (!s.obj || s.interrupted) return false;
        IndexSummary before = s.obj->GetSummary();
        if (before.synced) return true;
        const bool stale_start = !OnActive(before.best_block_hash);
        ProfScope ps("sync");
        if (ctx.knob("calm", 0) == 1) {
            // calm runs: the chainstate has just been flushed whenever an index syncs, so BaseIndex::Commit never has a reason to skip
            LOCK(cs_main);
            cs.node->cs().ForceFlushStateToDisk(/*wipe_cache=*/false);
        }
        ctx.evf("sync-start %s%s", kName[k], Tag(k));
        SyncSeam seam;
        seam.idx = s.obj.get();
        seam.intr_after = intr_after;
        seam.bump_at = bump_at;
        seam.now = &cs.now;
        {
            SeamGuard g(&seam);
            s.obj->Sync();
        }
        IndexSummary after = s.obj->GetSummary();
        ctx.evf("sync %s from %d/%s -> synced=%d best=%d/%s writes=%ld intr=%d bump=%d", kName[k], before.best_block_height, Hx(before.best_block_hash).c_str(), after.synced, after.best_block_height,
                Hx(after.best_block_hash).c_str(), (long)seam.writes, seam.intr_fired, seam.bump_fired);
        CheckFatal((std::string(where) + Tag(k)).c_str());
        if (seam.writes > 0) ctx.probe("sync_processed_blocks");
        if (stale_start) { ctx.probe("sync_rewind_while_behind"); any_event = true; }
        if (seam.bump_fired) ctx.probe("sync_periodic_locator_write");
        if (seam.intr_fired) ctx.fault("sync_interrupted");
        if (!after.synced) {
            if (!seam.intr_fired) ctx.failf("index-sync-incomplete", "%s: %s Sync() returned without an interrupt but the index is not synced (best height %d)%s", where, kName[k], after.best_block_height, Tag(k));
            s.interrupted = true;
            any_event = true;
            ctx.probe("sync_interrupted_midway");
            if (seam.writes > 0 && !CommitWouldWrite(after)) NoteUncommitted(k, "Sync() was interrupted ahead of the last flushed chainstate block, its commit is skipped");
            if (stale_start) ctx.probe("sync_interrupted_after_rewind");
            return false;
        }
        s.need_full = true;
        return true;
    }

    // ---- model ----
    const MBlock& Model(int idx)
    {
        if (mb.size() < cs.ref->blocks.size()) mb.resize(cs.ref->blocks.size());
        std::vector<int> todo;
        for (int i = idx; i >= 0 && !mb[i].done; i = cs.ref->blocks[i].parent) todo.push_back(i);
        for (size_t n = todo.size(); n-- > 0;) ComputeOne(todo[n]);
        return mb[idx];
    }

    static void AddElement(GCSFilter::ElementSet& e, const CScript& spk, bool is_output)
    {
        if (spk.empty()) return;
        if (is_output && spk[0] == OP_RETURN) return;
        e.emplace(spk.begin(), spk.end());
    }

    void ComputeOne(int i)
    {
        ProfScope ps("model");
        const RefBlock& B = cs.ref->blocks[i];
        if (B.verdict != Verdict::VALID) ctx.failf("sim-internal", "model statistics requested for block #%d which is not valid per the model", i);
        const CBlock& blk = *B.block;
        MBlock m;
        MStats st = B.parent >= 0 ? mb[B.parent].st : MStats{};
        GCSFilter::ElementSet elems;
        const CAmount subsidy = RefSubsidy(B.height, cs.ref->halving_interval);
        st.subsidy += subsidy;
        if (B.height == 0) {
            st.u_genesis += subsidy;
            for (auto& tx : blk.vtx)
                for (auto& o : tx->vout) AddElement(elems, o.scriptPubKey, true);
        } else {
            const RefUtxo& pu = *cs.ref->blocks[B.parent].utxo;
            std::map<COutPoint, CTxOut> inblock;
            CAmount b_spent = 0, b_new = 0, b_cb = 0, b_unsp = 0;
            for (auto& tx : blk.vtx) {
                const bool cb = tx->IsCoinBase();
                if (!cb)
                    for (auto& in : tx->vin) {
                        CAmount v;
                        CScript spk;
                        auto it = pu.find(in.prevout);
                        if (it != pu.end()) { v = it->second.value; spk = it->second.spk; }
                        else {
                            auto jt = inblock.find(in.prevout);
                            if (jt == inblock.end()) ctx.failf("sim-internal", "model: input of valid block #%d not found", i);
                            v = jt->second.nValue;
                            spk = jt->second.scriptPubKey;
                        }
                        b_spent += v;
                        AddElement(elems, spk, false);
                    }
                for (size_t j = 0; j < tx->vout.size(); ++j) {
                    const CTxOut& o = tx->vout[j];
                    AddElement(elems, o.scriptPubKey, true);
                    if (RefUnspendable(o.scriptPubKey)) { b_unsp += o.nValue; continue; }
                    (cb ? b_cb : b_new) += o.nValue;
                    inblock[COutPoint(tx->GetHash(), (uint32_t)j)] = o;
                }
            }
            st.spent += arith_uint256((uint64_t)b_spent);
            st.newout += arith_uint256((uint64_t)b_new);
            st.cbout += arith_uint256((uint64_t)b_cb);
            st.u_scripts += b_unsp;
            const CAmount unclaimed = (b_spent + subsidy) - (b_new + b_cb + b_unsp);
            if (unclaimed < 0) ctx.failf("sim-internal", "model: valid block #%d creates more than it may", i);
            st.u_unclaimed += unclaimed;
        }
        // statistics of the UTXO set after this block: from scratch, coins inserted into the MuHash in a seeded order
        const RefUtxo& u = *B.utxo;
        st.count = u.size();
        st.total = 0;
        st.bogo = 0;
        std::vector<const std::pair<const COutPoint, RefCoin>*> coins;
        coins.reserve(u.size());
        for (auto& kv : u) {
            st.total += kv.second.value;
            st.bogo += 32 + 4 + 4 + 8 + 2 + kv.second.spk.size();
            coins.push_back(&kv);
        }
        Rng r(mix64(ctx.plan.seed, 0xc21c0135ULL + (uint64_t)i));
        for (size_t n = coins.size(); n > 1; --n) std::swap(coins[n - 1], coins[r.below(n)]);
        MuHash3072 mh;
        for (auto* kv : coins) {
            DataStream ss{};
            ss << kv->first;
            ss << (uint32_t)(((uint32_t)kv->second.height << 1) | (kv->second.coinbase ? 1u : 0u));
            ss << CTxOut(kv->second.value, kv->second.spk);
            mh.Insert(MakeUCharSpan(ss));
        }
        mh.Finalize(st.muhash);
        if (st.total != st.subsidy - (st.u_genesis + st.u_scripts + st.u_unclaimed)) ctx.failf("sim-internal", "model: amounts of block #%d do not add up", i);
        m.st = st;
        // BIP158 basic filter: siphash key = first 16 bytes of the block hash, P=19, M=784931
        GCSFilter gcs(GCSFilter::Params(B.hash.GetUint64(0), B.hash.GetUint64(1), 19, 784931), elems);
        m.filter = gcs.GetEncoded();
        m.fhash = Hash(m.filter);
        uint256 prev = B.parent >= 0 ? mb[B.parent].fheader : uint256{};
        CHash256().Write(m.fhash).Write(prev).Finalize(m.fheader);
        m.done = true;
        mb[i] = std::move(m);
    }

    // ---- oracle ----
    std::vector<int> Active(int tip)
    {
        std::vector<int> v((size_t)cs.ref->blocks[tip].height + 1, -1);
        for (int i = tip; i >= 0; i = cs.ref->blocks[i].parent) v[cs.ref->blocks[i].height] = i;
        return v;
    }

    void CheckTxIndex(const char* where, const std::vector<int>& act, const std::vector<int>& heights)
    {
        size_t n = 0;
        for (int h : heights) {
            if (h == 0) continue; // the genesis coinbase is excluded from the index by design
            const RefBlock& B = cs.ref->blocks[act[h]];
            for (auto& t : B.block->vtx) {
                auto r = tx()->FindTx(t->GetHash());
                ++n;
                if (!r) ctx.failf("txindex-missing-tx", "%s: txindex does not find active-chain tx %s of block #%d (h=%d)", where, Hx(t->GetHash().ToUint256()).c_str(), act[h], h);
                if (!r->tx || r->tx->GetHash() != t->GetHash() || r->tx->GetWitnessHash() != t->GetWitnessHash())
                    ctx.failf("txindex-wrong-tx", "%s: txindex returns a different transaction for %s (h=%d)", where, Hx(t->GetHash().ToUint256()).c_str(), h);
                if (r->block_hash != B.hash)
                    ctx.failf("txindex-wrong-block", "%s: txindex places tx %s in block %s, the active chain has it in #%d %s (h=%d)", where, Hx(t->GetHash().ToUint256()).c_str(), Hx(r->block_hash).c_str(), act[h],
                              Hx(B.hash).c_str(), h);
            }
        }
        ctx.probe("txindex_lookups", n);
    }

    void CheckSpender(const char* where, const std::vector<int>& act, const std::vector<int>& heights)
    {
        size_t n = 0;
        for (int h : heights) {
            if (h == 0) continue;
            const RefBlock& B = cs.ref->blocks[act[h]];
            for (auto& t : B.block->vtx) {
                if (t->IsCoinBase()) continue;
                for (auto& in : t->vin) {
                    auto r = sp()->FindSpender(in.prevout);
                    ++n;
                    if (!r) ctx.failf("spender-lookup-error", "%s: FindSpender(%s:%u) failed: %s", where, Hx(in.prevout.hash.ToUint256()).c_str(), in.prevout.n, r.error().c_str());
                    if (!r->has_value())
                        ctx.failf("spender-missing", "%s: txospenderindex has no spender for %s:%u, which tx %s in active block #%d (h=%d) spends", where, Hx(in.prevout.hash.ToUint256()).c_str(), in.prevout.n,
                                  Hx(t->GetHash().ToUint256()).c_str(), act[h], h);
                    const TxoSpender& s = **r;
                    if (!s.tx || s.tx->GetHash() != t->GetHash())
                        ctx.failf("spender-wrong-tx", "%s: txospenderindex says %s:%u is spent by %s (block %s); on the active chain it is spent by %s in #%d (h=%d)", where, Hx(in.prevout.hash.ToUint256()).c_str(),
                                  in.prevout.n, s.tx ? Hx(s.tx->GetHash().ToUint256()).c_str() : "null", Hx(s.block_hash).c_str(), Hx(t->GetHash().ToUint256()).c_str(), act[h], h);
                    if (s.block_hash != B.hash)
                        ctx.failf("spender-wrong-block", "%s: spender of %s:%u reported in block %s, active block is #%d %s (h=%d)", where, Hx(in.prevout.hash.ToUint256()).c_str(), in.prevout.n,
                                  Hx(s.block_hash).c_str(), act[h], Hx(B.hash).c_str(), h);
                }
            }
        }
        if (n) ctx.probe("spender_lookups", n);
    }

    void CheckFilter(const char* where, const std::vector<int>& act, const std::vector<int>& heights, bool full)
    {
        for (int h : heights) {
            const RefBlock& B = cs.ref->blocks[act[h]];
            const MBlock& m = Model(act[h]);
            const CBlockIndex* pi = Pindex(B.hash);
            if (!pi) ctx.failf("sim-internal", "%s: active block #%d unknown to the node", where, act[h]);
            BlockFilter f;
            if (!bf()->LookupFilter(pi, f)) ctx.failf("filter-missing", "%s: blockfilterindex has no filter for active block #%d (h=%d)", where, act[h], h);
            if (f.GetBlockHash() != B.hash || f.GetFilterType() != BlockFilterType::BASIC || f.GetEncodedFilter() != m.filter)
                ctx.failf("filter-mismatch", "%s: filter of active block #%d (h=%d) differs from the BIP158 filter recomputed from the block and its spent outputs (index: block %s, %zu bytes; model: %zu bytes)", where,
                          act[h], h, Hx(f.GetBlockHash()).c_str(), f.GetEncodedFilter().size(), m.filter.size());
            uint256 hdr;
            if (!bf()->LookupFilterHeader(pi, hdr)) ctx.failf("filter-header-missing", "%s: no filter header for active block #%d (h=%d)", where, act[h], h);
            if (hdr != m.fheader)
                ctx.failf("filter-header-mismatch", "%s: filter header of active block #%d (h=%d) is %s, the header chain recomputed over the active chain gives %s", where, act[h], h, Hx(hdr).c_str(), Hx(m.fheader).c_str());
        }
        ctx.probe("filter_lookups", heights.size());
        if (full) {
            const int H = (int)act.size() - 1;
            const CBlockIndex* tip = Pindex(cs.ref->blocks[act[H]].hash);
            std::vector<BlockFilter> fs;
            std::vector<uint256> hs;
            if (!bf()->LookupFilterRange(0, tip, fs) || (int)fs.size() != H + 1) ctx.failf("filter-range-missing", "%s: LookupFilterRange(0..%d) failed or returned %zu filters", where, H, fs.size());
            if (!bf()->LookupFilterHashRange(0, tip, hs) || (int)hs.size() != H + 1) ctx.failf("filter-range-missing", "%s: LookupFilterHashRange(0..%d) failed or returned %zu hashes", where, H, hs.size());
            for (int h = 0; h <= H; ++h) {
                const MBlock& m = Model(act[h]);
                if (fs[h].GetBlockHash() != cs.ref->blocks[act[h]].hash || fs[h].GetEncodedFilter() != m.filter) ctx.failf("filter-mismatch", "%s: LookupFilterRange entry for h=%d differs from recomputation", where, h);
                if (hs[h] != m.fhash) ctx.failf("filter-hash-mismatch", "%s: LookupFilterHashRange entry for h=%d differs from recomputation", where, h);
            }
            ctx.probe("filter_range_lookups");
        }
    }

    void CheckStats(const char* where, const std::vector<int>& act, const std::vector<int>& heights)
    {
        for (int h : heights) {
            const RefBlock& B = cs.ref->blocks[act[h]];
            const MStats& m = Model(act[h]).st;
            const CBlockIndex* pi = Pindex(B.hash);
            if (!pi) ctx.failf("sim-internal", "%s: active block #%d unknown to the node", where, act[h]);
            auto s = st()->LookUpStats(*pi);
            if (!s) ctx.failf("coinstats-missing", "%s: coinstatsindex has no entry for active block #%d (h=%d)", where, act[h], h);
            if (s->hashSerialized != m.muhash)
                ctx.failf("coinstats-muhash-mismatch", "%s: coinstatsindex MuHash at h=%d (block #%d) is %s; MuHash of the model's UTXO set at that block, inserted in a seeded order, is %s", where, h, act[h],
                          Hx(s->hashSerialized).c_str(), Hx(m.muhash).c_str());
            if (s->nTransactionOutputs != m.count) ctx.failf("coinstats-count-mismatch", "%s: coinstatsindex txouts at h=%d: %lu, model UTXO set has %lu", where, h, (unsigned long)s->nTransactionOutputs, (unsigned long)m.count);
            if (!s->total_amount || *s->total_amount != m.total)
                ctx.failf("coinstats-amount-mismatch", "%s: coinstatsindex total_amount at h=%d: %ld, model UTXO set sums to %ld", where, h, (long)s->total_amount.value_or(-1), (long)m.total);
            if (s->nBogoSize != m.bogo) ctx.failf("coinstats-bogosize-mismatch", "%s: coinstatsindex bogosize at h=%d: %lu, model %lu", where, h, (unsigned long)s->nBogoSize, (unsigned long)m.bogo);
            if (s->total_subsidy != m.subsidy || s->total_unspendables_genesis_block != m.u_genesis || s->total_unspendables_bip30 != 0 || s->total_unspendables_scripts != m.u_scripts ||
                s->total_unspendables_unclaimed_rewards != m.u_unclaimed || s->total_prevout_spent_amount != m.spent || s->total_new_outputs_ex_coinbase_amount != m.newout || s->total_coinbase_amount != m.cbout)
                ctx.failf("coinstats-cumulative-amounts-mismatch",
                          "%s: h=%d index(subsidy=%ld genesis=%ld bip30=%ld scripts=%ld unclaimed=%ld spent=%s new=%s coinbase=%s) model(subsidy=%ld genesis=%ld bip30=0 scripts=%ld unclaimed=%ld spent=%s new=%s coinbase=%s)", where, h,
                          (long)s->total_subsidy, (long)s->total_unspendables_genesis_block, (long)s->total_unspendables_bip30, (long)s->total_unspendables_scripts, (long)s->total_unspendables_unclaimed_rewards,
                          s->total_prevout_spent_amount.ToString().substr(48).c_str(), s->total_new_outputs_ex_coinbase_amount.ToString().substr(48).c_str(), s->total_coinbase_amount.ToString().substr(48).c_str(), (long)m.subsidy,
                          (long)m.u_genesis, (long)m.u_scripts, (long)m.u_unclaimed, m.spent.ToString().substr(48).c_str(), m.newout.ToString().substr(48).c_str(), m.cbout.ToString().substr(48).c_str());
        }
        ctx.probe("coinstats_lookups", heights.size());
    }

    /** From-scratch computation by the node itself (ComputeUTXOStats over the flushed coins database) against index and model at the tip. */
    void CheckComputeUtxoStats(const char* where, const std::vector<int>& act)
    {
        const int H = (int)act.size() - 1;
        const MStats& m = Model(act[H]).st;
        std::optional<kernel::CCoinsStats> s;
        {
            LOCK(cs_main);
            cs.node->cs().ForceFlushStateToDisk(/*wipe_cache=*/false);
            s = kernel::ComputeUTXOStats(kernel::CoinStatsHashType::MUHASH, cs.node->cs().CoinsDB(), cs.node->cm().m_blockman);
        }
        if (!s) ctx.failf("sim-internal", "%s: ComputeUTXOStats failed", where);
        if (s->hashBlock != cs.ref->blocks[act[H]].hash) ctx.failf("sim-internal", "%s: coins database is not at the tip after a forced flush", where);
        if (s->hashSerialized != m.muhash || s->coins_count != m.count || !s->total_amount || *s->total_amount != m.total)
            ctx.failf("computeutxostats-vs-model-mismatch", "%s: ComputeUTXOStats(MUHASH) over the node's coins database at the tip (h=%d): muhash %s coins %lu amount %ld; model: %s %lu %ld", where, H,
                      Hx(s->hashSerialized).c_str(), (unsigned long)s->coins_count, (long)s->total_amount.value_or(-1), Hx(m.muhash).c_str(), (unsigned long)m.count, (long)m.total);
        if (Synced(K_STATS)) {
            const std::string wk = std::string(where) + Tag(K_STATS);
            where = wk.c_str();
            const CBlockIndex* pi = Pindex(cs.ref->blocks[act[H]].hash);
            auto x = st()->LookUpStats(*pi);
            if (!x) ctx.failf("coinstats-missing", "%s: coinstatsindex has no entry for the tip (h=%d)", where, H);
            if (x->hashSerialized != s->hashSerialized || x->nTransactionOutputs != s->nTransactionOutputs || x->total_amount != s->total_amount || x->nBogoSize != s->nBogoSize)
                ctx.failf("coinstats-vs-computeutxostats-mismatch", "%s: coinstatsindex at the tip (h=%d) muhash %s txouts %lu amount %ld bogosize %lu; ComputeUTXOStats from scratch: %s %lu %ld %lu", where, H,
                          Hx(x->hashSerialized).c_str(), (unsigned long)x->nTransactionOutputs, (long)x->total_amount.value_or(-1), (unsigned long)x->nBogoSize, Hx(s->hashSerialized).c_str(),
                          (unsigned long)s->nTransactionOutputs, (long)s->total_amount.value_or(-1), (unsigned long)s->nBogoSize);
            ctx.probe("coinstats_vs_computeutxostats");
        }
    }

    /** Check every index that reports itself synced. `low` = lowest height that may have changed since the last check. */
    void CheckIndexes(const char* where, int low, bool force_full)
    {
        int tip = cs.TipIdx();
        if (tip < 0) return; // reported by ChainSim::CheckAll
        std::vector<int> act = Active(tip);
        const int H = (int)act.size() - 1;
        std::vector<int> all, win;
        for (int h = 0; h <= H; ++h) all.push_back(h);
        // window: a few seeded older heights, then everything from `low`-2 upwards
        low = std::clamp(low - 2, 0, H);
        if (low > 0) {
            Rng r(mix64(ctx.plan.seed, 0x77696e ^ (opno << 8)));
            std::set<int> smp;
            for (int i = 0; i < 3; ++i) smp.insert((int)r.below(low));
            win.assign(smp.begin(), smp.end());
        }
        for (int h = low; h <= H; ++h) win.push_back(h);
        uint64_t fp = mix64(tip, H);
        for (int k = 0; k < NK; ++k) {
            Slot& s = slot[k];
            fp = mix64(fp, (uint64_t)(s.obj ? 1 : 0) | (s.interrupted ? 2 : 0));
            if (!s.obj || s.interrupted) continue;
            if (!s.obj->BlockUntilSyncedToCurrentChain()) {
                IndexSummary sum = s.obj->GetSummary();
                fp = mix64(fp, 4 + (uint64_t)std::min(H - sum.best_block_height, 40));
                ctx.probe("index_behind_tip");
                continue;
            }
            const bool full = force_full || s.need_full;
            const std::vector<int>& hs = full ? all : win;
            ProfScope ps(kName[k]);
            const std::string wk = std::string(where) + Tag(k);
            ctx.evf("check-start %s%s", kName[k], Tag(k));
            switch (k) {
            case K_TX: CheckTxIndex(wk.c_str(), act, hs); break;
            case K_FILTER: CheckFilter(wk.c_str(), act, hs, full); break;
            case K_STATS: CheckStats(wk.c_str(), act, hs); break;
            default: CheckSpender(wk.c_str(), act, hs); break;
            }
            s.need_full = false;
            ++checks;
            if (full) ctx.probe("full_check");
            ctx.evf("check %s %s h=%d..%d ok", kName[k], full ? "full" : "window", full ? 0 : low, H);
        }
        ctx.fingerprint(fp);
    }

    // ---- prune runs ----
    /** Extend the active chain by n blocks whose coinbase carries a 6 kB OP_RETURN output (about ten blocks per 64 KiB block file). */
    void MinePadded(int n)
    {
        const Consensus::Params& cp = cs.node->params->GetConsensus();
        for (int i = 0; i < n; ++i) {
            const int parent = cs.TipIdx();
            if (parent < 0) return;
            const RefBlock& P = cs.ref->blocks[parent];
            BlockExtras ex;
            ex.cb_extranonce = (uint32_t)(++cs.cb_nonce);
            ex.coinbase_spk = Keys().Spk(SK::P2WPKH, (int)(cs.cb_nonce % N_KEYS));
            ex.extra_coinbase_outputs.emplace_back(0, CScript() << OP_RETURN << std::vector<unsigned char>(6000, (unsigned char)(cs.cb_nonce & 0xff)));
            const int64_t time = std::max<int64_t>(cs.ref->MTP(parent) + 1, P.time + 30);
            auto block = BuildBlock(P.hash, P.height + 1, time, {}, RefSubsidy(P.height + 1, cs.ref->halving_interval), ex, cp);
            int idx = cs.AddBlock(block, parent, BlockLabel{});
            cs.Deliver(idx, true);
            if (cs.TipIdx() != idx) ctx.failf("sim-internal", "padded block #%d did not become the tip", idx);
        }
        CheckFatal("padded extension");
    }

    int LowestHeightWithData(const std::vector<int>& act)
    {
        LOCK(cs_main);
        for (int h = 1; h < (int)act.size(); ++h) {
            const CBlockIndex* pi = cs.node->cm().m_blockman.LookupBlockIndex(cs.ref->blocks[act[h]].hash);
            if (pi && (pi->nStatus & BLOCK_HAVE_DATA)) return h;
        }
        return (int)act.size();
    }

    void PruneOp(const Op& op)
    {
        if (!ctx.knob("prune", 0)) return;
        int tip = cs.TipIdx();
        if (tip < 0) return;
        const int H = cs.ref->blocks[tip].height;
        const int height = (int)std::clamp<int64_t>((int64_t)H * (1 + (int64_t)op.mod(0, 1000)) / 1000, 1, H);
        std::vector<int> act = Active(tip);
        const int before = LowestHeightWithData(act);
        {
            LOCK(cs_main);
            PruneBlockFilesManual(cs.node->cs(), height);
        }
        const int after = LowestHeightWithData(act);
        ctx.probe("prune_op");
        if (after > before) ctx.probe("block_files_pruned");
        // what would have gone without the indexes' prune locks: everything up to min(height, H - 288)
        int lowest_lag = H + 1;
        for (int k = 0; k < NK; ++k)
            if (slot[k].obj && !Synced(k)) lowest_lag = std::min(lowest_lag, slot[k].obj->GetSummary().best_block_height);
        if (lowest_lag <= std::min(height, H - 288)) ctx.probe("prune_request_reaches_past_lagging_index");
        ctx.evf("prune to %d (tip %d): lowest block with data %d -> %d", height, H, before, after);
    }

    /** The tip's transactions confirmed a second time in a sibling block that overtakes it (and, optionally, is overtaken again):
     *  afterwards the same txids and the same spent outpoints exist in an active and in a stale block. */
    void TwinReorg(const Op& op)
    {
        const int tip = cs.TipIdx();
        if (tip <= 0) return;
        const RefBlock B = cs.ref->blocks[tip];
        if (B.block->vtx.size() < 2 || B.verdict != Verdict::VALID) return;
        const Consensus::Params& cp = cs.node->params->GetConsensus();
        BlockExtras ex;
        ex.cb_extranonce = (uint32_t)(++cs.cb_nonce);
        ex.coinbase_spk = Keys().Spk(SK::P2WPKH, (int)(cs.cb_nonce % N_KEYS));
        std::vector<CTransactionRef> txs(B.block->vtx.begin() + 1, B.block->vtx.end());
        auto twin = BuildBlock(cs.ref->blocks[B.parent].hash, B.height, B.time, txs, RefSubsidy(B.height, cs.ref->halving_interval) + B.fees, ex, cp);
        const int t = cs.AddBlock(twin, B.parent, BlockLabel{});
        if (cs.ref->blocks[t].verdict != Verdict::VALID) ctx.failf("sim-internal", "twin block #%d is not valid per the model: %s", t, cs.ref->blocks[t].reason.c_str());
        cs.Deliver(t, true);
        Rng r(mix64((uint64_t)op.arg(1), 0x7477696e));
        const int t2 = cs.MineOn(t, 0, r.next(), D_NONE, B_NONE, 0);
        cs.Deliver(t2, true);
        if (cs.TipIdx() == t2) ctx.probe("twin_reorg");
        if (op.arg(0)) {
            int b1 = cs.MineOn(tip, 0, r.next(), D_NONE, B_NONE, 0);
            cs.Deliver(b1, true);
            int b2 = cs.MineOn(b1, 0, r.next(), D_NONE, B_NONE, 0);
            cs.Deliver(b2, true);
            if (cs.TipIdx() == b2) ctx.probe("twin_reorg_back");
        }
        if (cs.node->Fatal()) ctx.failf("node-fatal-error", "twin reorg");
        cs.CheckAll("twin reorg");
    }

    // ---- operations ----
    // Indexes only ever start and stop the way a real node starts and stops them: Shutdown() is the order of init.cpp (interrupt the
    // indexes, flush the chainstate while they still listen so that synced ones commit, stop them), BringUp() is Init() of every
    // selected index followed by inline Sync() calls. An interrupted Sync() is the sync thread leaving its loop during shutdown.
    int UpMask()
    {
        int m = 0;
        for (int k = 0; k < NK; ++k)
            if (slot[k].obj) m |= 1 << k;
        return m;
    }

    void Shutdown(bool node_restart, const char* where)
    {
        ProfScope ps("shutdown");
        const int tip_before = cs.TipIdx();
        const int was_up = UpMask();
        for (int k = 0; k < NK; ++k)
            if (slot[k].obj) slot[k].obj->Interrupt();
        {
            LOCK(cs_main);
            cs.node->cs().ForceFlushStateToDisk();
        }
        for (int k = 0; k < NK; ++k)
            if (Synced(k) && !CommitWouldWrite(slot[k].obj->GetSummary())) NoteUncommitted(k, "stopped with a best block that the flushed chainstate does not contain, its commit is skipped");
        for (int k = 0; k < NK; ++k) Teardown(k);
        if (was_up) { ctx.probe("index_shutdown"); any_event = true; }
        if (node_restart && ctx.knob("on_disk", 0)) {
            DropContext();
            cs.node->Stop(/*clean=*/true);
            if (!cs.node->Start()) ctx.failf("restart-failed", "clean restart failed: %s", cs.node->last_error.c_str());
            MakeContext();
            node_restarted = true;
            ctx.probe("clean_restart");
            if (was_up) ctx.probe("index_restart_with_node");
            ctx.evf("node restart tip=%s h=%d", Hx(cs.node->TipHash()).c_str(), cs.node->Height());
            int t = cs.TipIdx();
            if (t >= 0 && tip_before >= 0 && cs.ref->Work(t) < cs.ref->Work(tip_before)) ctx.failf("restart-lost-work", "%s: tip work went from %d to %d across a clean restart", where, cs.ref->Work(tip_before), cs.ref->Work(t));
        }
    }

    void BringUp(int mask, bool sync, int64_t intr, int64_t bump, bool resume, bool node_restart_on_interrupt, const char* where)
    {
        mask &= enabled;
        for (int k = 0; k < NK; ++k)
            if ((mask & (1 << k)) && !slot[k].obj) Create(k, where);
        if (!sync) return;
        for (int k = 0; k < NK; ++k) {
            if (!(mask & (1 << k)) || SyncOne(k, intr, bump, where)) continue;
            // shutdown in the middle of this index's sync
            ctx.probe("restart_in_the_middle_of_sync");
            const int up = UpMask();
            Shutdown(node_restart_on_interrupt, where);
            BringUp(up, resume, 0, 0, false, false, where);
            return;
        }
    }

    void ExecIdxOp(const Op& op)
    {
        const std::string d = Describe(op);
        const char* where = d.c_str();
        switch (op.kind) {
        case OP_IDX_RESTART: {
            int m = (int)(op.arg(1, 15) & 15);
            const int up = UpMask();
            switch (op.mod(0, 3)) {
            case 0: m = m & enabled; break;
            case 1: m = (up | m) & enabled; break;
            default: m = up & ~m; break;
            }
            // a pruning node must not lose blocks an index still needs: init.cpp refuses to start such an index, a check this harness does not
            // re-enact, so in prune runs no index is ever switched off (lagging indexes keep their prune locks)
            if (ctx.knob("prune", 0)) m = enabled;
            if (up & ~m) ctx.probe("index_switched_off");
            if (m & ~up) ctx.probe("index_switched_on");
            Shutdown(op.arg(2) != 0, where);
            BringUp(m, op.arg(3) != 0, op.arg(4), op.arg(5), op.arg(6) != 0, op.arg(2) != 0, where);
            break;
        }
        case OP_IDX_SYNC: {
            int m = (int)(op.arg(0, 15) & 15);
            if (!(m & UpMask())) m = 15;
            for (int k = 0; k < NK; ++k) {
                if (!(m & (1 << k)) || !slot[k].obj || Synced(k)) continue;
                if (SyncOne(k, op.arg(1), op.arg(2), where)) continue;
                ctx.probe("restart_in_the_middle_of_sync");
                const int up = UpMask();
                Shutdown(op.arg(4) != 0, where);
                BringUp(up, op.arg(3) != 0, 0, 0, false, false, where);
                break;
            }
            break;
        }
        case OP_IDX_PRUNE: PruneOp(op); break;
        case OP_IDX_TWIN:
            if (AnyTag()[0]) ctx.evf("chain-op-start%s", AnyTag());
            TwinReorg(op);
            break;
        case OP_IDX_CHECK: {
            int tip = cs.TipIdx();
            if (tip < 0) break;
            CheckIndexes(where, cs.ref->blocks[tip].height, op.arg(0) != 0);
            if (op.arg(1)) CheckComputeUtxoStats(where, Active(tip));
            break;
        }
        }
    }

    void NodeRestart(const Op& op)
    {
        if (!ctx.knob("on_disk", 0)) return;
        const std::string d = Describe(op);
        const int up = UpMask();
        Shutdown(true, d.c_str());
        BringUp(up, op.arg(0, 1) != 0, op.arg(1), op.arg(2), op.arg(3, 1) != 0, true, d.c_str());
        cs.CheckAll(d.c_str());
    }

    void Run()
    {
        // the indexes locate their databases through the global ArgsManager
        const std::string idxdir = RunDir() + "/idxdata";
        fs::create_directories(fs::PathFromString(idxdir));
        gArgs.ForceSetArg("-datadir", idxdir);
        gArgs.ClearPathCache();
        fs::create_directories(gArgs.GetDataDirNet());

        enabled = (int)(ctx.knob("idx_mask", 15) & 15);
        if (!enabled) enabled = 15;
        const int start_mode = (int)std::clamp<int64_t>(ctx.knob("idx_start", 1), 0, 3);
        slots_holder = std::make_unique<Slots>();
        slot = slots_holder->s;
        const bool prune = ctx.knob("prune", 0) != 0;
        if (prune) {
            enabled &= (1 << K_FILTER) | (1 << K_STATS); // TxIndex and TxoSpenderIndex refuse to run on a pruning node
            if (!enabled) enabled = (1 << K_FILTER) | (1 << K_STATS);
            cs.tweak_opts = [](NodeOpts& o) {
                o.prune_target = 1; // manual pruning
                o.fast_prune = true;
                o.regtest.fastprune = true;
            };
        }
        cs.on_node_started = [&] {
            MakeContext();
            if (start_mode == 0) BringUp(enabled, true, 0, 0, false, false, "start with an empty chain");
        };
        {
            ProfScope ps("setup(base chain)");
            cs.Setup();
        }
        cs.on_node_started = nullptr;
        CheckFatal("base chain");
        if (start_mode == 1 || start_mode == 2) {
            Shutdown(ctx.knob("restart_to_enable", 0) != 0, "enable the indexes after the base chain");
            BringUp(enabled, start_mode == 1, 0, 0, false, false, "enable the indexes after the base chain");
        }
        CheckIndexes("after the base chain", 0, true);
        if (prune) {
            // the indexes know the base chain; now the node runs without them for a while, then with them enabled but not syncing (their
            // prune locks rest at the base chain) while the chain grows far enough that whole block files leave the keep window
            if (UpMask()) Shutdown(false, "padded extension");
            MinePadded((int)std::clamp<int64_t>(ctx.knob("pad_down", 10), 0, 100));
            BringUp(enabled, false, 0, 0, false, false, "padded extension");
            MinePadded((int)std::clamp<int64_t>(ctx.knob("pad_lag", 320), 0, 600));
            CheckIndexes("after the padded extension", 0, false);
        }

        for (const Op& op : ctx.plan.ops) {
            ++opno;
            const int prev_tip = cs.TipIdx();
            bool synced_before[NK];
            for (int k = 0; k < NK; ++k) synced_before[k] = Synced(k);
            if (op.kind >= 100) ExecIdxOp(op);
            else if (op.kind == OP_RESTART) NodeRestart(op);
            else if ((ctx.knob("calm", 0) || node_restarted) && (op.kind == OP_INVALIDATE || op.kind == OP_RECONSIDER)) {
                // calm runs never leave an index ahead of the chain tip. After a real node restart the block index entries loaded from disk share
                // one sequence id, and validation breaks ties between equal-work candidates that are not on the active chain by pointer address:
                // which of them becomes the tip after an invalidateblock/reconsiderblock would differ from run to run
                if (node_restarted) ctx.probe("invalidate_skipped_after_node_restart");
            } else {
                ProfScope ps("chain ops");
                if (AnyTag()[0]) ctx.evf("chain-op-start%s", AnyTag());
                cs.ExecOp(op);
            }
            const std::string d = Describe(op);
            CheckFatal(d.c_str());
            const int tip = cs.TipIdx();
            int low = tip >= 0 ? cs.ref->blocks[tip].height : 0;
            if (tip >= 0 && prev_tip >= 0 && tip != prev_tip) {
                int fork = cs.ref->ForkPoint(prev_tip, tip);
                low = std::min(low, cs.ref->blocks[fork].height + 1);
                if (fork != prev_tip) {
                    bool seen = false;
                    for (int k = 0; k < NK; ++k) seen |= synced_before[k];
                    if (seen) { ctx.probe("reorg_seen_by_synced_index"); any_event = true; }
                    else ctx.probe("reorg_while_index_behind_or_off");
                }
            }
            if (op.kind != OP_IDX_CHECK) CheckIndexes(d.c_str(), low, false);
        }

        // bounded liveness after the last fault: one more clean shutdown, then every enabled index comes up, syncs to the tip without
        // interruption and agrees everywhere
        ++opno;
        Shutdown(false, "final sync");
        BringUp(enabled, true, 0, 0, false, false, "final sync");
        for (int k = 0; k < NK; ++k)
            if (enabled & (1 << k)) {
                if (!Synced(k)) ctx.failf("index-sync-incomplete", "final sync: %s did not reach the tip", kName[k]);
                if (!slot[k].obj->BlockUntilSyncedToCurrentChain()) ctx.failf("index-sync-incomplete", "final sync: %s does not report synced", kName[k]);
            }
        {
            int tip = cs.TipIdx();
            if (tip >= 0) {
                CheckIndexes("end of run", 0, true);
                CheckComputeUtxoStats("end of run", Active(tip));
            }
        }
        CheckFatal("end of run");
        if (checks > 0 && any_event) ctx.nontrivial = true;
        // orderly shutdown
        Shutdown(false, "end of run");
        DropContext();
        cs.Finish();
    }
};

void Run(Ctx& ctx)
{
    // debugging aid: VERIF_C21_TRACE=<dir> writes the event log of every run to <dir>/<seed>.<pid>.log
    struct TraceDump {
        Ctx& c;
        bool on;
        explicit TraceDump(Ctx& cc) : c(cc), on(getenv("VERIF_C21_TRACE") != nullptr) { if (on) c.verbose = true; }
        ~TraceDump()
        {
            if (!on) return;
            std::string path = std::string(getenv("VERIF_C21_TRACE")) + "/" + std::to_string(c.plan.seed) + "." + std::to_string((long)getpid()) + ".log";
            if (FILE* f = fopen(path.c_str(), "w")) {
                for (auto& l : c.log) fprintf(f, "%s\n", l.c_str());
                fclose(f);
            }
        }
    } dump(ctx);
    IdxSim s(ctx);
    s.Run();
}

Engine MakeEngine()
{
    Engine e;
    e.prop = "C21";
    e.name = "nodesim/indexes";
    e.level = "exploration";
    e.gen = Gen;
    e.run = Run;
    e.describe = Describe;
    e.chunk = 1;
    e.quick_runs = 600;
    e.thorough_runs = 12000;
    e.quick_budget_s = 50;
    e.thorough_budget_s = 900;
    e.rule = "each run = one seeded block-tree history on a real regtest node (base chain of 101-118 blocks, then the shared chain workload with c09 bias: blocks with 0-6 transactions spending across fork points, "
             "30-60% forks, reorg operations of depth 1-6, invalidateblock/reconsiderblock, forced/periodic flushes) interleaved with operations on the real TxIndex, BlockFilterIndex(basic), CoinStatsIndex and "
             "TxoSpenderIndex, which start and stop only the way a node starts and stops them: shutdown (interrupt, chainstate flush with the indexes still listening, stop; optionally a real node restart) followed by "
             "start of a changed index set (an index that is switched off falls behind while the chain moves and reorganizes), Init() and inline BaseIndex::Sync() calls at seeded points; a running Sync() can be cut "
             "by a shutdown after its N-th database write (= restart in the middle of sync) and can have the clock stepped past the 30 s locator-write interval; twin reorgs confirm the same transactions in a stale "
             "and an active block. Knobs: enabled index subset, when the indexes first start (empty chain / after the base chain with full sync / lagging / off), index DB cache, on-disk vs in-memory chainstate, coins "
             "cache and batch size, calm (no invalidateblock, chainstate flushed before every Sync: BaseIndex::Commit then never declines to write), prune (1/8 of runs: manually pruned node with 64 KiB block files, "
             "chain extended by ~330 padded blocks while block filter and coinstats indexes lag, pruneblockchain operations). After every operation every index that reports itself synced is compared with "
             "recomputation from the model over the changed part of the active chain plus seeded older heights; over the whole chain after every start or completed sync and at the end, where every enabled index must "
             "sync without interruption and the tip statistics are also compared with the node's own ComputeUTXOStats. non-trivial = at least one comparison ran and a shutdown/start, an interrupted or rewinding sync, "
             "or a reorg seen by a synced index occurred; distinct = distinct (tip, height, per-index up/interrupted/lag) fingerprints (first 64 per run).";
    e.real_components = {"BaseIndex (Init/Sync/Rewind/Commit/BlockConnected/ChainStateFlushed/Interrupt/Stop, prune locks)", "TxIndex", "BlockFilterIndex + BlockFilter/GCSFilter + fltr flat files", "CoinStatsIndex + MuHash3072",
                         "TxoSpenderIndex", "kernel::ComputeUTXOStats", "interfaces::Chain (node/interfaces.cpp)", "ChainstateManager/Chainstate/BlockManager (block + undo files, manual pruning)", "LevelDB", "ValidationSignals"};
    e.stub_components = {"index sync thread (Sync() called inline at seeded points; no concurrent block connection: that is the threadsim part of the design)",
                         "shutdown timing inside Sync() (logging callback counting the index's own CDBWrapper::WriteBatch debug lines, then BaseIndex::Interrupt())", "ValidationSignals task runner (immediate)",
                         "peers (blocks handed to ProcessNewBlock)", "clock (SetMockTime)", "init.cpp (index start/stop order re-enacted by the harness; its 'index needs pruned data' start-up check is not run: the harness never "
                         "prunes while an index is switched off)"};
    e.assumptions = {"RefChain model (block validity, UTXO(block)) is correct (see C08/C09)",
                     "the genesis coinbase is not expected in the txindex (excluded by design)",
                     "txindex and txospenderindex are checked in the positive direction only (every active transaction / spent outpoint is found with its active block); stale extra entries are not a violation",
                     "the model filter uses the repo's GCSFilter encoder and SipHash, the model MuHash uses the repo's MuHash3072 arithmetic (primitives); element selection, keying, header chaining, coin serialisation, set "
                     "contents and insertion order are the model's own",
                     "cumulative coinstats amounts follow the field documentation in kernel/coinstats.h (coinbase amount = spendable coinbase outputs; unclaimed = subsidy + fees - coinbase outputs)",
                     "restarts are clean (shutdown order of init.cpp); process crashes are C16's subject",
                     "violations on an index whose progress was once not persisted by a clean stop carry the marker 'uncommitted-index-progress' (known finding); everything else is reported unmarked"};
    e.expected_probes = {"full_check", "txindex_lookups", "filter_lookups", "filter_range_lookups", "coinstats_lookups", "spender_lookups", "coinstats_vs_computeutxostats", "reorg_seen_by_synced_index",
                         "reorg_while_index_behind_or_off", "sync_rewind_while_behind", "sync_interrupted_midway", "sync_interrupted_after_rewind", "restart_in_the_middle_of_sync", "sync_periodic_locator_write",
                         "index_shutdown", "index_restart_with_node", "index_switched_off", "index_switched_on", "init_behind", "init_on_stale_branch", "init_at_tip", "index_behind_tip", "clean_restart", "reorg",
                         "invalidateblock", "twin_reorg", "twin_reorg_back", "clean_stop_lost_index_progress", "prune_op", "block_files_pruned", "prune_request_reaches_past_lagging_index"};
    return e;
}
Engine g_engine = MakeEngine();
SIM_REGISTER_ENGINE(g_engine);

} // namespace
