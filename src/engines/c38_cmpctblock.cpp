// C38 — compact block reconstruction yields the announced block or fails.
// compsim: the real PartiallyDownloadedBlock (InitData / IsTxAvailable / FillBlock, real IsBlockMutated), the real
// CBlockHeaderAndShortTxIDs / BlockTransactionsRequest / BlockTransactions wire codecs and a real standalone CTxMemPool,
// driven by a scripted peer that owns every byte of the cmpctblock and blocktxn messages. The generator hand-builds a
// block (1-200 txs, with/without witnesses and witness commitment, with/without coinbase, optionally a header whose
// merkle root commits to nothing), fills the mempool and the extra-transaction ring with genuine txs, decoys, same-txid
// witness variants and (simulated collisions) mismatched <wtxid,tx> pairs, announces the block honestly or with a lie
// (tx list games, CVE-2012-2459 tail duplication, short id of a decoy, duplicate short ids, prefilled index games, …)
// and answers getblocktxn honestly or with wrong / reordered / short / long / random blocktxn. 2% of the runs use a fixed
// block for which a real 48-bit short-id collision between two non-block transactions was precomputed (FIX_*).
// Oracle (one-directional, from the statement): FillBlock()==READ_STATUS_OK  =>  the produced block has exactly the
// announced header and the tx list the header's merkle root commits to (generator's list), is not merkle-mutated and is
// not witness-malleated (own merkle / BIP141 commitment code). Anything else may only FAIL / be INVALID.
#include "../core/sim.h"

#include <blockencodings.h>
#include <chainparams.h>
#include <crypto/common.h>
#include <crypto/sha256.h>
#include <crypto/siphash.h>
#include <hash.h>
#include <kernel/cs_main.h>
#include <pow.h>
#include <primitives/block.h>
#include <primitives/transaction.h>
#include <serialize.h>
#include <streams.h>
#include <sync.h>
#include <test/util/txmempool.h>
#include <txmempool.h>
#include <uint256.h>
#include <util/translation.h>

#include <algorithm>
#include <memory>
#include <set>

using namespace sim;

namespace {

enum OpKind { MP_ADD, MP_DEL, EX_ADD, ANNOUNCE, RESPOND, N_OPS };
enum PoolKind { PK_GENUINE, PK_DECOY, PK_VARIANT, PK_MISMATCH, PK_BULK, N_PK };
enum Lie { L_NONE, L_SWAP, L_REPLACE_DECOY, L_REPLACE_VARIANT, L_DUP_TAIL, L_DROP, L_INSERT_DECOY, L_DUP_INSIDE, N_LIES };
enum Tweak { T_NONE, T_DUP_SID, T_SID_OF_DECOY, T_SID_RANDOM, T_PREFILL_BUMP, T_PREFILL_NULL, T_MORE_SIDS, T_DROP_SID, T_HEADER, T_EMPTY, T_SWAP_SIDS, N_TWEAKS };
enum Resp { R_HONEST, R_WRONG_ONE, R_REORDER, R_SHORT, R_LONG, R_EMPTY, R_WHOLE_BLOCK, R_RANDOM, N_RESPS };
enum Prefill { PF_COINBASE, PF_NONE, PF_SPARSE, PF_DENSE, PF_ALL, PF_SINGLE, N_PF };

const char* const LIE_NAME[N_LIES] = {"none", "swap", "replace-decoy", "replace-witness-variant", "dup-tail(CVE-2012-2459)", "drop", "insert-decoy", "dup-inside"};
const char* const TWEAK_NAME[N_TWEAKS] = {"none", "dup-shortid", "shortid-of-decoy", "random-shortid", "prefilled-index-bump", "prefilled-null-tx", "more-shortids", "drop-shortid", "header-field", "empty", "swap-shortids"};
const char* const RESP_NAME[N_RESPS] = {"honest", "wrong-one", "reorder", "short", "long", "empty", "whole-block", "random"};
const char* const PK_NAME[N_PK] = {"genuine", "decoy", "witness-variant", "mismatched-pair", "bulk-genuine"};
const char* const PF_NAME[N_PF] = {"coinbase", "none", "sparse", "dense", "all", "single"};

constexpr int N_DECOYS = 16;
constexpr int N_SLOTS = 3; // MAX_CMPCTBLOCKS_INFLIGHT_PER_BLOCK

// Fixture (knob fixture=1): one fixed block and cmpctblock nonce for which a REAL 48-bit short-id collision between two
// transactions that are not in the block was found offline by a birthday search (2^26 candidates, see FixtureSearch
// below, compiled with -DC38_FIXTURE_SEARCH). In fixture runs decoys 14 and 15 are that pair. If block construction ever
// changes the pair no longer collides; the run then reports probe fixture_stale and degrades to an ordinary run.
constexpr int64_t FIX_BLOCKSEED = 0x38c0111de;
constexpr int FIX_NTX = 12;
constexpr uint64_t FIX_NONCE = 0x3838383838383838ULL;
constexpr uint32_t FIX_C1 = 8671818;  // both give short id 0x0801d2e0c705 under (fixture header, FIX_NONCE)
constexpr uint32_t FIX_C2 = 54941545;

// ---------------------------------------------------------------------------------------------------------------------
// Independent primitives of the reference side (only SHA256 / SipHash / serialisation are shared with bitcoin).

uint256 Sha256d(const unsigned char* p, size_t n)
{
    uint256 out;
    CHash256().Write({p, n}).Finalize(out);
    return out;
}

/** Merkle root over leaves as specified for bitcoin blocks; *mutated = some level has two equal siblings (CVE-2012-2459). */
uint256 OwnMerkle(std::vector<uint256> h, bool* mutated)
{
    bool mut = false;
    if (h.empty()) {
        if (mutated) *mutated = false;
        return uint256{};
    }
    while (h.size() > 1) {
        for (size_t i = 0; i + 1 < h.size(); i += 2)
            if (h[i] == h[i + 1]) mut = true;
        if (h.size() & 1) h.push_back(h.back());
        std::vector<uint256> next(h.size() / 2);
        for (size_t i = 0; i < next.size(); ++i) {
            unsigned char buf[64];
            memcpy(buf, h[2 * i].begin(), 32);
            memcpy(buf + 32, h[2 * i + 1].begin(), 32);
            next[i] = Sha256d(buf, 64);
        }
        h.swap(next);
    }
    if (mutated) *mutated = mut;
    return h[0];
}

bool LooksLikeCoinbase(const CTransaction& tx) { return tx.vin.size() == 1 && tx.vin[0].prevout.hash.IsNull() && tx.vin[0].prevout.n == 0xffffffffU; }

bool AnyWitness(const CTransaction& tx)
{
    for (auto& in : tx.vin)
        if (!in.scriptWitness.stack.empty()) return true;
    return false;
}

/** BIP141: index of the last output committing to the witness root, or -1. */
int OwnCommitmentIndex(const CTransaction& cb)
{
    int idx = -1;
    for (size_t o = 0; o < cb.vout.size(); ++o) {
        const CScript& s = cb.vout[o].scriptPubKey;
        if (s.size() >= 38 && s[0] == 0x6a && s[1] == 0x24 && s[2] == 0xaa && s[3] == 0x21 && s[4] == 0xa9 && s[5] == 0xed) idx = (int)o;
    }
    return idx;
}

/** BIP141 witness rule for a block whose first tx is a coinbase: if witnesses are expected and committed to, the
 *  commitment must match; otherwise no transaction may carry witness data. *committed tells which branch applied. */
bool OwnWitnessOk(const std::vector<CTransactionRef>& vtx, bool segwit_active, bool* committed)
{
    *committed = false;
    const CTransaction& cb = *vtx[0];
    int ci = OwnCommitmentIndex(cb);
    if (segwit_active && ci >= 0) {
        *committed = true;
        const auto& st = cb.vin[0].scriptWitness.stack;
        if (st.size() != 1 || st[0].size() != 32) return false;
        std::vector<uint256> leaves(vtx.size());
        for (size_t i = 1; i < vtx.size(); ++i) leaves[i] = vtx[i]->GetWitnessHash().ToUint256();
        uint256 root = OwnMerkle(leaves, nullptr);
        unsigned char buf[64];
        memcpy(buf, root.begin(), 32);
        memcpy(buf + 32, st[0].data(), 32);
        uint256 c = Sha256d(buf, 64);
        return memcmp(c.begin(), &cb.vout[ci].scriptPubKey[6], 32) == 0;
    }
    for (auto& tx : vtx)
        if (AnyWitness(*tx)) return false;
    return true;
}

/** BIP152 short transaction id: SipHash-2-4 keyed with the first two LE64 of SHA256(header||nonce), low 6 bytes. */
struct SidKey {
    uint64_t k0, k1;
    SidKey(const CBlockHeader& h, uint64_t nonce)
    {
        DataStream s{};
        s << h << nonce;
        unsigned char out[32];
        CSHA256().Write((const unsigned char*)s.data(), s.size()).Finalize(out);
        k0 = ReadLE64(out);
        k1 = ReadLE64(out + 8);
    }
    uint64_t operator()(const uint256& wtxid) const
    {
        return CSipHasher(k0, k1).Write(std::span<const unsigned char>{wtxid.begin(), 32}).Finalize() & 0xffffffffffffULL;
    }
};

/** What a peer puts on the wire as "cmpctblock" (same layout as CBlockHeaderAndShortTxIDs, every field free). */
struct WireCmpct {
    CBlockHeader header;
    uint64_t nonce{0};
    std::vector<uint64_t> sids;
    std::vector<PrefilledTransaction> pre;
    SERIALIZE_METHODS(WireCmpct, obj) { READWRITE(obj.header, obj.nonce, Using<VectorFormatter<CustomUintFormatter<6>>>(obj.sids), obj.pre); }
};

std::string Ser80(const CBlockHeader& h)
{
    DataStream s{};
    s << h;
    return std::string((const char*)s.data(), s.size());
}

// ---------------------------------------------------------------------------------------------------------------------
// Generator

int64_t A(Rng& r) { return (int64_t)(r.next() & 0x3fffffffffffffffULL); }

void GenPoolOps(Rng& rng, Plan& p, int ntx, int n, bool sim_coll)
{
    for (int i = 0; i < n; ++i) {
        size_t k = rng.pick({30, 4, 24});
        Op op;
        if (k == 0) {
            op.kind = MP_ADD;
            int pk = (int)rng.pick({40, 25, 12, 0, 23});
            op.a = {pk, pk == PK_BULK ? A(rng) : (int64_t)rng.below(pk == PK_DECOY ? N_DECOYS : ntx), pk == PK_BULK ? (int64_t)rng.range(5, 100) : (int64_t)rng.below(4)};
        } else if (k == 1) {
            op.kind = MP_DEL;
            op.a = {(int64_t)rng.below(64)};
        } else {
            op.kind = EX_ADD;
            int pk = (int)rng.pick({35, 20, 12, sim_coll ? 20u : 0u, 13});
            op.a = {pk, pk == PK_BULK ? A(rng) : (int64_t)rng.below(pk == PK_DECOY ? N_DECOYS : ntx), pk == PK_BULK ? (int64_t)rng.range(5, 100) : (int64_t)rng.below(N_DECOYS + 4)};
        }
        p.ops.push_back(op);
    }
}

Plan Gen(uint64_t seed, Tier tier)
{
    Rng rng(seed);
    Plan p;
    int ntx;
    switch (rng.pick({35, 40, 20, 5})) {
    case 0: ntx = (int)rng.range(1, 6); break;
    case 1: ntx = (int)rng.range(2, 30); break;
    case 2: ntx = (int)rng.range(20, 120); break;
    default: ntx = (int)rng.range(100, 200); break;
    }
    const bool fixture = rng.chance(2, 100);      // the fixed block with a precomputed real short-id collision (see FIX_*)
    p.knobs["fixture"] = fixture;
    p.knobs["ntx"] = ntx;
    p.knobs["blockseed"] = (int64_t)(rng.next() & 0xffffffffffffULL);
    p.knobs["witness_mode"] = (int64_t)rng.pick({25, 50, 12, 13}); // 0 none, 1 witnesses + valid commitment, 2 witnesses without commitment, 3 garbage commitment
    p.knobs["segwit_active"] = rng.chance(85, 100);
    p.knobs["coinbase"] = rng.chance(92, 100);
    p.knobs["bad_root"] = rng.chance(4, 100);     // header merkle root commits to nothing
    p.knobs["tx64"] = rng.chance(6, 100);         // one 64-byte (stripped) transaction in the block
    if (fixture) {
        ntx = FIX_NTX;
        p.knobs["ntx"] = ntx;
        p.knobs["blockseed"] = FIX_BLOCKSEED;
        p.knobs["witness_mode"] = 1;
        p.knobs["segwit_active"] = 1;
        p.knobs["coinbase"] = 1;
        p.knobs["bad_root"] = 0;
        p.knobs["tx64"] = 0;
    }
    p.knobs["extra_cap"] = rng.range(1, 24);      // size of the extra-transaction ring
    bool sim_coll = rng.coin();
    p.knobs["sim_collisions"] = sim_coll;         // mismatched <wtxid,tx> pairs allowed in the extra ring
    p.knobs["fill_after_failed_init"] = rng.coin();
    bool honest_peers = !fixture && rng.chance(20, 100);
    p.knobs["honest_peers"] = honest_peers;
    uint32_t p_lie = honest_peers ? 0 : (uint32_t)rng.below(60);
    uint32_t p_tweak = honest_peers ? 0 : (uint32_t)rng.below(60);
    uint32_t p_badresp = honest_peers ? 0 : (uint32_t)rng.range(20, 90);
    // swarm: per-run weights of the adversarial kinds
    std::vector<uint32_t> w_lie(N_LIES), w_tweak(N_TWEAKS), w_resp(N_RESPS), w_pf(N_PF);
    for (int i = 1; i < N_LIES; ++i) w_lie[i] = rng.chance(2, 3) ? 1 + rng.below(10) : 0;
    for (int i = 1; i < N_TWEAKS; ++i) w_tweak[i] = rng.chance(2, 3) ? 1 + rng.below(10) : 0;
    w_tweak[T_MORE_SIDS] = std::min<uint32_t>(w_tweak[T_MORE_SIDS], 3);
    for (int i = 1; i < N_RESPS; ++i) w_resp[i] = rng.chance(2, 3) ? 1 + rng.below(10) : 0;
    w_lie[L_DUP_TAIL] += 2;
    w_resp[R_WRONG_ONE] += 2;
    for (int i = 0; i < N_PF; ++i) w_pf[i] = 1 + rng.below(10);
    w_pf[PF_COINBASE] += 6;
    if (fixture) {
        p_tweak = 75;
        w_tweak[T_SID_OF_DECOY] += 60;
        // the colliding pair goes to the mempool (or one of them to the extra ring)
        p.ops.push_back(Op{MP_ADD, {PK_DECOY, 14, 0}});
        p.ops.push_back(Op{rng.chance(3, 4) ? MP_ADD : EX_ADD, {PK_DECOY, 15, 0}});
        if (rng.coin()) std::swap(p.ops[0], p.ops[1]);
    }

    int rounds = (int)rng.range(1, tier == Tier::THOROUGH ? 5 : 3);
    for (int r = 0; r < rounds; ++r) {
        GenPoolOps(rng, p, ntx, (int)rng.skewed(0, 10), sim_coll);
        int nann = rng.chance(1, 5) ? 2 : 1;
        std::vector<int64_t> used_slots;
        for (int a = 0; a < nann; ++a) {
            Op op;
            op.kind = ANNOUNCE;
            int64_t slot = (int64_t)rng.below(N_SLOTS);
            used_slots.push_back(slot);
            int lie = rng.chance(p_lie, 100) ? (int)rng.pick(w_lie) : L_NONE;
            int tw = rng.chance(p_tweak, 100) ? (int)rng.pick(w_tweak) : T_NONE;
            op.a = {slot, A(rng), (int64_t)rng.pick(w_pf), A(rng), lie, (int64_t)rng.below(ntx + 1), (int64_t)rng.below(std::max(ntx, N_DECOYS)), tw,
                    (int64_t)rng.below(ntx + 1), (int64_t)rng.below(ntx + N_DECOYS), A(rng)};
            if (fixture && tw == T_SID_OF_DECOY) op.a[9] = 14 + (int64_t)rng.below(2);
            p.ops.push_back(op);
            if (rng.chance(1, 4)) GenPoolOps(rng, p, ntx, (int)rng.skewed(0, 4), sim_coll); // txs keep arriving from other peers
        }
        int nresp = (int)rng.pick({5, 70, 20, 5});
        for (int k = 0; k < nresp; ++k) {
            Op op;
            op.kind = RESPOND;
            int kind = rng.chance(p_badresp, 100) ? (int)rng.pick(w_resp) : R_HONEST;
            bool last = k + 1 == nresp;
            const int64_t on_copy = !last && rng.chance(3, 4);
            const int64_t dirty_out = rng.coin();
            // slot, kind, a, b, c, source list (0 genuine, 1 what the announcer encoded), run on a copy of the partial block
            op.a = {used_slots[rng.below(used_slots.size())], kind, (int64_t)rng.below(ntx + 2), (int64_t)rng.below(4), A(rng), (int64_t)(kind != R_HONEST && rng.chance(1, 3)),
                    on_copy | (dirty_out << 1)};
            p.ops.push_back(op);
        }
    }
    return p;
}

std::string Describe(const Op& op)
{
    char b[256];
    switch (op.kind) {
    case MP_ADD: snprintf(b, sizeof b, "mempool += %s(idx=%ld,var=%ld)", PK_NAME[op.mod(0, N_PK)], (long)op.arg(1), (long)op.arg(2)); break;
    case MP_DEL: snprintf(b, sizeof b, "mempool -= entry #%ld", (long)op.arg(0)); break;
    case EX_ADD: snprintf(b, sizeof b, "extra_txn ring += %s(idx=%ld,var=%ld)", PK_NAME[op.mod(0, N_PK)], (long)op.arg(1), (long)op.arg(2)); break;
    case ANNOUNCE:
        snprintf(b, sizeof b, "cmpctblock -> slot %ld: prefill=%s, tx-list lie=%s(%ld,%ld), wire tweak=%s(%ld,%ld); InitData", (long)op.mod(0, N_SLOTS), PF_NAME[op.mod(2, N_PF)],
                 LIE_NAME[op.mod(4, N_LIES)], (long)op.arg(5), (long)op.arg(6), TWEAK_NAME[op.mod(7, N_TWEAKS)], (long)op.arg(8), (long)op.arg(9));
        break;
    case RESPOND:
        snprintf(b, sizeof b, "blocktxn -> slot %ld: %s(%ld,%ld) from %s list%s; FillBlock", (long)op.mod(0, N_SLOTS), RESP_NAME[op.mod(1, N_RESPS)], (long)op.arg(2), (long)op.arg(3),
                 (op.arg(5) & 1) ? "announcer's" : "genuine", (op.arg(6) & 1) ? " (on a copy of the partial block)" : "");
        if (op.arg(6) & 2) strncat(b, " into a re-used CBlock", sizeof b - strlen(b) - 1);
        break;
    default: snprintf(b, sizeof b, "?");
    }
    return b;
}

// ---------------------------------------------------------------------------------------------------------------------
// Simulation

std::vector<unsigned char> RandBytes(Rng& r, size_t n)
{
    std::vector<unsigned char> v(n);
    if (n) r.fill(v.data(), n);
    return v;
}

CTransactionRef MakeOrdinaryTx(Rng& r, bool allow_witness)
{
    CMutableTransaction m;
    m.version = r.chance(1, 4) ? 1 : 2;
    int nin = 1 + (int)r.skewed(0, 2);
    for (int i = 0; i < nin; ++i) {
        uint256 h;
        r.fill(h.begin(), 32);
        CTxIn in{COutPoint{Txid::FromUint256(h), (uint32_t)r.below(4)}};
        auto sig = RandBytes(r, r.below(24));
        in.scriptSig = CScript(sig.begin(), sig.end());
        in.nSequence = r.coin() ? 0xffffffffU : (uint32_t)r.next();
        m.vin.push_back(in);
    }
    int nout = 1 + (int)r.below(2);
    for (int i = 0; i < nout; ++i) {
        auto spk = RandBytes(r, 1 + r.below(34));
        spk[0] = 0x51; // never an OP_RETURN commitment look-alike
        m.vout.emplace_back((CAmount)r.below(100'000'000), CScript(spk.begin(), spk.end()));
    }
    m.nLockTime = r.coin() ? 0 : (uint32_t)r.below(500000);
    if (allow_witness && r.chance(3, 5)) {
        for (auto& in : m.vin) {
            if (&in != &m.vin[0] && r.coin()) continue;
            int items = 1 + (int)r.below(3);
            for (int k = 0; k < items; ++k) in.scriptWitness.stack.push_back(RandBytes(r, r.below(40)));
        }
    }
    return MakeTransactionRef(std::move(m));
}

/** a transaction whose serialisation without witness is exactly 64 bytes */
CTransactionRef Make64ByteTx(Rng& r)
{
    CMutableTransaction m;
    m.version = 2;
    uint256 h;
    r.fill(h.begin(), 32);
    m.vin.emplace_back(COutPoint{Txid::FromUint256(h), 0});
    unsigned char spk[4] = {0x51, 0x51, 0x51, 0x51};
    m.vout.emplace_back((CAmount)r.below(1000), CScript(spk, spk + 4));
    m.nLockTime = 0;
    return MakeTransactionRef(std::move(m));
}

/** the fixture's candidate family: no witness, distinct outpoints, only prevout.n varies */
CTransactionRef FixtureTx(uint32_t counter)
{
    CMutableTransaction m;
    m.version = 2;
    uint256 h;
    memset(h.begin(), 0x38, 32);
    m.vin.emplace_back(COutPoint{Txid::FromUint256(h), counter});
    unsigned char spk[1] = {0x51};
    m.vout.emplace_back((CAmount)3800, CScript(spk, spk + 1));
    m.nLockTime = 0;
    return MakeTransactionRef(std::move(m));
}

/** same txid, different witness (and hence wtxid) */
CTransactionRef WitnessVariant(const CTransactionRef& tx, uint64_t v)
{
    CMutableTransaction m(*tx);
    if (m.vin.empty()) return tx;
    bool has = AnyWitness(*tx);
    auto& st0 = m.vin[0].scriptWitness.stack;
    if (!has) {
        st0.push_back({(unsigned char)(1 + v % 250)});
    } else if (v % 3 == 0) {
        for (auto& in : m.vin) in.scriptWitness.stack.clear(); // stripped
    } else if (v % 3 == 1) {
        bool done = false;
        for (auto& in : m.vin)
            for (auto& it : in.scriptWitness.stack)
                if (!done && !it.empty()) { it[0] ^= (unsigned char)(1 + (v >> 2) % 255); done = true; }
        if (!done) st0.push_back({0x42});
    } else {
        st0.push_back({(unsigned char)(v >> 2), 0x07});
    }
    return MakeTransactionRef(std::move(m));
}

std::vector<uint256> Wtxids(const std::vector<CTransactionRef>& v)
{
    std::vector<uint256> r;
    r.reserve(v.size());
    for (auto& t : v) r.push_back(t->GetWitnessHash().ToUint256());
    return r;
}
std::vector<uint256> Txids(const std::vector<CTransactionRef>& v)
{
    std::vector<uint256> r;
    r.reserve(v.size());
    for (auto& t : v) r.push_back(t->GetHash().ToUint256());
    return r;
}

struct Slot {
    std::unique_ptr<PartiallyDownloadedBlock> pdb;
    CBlockHeader header;              //!< as announced on the wire
    std::vector<CTransactionRef> E;   //!< the list the announcer encoded
    size_t count{0};                  //!< BlockTxCount of the wire message
    ReadStatus init{READ_STATUS_INVALID};
    std::vector<uint16_t> req;        //!< getblocktxn indexes after the wire round trip
    bool honest_conditions{false};
    int fills{0};
    int last_status{-1};
};

struct Sim {
    Ctx& ctx;
    int ntx;
    bool fixture;
    bool fixture_live{false};            //!< the precomputed pair really collides under this run's key
    bool segwit_active, sim_coll, fill_after_failed_init;
    size_t extra_cap;
    std::vector<CTransactionRef> L;      //!< the genuine block's transactions
    std::vector<CTransactionRef> D;      //!< decoys (not in the block)
    CBlockHeader base_header;
    uint256 root_of_L;
    bool root_committed{true};           //!< header merkle root == root(L)
    bool block_wellformed{false};        //!< by the reference rules the genuine block is complete and not mutated
    bool has_coinbase;
    std::unique_ptr<CTxMemPool> pool;
    std::vector<CTransactionRef> pool_model;
    std::vector<std::pair<Wtxid, CTransactionRef>> extra;
    size_t extra_it{0};
    Slot slots[N_SLOTS];
    CBlock scratch;                      //!< re-used ("dirty") out-parameter for FillBlock

    /** knob value, or the fixture's fixed value */
    int64_t K(const char* name, int64_t dflt, int64_t fixed) const { return fixture ? fixed : ctx.knob(name, dflt); }

    explicit Sim(Ctx& c) : ctx(c)
    {
        fixture = c.knob("fixture", 0) != 0;
        ntx = (int)std::clamp<int64_t>(K("ntx", 3, FIX_NTX), 1, 400);
        segwit_active = K("segwit_active", 1, 1) != 0;
        sim_coll = c.knob("sim_collisions", 0) != 0;
        fill_after_failed_init = c.knob("fill_after_failed_init", 0) != 0;
        extra_cap = (size_t)std::clamp<int64_t>(c.knob("extra_cap", 10), 1, 100);
        has_coinbase = K("coinbase", 1, 1) != 0;
        BuildBlock();
        bilingual_str err;
        CTxMemPool::Options opts;
        opts.check_ratio = 0;
        pool = std::make_unique<CTxMemPool>(opts, err);
    }

    void BuildBlock()
    {
        Rng r((uint64_t)K("blockseed", 1, FIX_BLOCKSEED) * 0x9e3779b97f4a7c15ULL + 17);
        int wm = (int)std::clamp<int64_t>(K("witness_mode", 0, 1), 0, 3);
        bool allow_wit = wm != 0;
        L.resize(ntx);
        int pos64 = K("tx64", 0, 0) && ntx > 1 ? 1 + (int)r.below(ntx - 1) : -1;
        for (int i = has_coinbase ? 1 : 0; i < ntx; ++i) L[i] = i == pos64 ? Make64ByteTx(r) : MakeOrdinaryTx(r, allow_wit);
        if (has_coinbase) {
            CMutableTransaction cb;
            cb.version = 2;
            cb.vin.emplace_back(COutPoint{});
            auto sig = RandBytes(r, 2 + r.below(40));
            cb.vin[0].scriptSig = CScript(sig.begin(), sig.end());
            unsigned char spk[3] = {0x51, 0x52, 0x53};
            cb.vout.emplace_back((CAmount)(50 * COIN), CScript(spk, spk + 1 + r.below(3)));
            if (wm == 1 || wm == 3) {
                std::vector<unsigned char> nonce = RandBytes(r, 32);
                cb.vin[0].scriptWitness.stack.push_back(nonce);
                std::vector<uint256> leaves(ntx);
                for (int i = 1; i < ntx; ++i) leaves[i] = L[i]->GetWitnessHash().ToUint256();
                uint256 wroot = OwnMerkle(leaves, nullptr);
                unsigned char buf[64];
                memcpy(buf, wroot.begin(), 32);
                memcpy(buf + 32, nonce.data(), 32);
                uint256 commit = Sha256d(buf, 64);
                if (wm == 3) r.fill(commit.begin(), 32);
                std::vector<unsigned char> cs = {0x6a, 0x24, 0xaa, 0x21, 0xa9, 0xed};
                cs.insert(cs.end(), commit.begin(), commit.end());
                cb.vout.emplace_back((CAmount)0, CScript(cs.begin(), cs.end()));
            }
            L[0] = MakeTransactionRef(std::move(cb));
        }
        for (int i = 0; i < N_DECOYS; ++i) D.push_back(MakeOrdinaryTx(r, allow_wit));
        bool mut = false;
        root_of_L = OwnMerkle(Txids(L), &mut);
        base_header.nVersion = 0x20000000 | (int32_t)r.below(16);
        r.fill(base_header.hashPrevBlock.begin(), 32);
        base_header.hashMerkleRoot = root_of_L;
        if (K("bad_root", 0, 0)) {
            r.fill(base_header.hashMerkleRoot.begin(), 32);
            root_committed = false;
        }
        base_header.nTime = 1893456000U + (uint32_t)r.below(100000);
        base_header.nBits = 0x207fffff;
        base_header.nNonce = (uint32_t)r.below(1000);
        while (!CheckProofOfWork(base_header.GetHash(), base_header.nBits, Params().GetConsensus())) ++base_header.nNonce;
        bool committed = false;
        block_wellformed = has_coinbase && root_committed && !mut && OwnWitnessOk(L, segwit_active, &committed);
        if (!has_coinbase) ctx.probe("block_without_coinbase");
        if (wm == 1 && segwit_active) ctx.probe("block_with_witness_commitment");
        if (fixture) {
            D[14] = FixtureTx(FIX_C1);
            D[15] = FixtureTx(FIX_C2);
            SidKey k(base_header, FIX_NONCE);
            fixture_live = FIX_C1 != FIX_C2 && k(D[14]->GetWitnessHash().ToUint256()) == k(D[15]->GetWitnessHash().ToUint256());
            ctx.probe(fixture_live ? "fixture_real_collision_pair_present" : "fixture_stale");
        }
    }

    // ---- pools ----------------------------------------------------------------------------------------------------

    CTransactionRef PickPoolTx(int pk, const Op& op, bool for_mempool)
    {
        switch (pk) {
        case PK_GENUINE: {
            size_t i = op.mod(1, ntx);
            if (for_mempool && has_coinbase && i == 0) return nullptr; // a coinbase never sits in a mempool
            return L[i];
        }
        case PK_DECOY: return D[op.mod(1, N_DECOYS)];
        case PK_VARIANT: {
            size_t i = op.mod(1, ntx);
            if (for_mempool && has_coinbase && i == 0) return nullptr;
            return WitnessVariant(L[i], (uint64_t)op.arg(2));
        }
        }
        return nullptr;
    }

    bool MempoolAdd(const CTransactionRef& tx)
    {
        if (!tx || pool->exists(tx->GetHash())) return false;
        TestMemPoolEntryHelper entry;
        TryAddToMempool(*pool, entry.Fee(1000 + (CAmount)tx->vin.size()).FromTx(tx));
        if (!pool->exists(tx->GetWitnessHash())) return false;
        pool_model.push_back(tx);
        return true;
    }

    void ExtraAdd(const Wtxid& key, const CTransactionRef& tx)
    {
        // same ring discipline as PeerManagerImpl::AddToCompactExtraTransactions
        if (extra.size() < extra_cap) {
            extra.emplace_back(key, tx);
        } else {
            extra[extra_it] = std::make_pair(key, tx);
            ctx.probe("extra_ring_wrapped");
        }
        extra_it = (extra_it + 1) % extra_cap;
    }

    void DoMempoolAdd(const Op& op)
    {
        int pk = (int)op.mod(0, N_PK);
        int added = 0;
        if (pk == PK_BULK) {
            Rng r((uint64_t)op.arg(1));
            uint64_t pct = std::clamp<int64_t>(op.arg(2), 1, 100);
            for (int i = has_coinbase ? 1 : 0; i < ntx; ++i)
                if (r.below(100) < pct) added += MempoolAdd(L[i]);
        } else if (pk != PK_MISMATCH) {
            added += MempoolAdd(PickPoolTx(pk, op, true));
            if (added && pk == PK_DECOY) ctx.fault("mempool_decoy");
            if (added && pk == PK_VARIANT) ctx.fault("mempool_witness_variant");
        }
        ctx.evf("mp+ %s %ld -> %d size=%lu", PK_NAME[pk], (long)op.arg(1), added, pool->size());
    }

    void DoMempoolDel(const Op& op)
    {
        if (pool_model.empty()) {
            ctx.ev("mp- none");
            return;
        }
        size_t i = op.mod(0, pool_model.size());
        {
            LOCK2(cs_main, pool->cs);
            pool->removeRecursive(*pool_model[i], MemPoolRemovalReason::REPLACED);
        }
        pool_model.erase(pool_model.begin() + i);
        ctx.probe("mempool_removal");
        ctx.evf("mp- #%zu size=%lu", i, pool->size());
    }

    void DoExtraAdd(const Op& op)
    {
        int pk = (int)op.mod(0, N_PK);
        int added = 0;
        if (pk == PK_BULK) {
            Rng r((uint64_t)op.arg(1));
            uint64_t pct = std::clamp<int64_t>(op.arg(2), 1, 100);
            for (int i = has_coinbase ? 1 : 0; i < ntx && added < (int)extra_cap; ++i)
                if (r.below(100) < pct) { ExtraAdd(L[i]->GetWitnessHash(), L[i]); ++added; }
        } else if (pk == PK_MISMATCH) {
            if (sim_coll) {
                // simulated short-id collision: listed under the wtxid of block tx idx, carrying another transaction
                size_t i = op.mod(1, ntx);
                uint64_t v = (uint64_t)op.arg(2);
                CTransactionRef payload = v % (N_DECOYS + 4) < N_DECOYS ? D[v % (N_DECOYS + 4)] : WitnessVariant(L[i], v);
                if (payload->GetWitnessHash() != L[i]->GetWitnessHash()) {
                    ExtraAdd(L[i]->GetWitnessHash(), payload);
                    ++added;
                    ctx.fault("extra_mismatched_pair");
                }
            }
        } else if (CTransactionRef tx = PickPoolTx(pk, op, false)) {
            ExtraAdd(tx->GetWitnessHash(), tx);
            ++added;
            if (pk == PK_DECOY) ctx.fault("extra_decoy");
            if (pk == PK_VARIANT) ctx.fault("extra_witness_variant");
        }
        ctx.evf("ex+ %s %ld -> %d size=%zu", PK_NAME[pk], (long)op.arg(1), added, extra.size());
    }

    // ---- announcement ---------------------------------------------------------------------------------------------

    /** honest reconstruction is owed only if nothing in the pools can be mistaken for a block transaction */
    bool PoolsCannotMislead(const SidKey& key)
    {
        for (auto& [k, tx] : extra)
            if (k != tx->GetWitnessHash()) return false;
        std::set<uint256> w;
        for (auto& t : L) w.insert(t->GetWitnessHash().ToUint256());
        if (w.size() != L.size()) return false;
        for (auto& t : pool_model) w.insert(t->GetWitnessHash().ToUint256());
        for (auto& [k, tx] : extra) w.insert(k.ToUint256());
        std::set<uint64_t> s;
        for (auto& h : w) s.insert(key(h));
        if (s.size() != w.size()) {
            ctx.probe("real_shortid_collision");
            return false;
        }
        return true;
    }

    void DoAnnounce(const Op& op)
    {
        Slot& s = slots[op.mod(0, N_SLOTS)];
        s = Slot{};
        const uint64_t nonce = fixture ? FIX_NONCE : (uint64_t)op.arg(1);
        // 1. the transaction list the announcer pretends the block has
        std::vector<CTransactionRef> E = L;
        int lie = (int)op.mod(4, N_LIES);
        {
            size_t n = E.size();
            size_t a = op.mod(5, n), b = (size_t)op.arg(6);
            switch (lie) {
            case L_SWAP: std::swap(E[a], E[b % n]); break;
            case L_REPLACE_DECOY: E[a] = D[b % N_DECOYS]; break;
            case L_REPLACE_VARIANT: E[a] = WitnessVariant(E[a], b); break;
            case L_DUP_TAIL: {
                // append the last 2^k txs where that keeps the merkle root (n mod 2^(k+1) == 2^k); else just the last one
                size_t len = 1;
                for (size_t k = 0; k < 8; ++k)
                    if (n % (size_t(2) << k) == (size_t(1) << k)) { len = size_t(1) << k; break; }
                if (len > n) len = 1;
                for (size_t i = 0; i < len; ++i) E.push_back(E[n - len + i]);
                break;
            }
            case L_DROP: E.erase(E.begin() + a); break;
            case L_INSERT_DECOY: E.insert(E.begin() + op.mod(5, n + 1), D[b % N_DECOYS]); break;
            case L_DUP_INSIDE: E[a] = E[b % n]; break;
            default: break;
            }
        }
        bool lied = Wtxids(E) != Wtxids(L);
        if (lied) ctx.fault("announce_tx_list_lie");
        if (lied && lie == L_DUP_TAIL) {
            bool m = false;
            if (OwnMerkle(Txids(E), &m) == root_of_L && m) ctx.probe("cve_2012_2459_same_root_announced");
        }
        // 2. header (possibly tweaked), key, prefilled set, short ids
        int tw = (int)op.mod(7, N_TWEAKS);
        const size_t ta = (size_t)op.arg(8), tb = (size_t)op.arg(9);
        Rng tr((uint64_t)op.arg(10));
        WireCmpct w;
        w.header = base_header;
        w.nonce = nonce;
        bool tweaked = false;
        int64_t decoy_sid_pos = -1;
        bool decoy_sid_is_pair = false;
        if (tw == T_HEADER) {
            switch (ta % 5) {
            case 0: w.header.nNonce ^= 1 + (uint32_t)tb; break;
            case 1: w.header.nTime += 1 + (uint32_t)tb; break;
            case 2: w.header.nBits = 0; break; // "null" header
            case 3: *w.header.hashMerkleRoot.begin() ^= 1; break;
            case 4: w.header.nVersion ^= 4; break;
            }
            tweaked = true;
        }
        SidKey key(w.header, nonce);
        const size_t cnt = E.size();
        std::vector<bool> pf(cnt, false);
        {
            Rng pr((uint64_t)op.arg(3));
            switch ((int)op.mod(2, N_PF)) {
            case PF_COINBASE: if (cnt) pf[0] = true; break;
            case PF_NONE: break;
            case PF_SPARSE: for (size_t i = 0; i < cnt; ++i) pf[i] = pr.chance(1, 4); break;
            case PF_DENSE: for (size_t i = 0; i < cnt; ++i) pf[i] = pr.chance(3, 4); break;
            case PF_ALL: pf.assign(cnt, true); break;
            case PF_SINGLE: if (cnt) pf[pr.below(cnt)] = true; break;
            }
        }
        int64_t last = -1;
        for (size_t i = 0; i < cnt; ++i) {
            if (pf[i]) {
                w.pre.push_back(PrefilledTransaction{(uint16_t)(i - last - 1), E[i]});
                last = (int64_t)i;
            } else {
                w.sids.push_back(key(E[i]->GetWitnessHash().ToUint256()));
            }
        }
        // 3. wire-level games
        switch (tw) {
        case T_DUP_SID:
            if (w.sids.size() >= 2) { size_t i = ta % w.sids.size(), j = tb % w.sids.size(); if (i != j) { w.sids[j] = w.sids[i]; tweaked = true; ctx.probe("duplicate_shortid_announced"); } }
            break;
        case T_SID_OF_DECOY:
            if (!w.sids.empty()) {
                w.sids[ta % w.sids.size()] = key(D[tb % N_DECOYS]->GetWitnessHash().ToUint256());
                tweaked = true;
                for (size_t i = 0, k = 0; i < cnt; ++i)
                    if (!pf[i] && k++ == ta % w.sids.size()) decoy_sid_pos = (int64_t)i;
                decoy_sid_is_pair = tb % N_DECOYS >= 14;
            }
            break;
        case T_SID_RANDOM:
            if (!w.sids.empty()) { w.sids[ta % w.sids.size()] = tr.next() & 0xffffffffffffULL; tweaked = true; }
            break;
        case T_PREFILL_BUMP:
            if (!w.pre.empty()) {
                static const uint16_t deltas[] = {1, 2, 3, 255, 65535, 32768};
                auto& p = w.pre[ta % w.pre.size()];
                uint16_t d = deltas[tb % 6];
                p.index = tr.coin() ? (uint16_t)(p.index + d) : (p.index ? (uint16_t)(p.index - 1) : d);
                tweaked = true;
            }
            break;
        case T_PREFILL_NULL:
            if (!w.pre.empty()) { w.pre[ta % w.pre.size()].tx = MakeTransactionRef(CMutableTransaction{}); tweaked = true; }
            break;
        case T_MORE_SIDS: {
            size_t add = tb % 50 == 0 ? 66000 : 1 + tb % 5;
            for (size_t i = 0; i < add; ++i) w.sids.push_back(tr.next() & 0xffffffffffffULL);
            tweaked = true;
            break;
        }
        case T_DROP_SID:
            if (!w.sids.empty()) { w.sids.erase(w.sids.begin() + ta % w.sids.size()); tweaked = true; }
            break;
        case T_EMPTY:
            w.sids.clear();
            w.pre.clear();
            tweaked = true;
            break;
        case T_SWAP_SIDS:
            if (w.sids.size() >= 2) { size_t i = ta % w.sids.size(), j = tb % w.sids.size(); if (i != j) { std::swap(w.sids[i], w.sids[j]); tweaked = true; } }
            break;
        default: break;
        }
        if (tweaked) ctx.fault("announce_wire_tweak");
        // 4. over the wire into the real decoder
        DataStream ds{};
        ds << w;
        CBlockHeaderAndShortTxIDs cmpct;
        try {
            ds >> cmpct;
        } catch (const std::ios_base::failure& e) {
            ctx.probe("cmpctblock_undecodable");
            ctx.evf("ann s%zu lie=%s tw=%s -> undecodable", (size_t)op.mod(0, N_SLOTS), LIE_NAME[lie], TWEAK_NAME[tw]);
            return;
        }
        s.header = w.header;
        s.E = std::move(E);
        s.count = w.sids.size() + w.pre.size();
        s.pdb = std::make_unique<PartiallyDownloadedBlock>(pool.get());
        s.init = s.pdb->InitData(cmpct, extra);
        // 5. what net_processing would request
        BlockTransactionsRequest req;
        req.blockhash = s.header.GetHash();
        size_t avail_from_pools = 0;
        for (size_t i = 0; i < s.count; ++i) {
            if (!s.pdb->IsTxAvailable(i)) req.indexes.push_back((uint16_t)i);
        }
        if (s.init == READ_STATUS_OK) avail_from_pools = s.count - req.indexes.size() - w.pre.size();
        {
            DataStream rs{};
            rs << req;
            BlockTransactionsRequest req2;
            rs >> req2;
            s.req = req2.indexes;
            if (req2.indexes != req.indexes || req2.blockhash != req.blockhash) ctx.probe("getblocktxn_roundtrip_differs");
        }
        const bool honest = !lied && !tweaked;
        s.honest_conditions = honest && block_wellformed && PoolsCannotMislead(key);
        switch (s.init) {
        case READ_STATUS_OK:
            ctx.probe("initdata_ok");
            if (avail_from_pools) ctx.probe("slots_filled_from_pools", avail_from_pools);
            if (s.req.empty()) ctx.probe("nothing_to_request");
            break;
        case READ_STATUS_FAILED: ctx.probe("initdata_failed"); break;
        default: ctx.probe("initdata_invalid"); break;
        }
        if (fixture_live && decoy_sid_pos >= 0 && decoy_sid_is_pair && s.init == READ_STATUS_OK) {
            // a real collision: the announced short id matches two different transactions
            auto in_pool = [&](const CTransactionRef& d) { return std::any_of(pool_model.begin(), pool_model.end(), [&](auto& t) { return t->GetWitnessHash() == d->GetWitnessHash(); }); };
            auto in_extra = [&](const CTransactionRef& d) { return std::any_of(extra.begin(), extra.end(), [&](auto& e) { return e.first == d->GetWitnessHash(); }); };
            const bool both_mempool = in_pool(D[14]) && in_pool(D[15]);
            const bool both_somewhere = (in_pool(D[14]) || in_extra(D[14])) && (in_pool(D[15]) || in_extra(D[15]));
            if (both_mempool) ctx.probe("real_collision_two_mempool_txs_match_shortid");
            else if (both_somewhere) ctx.probe("real_collision_mempool_and_extra_match_shortid");
            if (both_somewhere && !s.pdb->IsTxAvailable((size_t)decoy_sid_pos)) ctx.probe("real_collision_slot_requested_instead");
            if (both_somewhere && s.pdb->IsTxAvailable((size_t)decoy_sid_pos)) ctx.probe("real_collision_first_match_kept_early_exit");
        }
        if (decoy_sid_pos >= 0 && s.init == READ_STATUS_OK && s.pdb->IsTxAvailable((size_t)decoy_sid_pos) && !pf[(size_t)decoy_sid_pos])
            ctx.probe("pool_decoy_fills_slot_via_listed_shortid"); // receiver-side view of a collision that picked the wrong transaction
        if (s.honest_conditions) {
            ctx.probe("honest_announcement");
            if (s.init == READ_STATUS_INVALID)
                ctx.failf("honest-announcement-rejected", "InitData returned INVALID for an honest, well-formed announcement (%zu txs, %zu prefilled, %zu short ids)", s.count, w.pre.size(), w.sids.size());
            if (s.init == READ_STATUS_FAILED) ctx.probe("honest_initdata_failed");
        }
        ctx.evf("ann s%zu n=%zu pre=%zu sids=%zu lie=%s tw=%s -> init=%d req=%zu pools=%zu", (size_t)op.mod(0, N_SLOTS), s.count, w.pre.size(), w.sids.size(), lied ? LIE_NAME[lie] : "none",
                tweaked ? TWEAK_NAME[tw] : "none", (int)s.init, s.req.size(), avail_from_pools);
    }

    // ---- blocktxn + FillBlock -------------------------------------------------------------------------------------

    CTransactionRef UniverseTx(Rng& r)
    {
        switch (r.below(4)) {
        case 0: return D[r.below(N_DECOYS)];
        case 1: return WitnessVariant(L[r.below(ntx)], r.next());
        default: return L[r.below(ntx)];
        }
    }

    void CheckOk(const Slot& s, const CBlock& blk, const char* how)
    {
        // (1) the announced header
        if (Ser80(static_cast<const CBlockHeader&>(blk)) != Ser80(s.header))
            ctx.failf("ok-header-differs", "FillBlock OK (%s) but the block header %s is not the announced %s", how, blk.GetHash().ToString().c_str(), s.header.GetHash().ToString().c_str());
        // (2) the transaction list the header commits to
        std::vector<uint256> got = Txids(blk.vtx), want = Txids(L);
        if (s.header.hashMerkleRoot != root_of_L || got != want) {
            size_t d = 0;
            while (d < got.size() && d < want.size() && got[d] == want[d]) ++d;
            ctx.failf("ok-different-tx-list", "FillBlock OK (%s) with %zu txs but the genuine block has %zu (header root %s the genuine list); first difference at index %zu", how, got.size(),
                      want.size(), s.header.hashMerkleRoot == root_of_L ? "commits to" : "does not commit to", d);
        }
        // (3) not mutated (merkle)
        bool mut = false;
        uint256 root = OwnMerkle(got, &mut);
        if (root != blk.hashMerkleRoot) ctx.failf("ok-merkle-mismatch", "FillBlock OK (%s) but the tx list does not hash to the header's merkle root", how);
        if (mut) ctx.failf("ok-merkle-mutated", "FillBlock OK (%s) for a block with duplicated merkle siblings", how);
        // (4) not mutated (witness)
        if (LooksLikeCoinbase(*blk.vtx[0])) {
            bool committed = false;
            if (!OwnWitnessOk(blk.vtx, segwit_active, &committed))
                ctx.failf("ok-witness-malleated", "FillBlock OK (%s, segwit_active=%d) but %s", how, segwit_active, committed ? "the witness commitment does not match" : "witness data is present without an applicable commitment");
            if (committed && Wtxids(blk.vtx) != Wtxids(L)) ctx.failf("ok-different-witness", "FillBlock OK (%s) with committed witnesses that differ from the genuine block", how);
            if (!committed && Wtxids(blk.vtx) != Wtxids(L)) ctx.probe("ok_witness_stripped_block"); // the genuine list without its (uncommitted) witnesses
        } else if (Wtxids(blk.vtx) != Wtxids(L)) {
            ctx.probe("ok_nocoinbase_witness_differs"); // no coinbase, nothing commits to witnesses; reported, not judged
        }
        ctx.probe("fillblock_ok_equals_announced");
    }

    void DoRespond(const Op& op)
    {
        size_t si = op.mod(0, N_SLOTS);
        Slot& s = slots[si];
        if (!s.pdb) {
            ctx.evf("resp s%zu: no partial block", si);
            return;
        }
        if (s.init != READ_STATUS_OK && !fill_after_failed_init) {
            ctx.evf("resp s%zu: dropped (init=%d)", si, (int)s.init);
            return;
        }
        int kind = (int)op.mod(1, N_RESPS);
        const std::vector<CTransactionRef>& S = (op.arg(5) & 1) ? s.E : L;
        std::vector<CTransactionRef> honest, resp;
        bool all_in_range = true;
        for (uint16_t i : s.req) {
            if (i < L.size()) honest.push_back(L[i]); else all_in_range = false;
            if (i < S.size()) resp.push_back(S[i]);
        }
        const size_t a = (size_t)op.arg(2), b = (size_t)op.arg(3);
        Rng r((uint64_t)op.arg(4));
        switch (kind) {
        case R_WRONG_ONE:
            if (!resp.empty()) {
                size_t p = a % resp.size();
                switch (b % 4) {
                case 0: resp[p] = D[r.below(N_DECOYS)]; break;
                case 1: resp[p] = L[r.below(ntx)]; break;
                case 2: resp[p] = WitnessVariant(resp[p], r.next()); break;
                case 3: resp[p] = resp[(p + 1) % resp.size()]; break;
                }
            }
            break;
        case R_REORDER:
            if (resp.size() >= 2) {
                switch (b % 3) {
                case 0: std::swap(resp[a % resp.size()], resp[r.below(resp.size())]); break;
                case 1: std::reverse(resp.begin(), resp.end()); break;
                case 2: std::rotate(resp.begin(), resp.begin() + 1 + a % (resp.size() - 1), resp.end()); break;
                }
            }
            break;
        case R_SHORT:
            if (!resp.empty()) {
                switch (b % 3) {
                case 0: resp.pop_back(); break;
                case 1: resp.erase(resp.begin()); break;
                case 2: resp.erase(resp.begin() + a % resp.size()); break;
                }
            }
            break;
        case R_LONG:
            switch (b % 3) {
            case 0: resp.push_back(D[r.below(N_DECOYS)]); break;
            case 1: resp.push_back(L[a % ntx]); break;
            case 2: resp.insert(resp.begin(), L[a % ntx]); break;
            }
            break;
        case R_EMPTY: resp.clear(); break;
        case R_WHOLE_BLOCK: resp = S; break;
        case R_RANDOM:
            for (auto& t : resp) t = UniverseTx(r);
            if (r.chance(1, 4)) resp.push_back(UniverseTx(r));
            break;
        default: break;
        }
        const bool effectively_honest = all_in_range && Wtxids(resp) == Wtxids(honest);
        if (!effectively_honest) {
            static const char* const F[N_RESPS] = {"blocktxn_from_lying_list", "blocktxn_wrong_tx", "blocktxn_reordered", "blocktxn_short", "blocktxn_long", "blocktxn_empty", "blocktxn_whole_block", "blocktxn_random"};
            ctx.fault(F[kind]);
        }
        // over the wire
        BlockTransactions bt;
        bt.blockhash = s.header.GetHash();
        bt.txn = resp;
        DataStream ds{};
        ds << bt;
        BlockTransactions bt2;
        ds >> bt2;

        const bool on_copy = op.arg(6) & 1;
        const bool first_fill = s.fills == 0;
        CBlock fresh;
        CBlock& blk = (op.arg(6) & 2) ? scratch : fresh; // FillBlock must not depend on what the out-parameter held before
        if (&blk == &scratch && !scratch.vtx.empty()) ctx.probe("fillblock_into_dirty_block");
        ReadStatus st;
        if (on_copy) {
            PartiallyDownloadedBlock copy = *s.pdb;
            st = copy.FillBlock(blk, bt2.txn, segwit_active);
        } else {
            st = s.pdb->FillBlock(blk, bt2.txn, segwit_active);
            ++s.fills;
        }
        s.last_status = (int)st;
        if (s.init == READ_STATUS_OK) ctx.nontrivial = true;
        if (s.init != READ_STATUS_OK) ctx.probe("fillblock_after_failed_init");
        if (!first_fill) ctx.probe("fillblock_on_consumed_partial_block");
        char how[96];
        snprintf(how, sizeof how, "init=%d, %s blocktxn of %zu for %zu requested", (int)s.init, effectively_honest ? "honest" : RESP_NAME[kind], bt2.txn.size(), s.req.size());
        switch (st) {
        case READ_STATUS_OK:
            CheckOk(s, blk, how);
            if (!effectively_honest) ctx.probe("ok_despite_unrequested_shape"); // e.g. wrong-one replaced a tx by itself
            break;
        case READ_STATUS_FAILED:
            ctx.probe("fillblock_failed_mutated");
            if (!effectively_honest && first_fill) ctx.probe("bad_blocktxn_caught_by_mutation_check");
            if (effectively_honest && first_fill) ctx.probe("honest_blocktxn_failed_wrong_pool_tx_or_lie");
            break;
        default:
            ctx.probe("fillblock_invalid");
            break;
        }
        if (s.honest_conditions && s.init == READ_STATUS_OK && effectively_honest && first_fill && st != READ_STATUS_OK)
            ctx.failf("honest-reconstruction-failed", "honest well-formed announcement, no colliding/mismatched pool entries, honest blocktxn (%zu of %zu txs requested): FillBlock returned %s", s.req.size(),
                      s.count, st == READ_STATUS_FAILED ? "FAILED" : "INVALID");
        ctx.evf("resp s%zu %s n=%zu copy=%d -> st=%d %s", si, effectively_honest ? "honest" : RESP_NAME[kind], bt2.txn.size(), on_copy, (int)st,
                st == READ_STATUS_OK ? blk.GetHash().ToString().substr(0, 16).c_str() : "-");
    }

    uint64_t Fingerprint()
    {
        uint64_t h = mix64(ntx, segwit_active), px = 0;
        for (auto& t : pool_model) px ^= t->GetWitnessHash().ToUint256().GetUint64(0);
        h = mix64(h, px);
        for (auto& [k, t] : extra) h = mix64(h, k.ToUint256().GetUint64(0) ^ (t->GetWitnessHash().ToUint256().GetUint64(1) << 1));
        for (auto& s : slots) h = mix64(h, (s.pdb ? 1 : 0) + 2 * (uint64_t)s.init + 8 * s.count + (s.req.size() << 20) + ((uint64_t)s.fills << 40) + ((uint64_t)(s.last_status + 1) << 48) + ((uint64_t)s.honest_conditions << 52));
        return h;
    }

    void Run()
    {
        for (const Op& op : ctx.plan.ops) {
            switch (op.kind) {
            case MP_ADD: DoMempoolAdd(op); break;
            case MP_DEL: DoMempoolDel(op); break;
            case EX_ADD: DoExtraAdd(op); break;
            case ANNOUNCE: DoAnnounce(op); break;
            case RESPOND: DoRespond(op); break;
            default: break;
            }
            ctx.fingerprint(Fingerprint());
        }
    }
};

void Run(Ctx& ctx)
{
    Sim s(ctx);
    s.Run();
}

#ifdef C38_FIXTURE_SEARCH
/** Offline birthday search for FIX_C1/FIX_C2 (run: C38_FIXTURE_SEARCH=1 verifsim list). Keeps candidates whose short id
 *  has its top two bits clear (2^46 space), 2^26 candidates scanned -> ~2^24 kept -> ~2 collisions expected. */
void FixtureSearch()
{
    if (!getenv("C38_FIXTURE_SEARCH")) return;
    InitBitcoinGlobals();
    Plan plan;
    plan.knobs["fixture"] = 1;
    Ctx ctx(plan, Tier::QUICK);
    Sim sim(ctx);
    SidKey key(sim.base_header, FIX_NONCE);
    DataStream s{};
    s << TX_NO_WITNESS(*FixtureTx(0));
    std::vector<unsigned char> buf((const unsigned char*)s.data(), (const unsigned char*)s.data() + s.size());
    const size_t off = 4 + 1 + 32;
    const uint32_t N = 1u << 26;
    std::vector<uint64_t> kept;
    kept.reserve(N / 4 + N / 64);
    auto sid_of = [&](uint32_t c) { WriteLE32(buf.data() + off, c); return key(Sha256d(buf.data(), buf.size())); };
    for (uint32_t c = 0; c < N; ++c) {
        uint64_t v = sid_of(c);
        if ((v >> 46) == 0) kept.push_back(v);
    }
    std::sort(kept.begin(), kept.end());
    std::set<uint64_t> dup;
    for (size_t i = 1; i < kept.size(); ++i)
        if (kept[i] == kept[i - 1]) dup.insert(kept[i]);
    printf("C38 fixture search: header %s kept %zu colliding short ids %zu\n", sim.base_header.GetHash().ToString().c_str(), kept.size(), dup.size());
    for (uint32_t c = 0; c < N && !dup.empty(); ++c) {
        uint64_t v = sid_of(c);
        if (dup.count(v)) printf("  sid %012llx counter %u  (real tx sid %012llx)\n", (unsigned long long)v, c, (unsigned long long)key(FixtureTx(c)->GetWitnessHash().ToUint256()));
    }
    fflush(stdout);
    exit(0);
}
#endif

Engine MakeEngine()
{
    Engine e;
    e.prop = "C38";
    e.name = "compsim/cmpctblock";
    e.level = "exploration";
    e.gen = Gen;
    e.run = Run;
    e.describe = Describe;
#ifdef C38_FIXTURE_SEARCH
    e.init = FixtureSearch;
#endif
    e.chunk = 400;
    e.quick_runs = 400000;
    e.thorough_runs = 10000000;
    e.quick_budget_s = 50;
    e.thorough_budget_s = 900;
    e.rule = "per run one hand-built block (1-200 txs; knobs: witness mode none/valid commitment/uncommitted/garbage commitment, segwit_active, with/without coinbase, header root committing to nothing, "
             "64-byte tx) and 1-5 rounds of [mempool/extra-ring churn: genuine txs, decoys, same-txid witness variants, mismatched <wtxid,tx> pairs; cmpctblock into one of 3 slots with a seeded prefilled "
             "pattern, optional tx-list lie (swap/replace/dup-tail CVE-2012-2459/drop/insert/dup) and optional wire tweak (duplicate short id, short id of a decoy, random short id, prefilled index bump, "
             "null prefilled tx, extra/missing short ids, header field, empty); more churn; 0-3 blocktxn answers honest/wrong-one/reordered/short/long/empty/whole-block/random, on the partial block or a copy, "
             "into a fresh or a re-used CBlock]. 2% of the runs use a fixed block+nonce for which two non-block transactions with a REAL colliding 48-bit short id were precomputed (both put into the "
             "mempool/extra ring, the announcer lists that short id). Every message crosses the real serialisers. non-trivial = FillBlock ran on a partial block whose InitData succeeded; distinct = fingerprints of (mempool set, extra ring, per-slot "
             "init status/tx count/requested count/fills/last FillBlock status) after each op (first 64 per run)";
    e.real_components = {"PartiallyDownloadedBlock::InitData/IsTxAvailable/FillBlock (blockencodings.cpp)", "CBlockHeaderAndShortTxIDs, BlockTransactionsRequest, BlockTransactions, PrefilledTransaction codecs (blockencodings.h)",
                         "IsBlockMutated / CheckMerkleRoot / CheckWitnessMalleation (validation.cpp)", "BlockMerkleRoot / BlockWitnessMerkleRoot (consensus/merkle.cpp)", "CTxMemPool (txns_randomized scan, add/remove)",
                         "CTransaction (de)serialisation and hashing"};
    e.stub_components = {"peer (scripted: owns cmpctblock and blocktxn bytes)", "net_processing block-download state machine (the engine requests !IsTxAvailable indexes and keeps 3 partial blocks itself)",
                         "extra-transaction ring (re-implemented with the same ring discipline)", "mempool admission (entries are added without validation)"};
    e.assumptions = {"the 'announced block' is the transaction list the announced header's merkle root commits to (the generator's list); witness equality is demanded where BIP141 commits to witnesses, "
                     "otherwise the result must carry no witness data (the genuine list with uncommitted witnesses removed is accepted)",
                     "for a block without coinbase nothing commits to witness data; txid-level equality is judged, witness differences are only counted (probe ok_nocoinbase_witness_differs)",
                     "real 48-bit short-id collisions are not producible within a run (2^24 work per pair, 2^48 against a given block tx); collisions are exercised as (a) the announcer listing the short id "
                     "of a decoy that sits in the mempool/extra ring (what a collision looks like to the receiver), (b) duplicate short ids inside the announcement, (c) mismatched <wtxid,tx> pairs in the "
                     "extra ring (knob sim_collisions; the unit tests' way to simulate a collision), (d) one precomputed real collision between two non-block txs (knob fixture); a real collision between a "
                     "block tx and a pool tx, or between two block txs, is never produced",
                     "second clause (classes honest-*): an honest announcement of a well-formed block with no misleading pool entry and an honest blocktxn must reconstruct (statement: only collisions and "
                     "malicious responses cause fallback); InitData FAILED is tolerated there (bucket-overflow heuristic)",
                     "SHA256d / SipHash-2-4 preimage and collision resistance"};
    e.expected_probes = {"initdata_ok", "initdata_failed", "initdata_invalid", "slots_filled_from_pools", "nothing_to_request", "fillblock_ok_equals_announced", "fillblock_failed_mutated",
                         "fillblock_invalid", "bad_blocktxn_caught_by_mutation_check", "honest_blocktxn_failed_wrong_pool_tx_or_lie", "duplicate_shortid_announced", "cve_2012_2459_same_root_announced",
                         "fillblock_after_failed_init", "fillblock_on_consumed_partial_block", "honest_announcement", "block_without_coinbase", "block_with_witness_commitment", "extra_ring_wrapped",
                         "mempool_removal", "cmpctblock_undecodable", "ok_witness_stripped_block", "fillblock_into_dirty_block", "fixture_real_collision_pair_present",
                         "real_collision_two_mempool_txs_match_shortid", "real_collision_mempool_and_extra_match_shortid", "real_collision_slot_requested_instead", "pool_decoy_fills_slot_via_listed_shortid"};
    return e;
}
Engine g_engine = MakeEngine();
SIM_REGISTER_ENGINE(g_engine);

} // namespace
