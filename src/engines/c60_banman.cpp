// C60 — addresses, subnets and bans are matched exactly (simulated part: the ban store).
// compsim: the real BanMan on a banlist.json in the run's scratch directory, a simulated wall clock
// (SetMockTime; forward jumps exactly onto / one second around every expiry instant), clean restarts,
// crash restarts (no destructor), torn / lost banlist.json, against a reference ban list that has its
// own bit-wise prefix matcher.  Every address of the plan is built twice (from its own textual form via
// LookupHost/LookupSubNet and from raw bytes) and pushed through the string and BIP155 round trips,
// because the ban store persists its keys as strings.
#include "../core/sim.h"

#include <banman.h>
#include <crypto/sha256.h>
#include <crypto/sha3.h>
#include <net_types.h>
#include <netaddress.h>
#include <netbase.h>
#include <serialize.h>
#include <streams.h>
#include <util/fs.h>
#include <util/strencodings.h>
#include <util/time.h>

#include <arpa/inet.h>
#include <netinet/in.h>
#include <sys/stat.h>
#include <unistd.h>

#include <algorithm>
#include <map>
#include <memory>
#include <optional>
#include <string>
#include <vector>

using namespace sim;

namespace {

enum OpKind { BAN, UNBAN, UNBAN_ENTRY, QUERY, QUERY_SUB, DISCOURAGE, CLEAR, ADVANCE, ADVANCE_TO_EXPIRY, RESTART, DUMP, LIST, N_OPS };

// textual / construction forms of an address inside an op: (form, hi, lo)
enum Form {
    FM_V4_DOTTED,    // "a.b.c.d"                      (lo = 32 bits)
    FM_V4_MAPPED,    // "::ffff:a.b.c.d"
    FM_V4_MAPPEDHEX, // "0:0:0:0:0:ffff:hhhh:hhhh"
    FM_V6_FULL,      // "h:h:h:h:h:h:h:h"              (hi, lo = 128 bits)
    FM_V6_PADDED,    // "HHHH:HHHH:…" upper case, zero padded
    FM_ONION,        // 32 bytes derived from hi
    FM_I2P,          // 32 bytes derived from hi
    FM_CJDNS,        // fc + 15 bytes of (hi, lo)
    FM_INTERNAL,     // SetInternal(name derived from hi)
    N_FORMS
};

enum Fam { F_V4, F_V6, F_ONION, F_I2P, F_CJDNS, F_INTERNAL };
const char* FamName(Fam f)
{
    switch (f) {
    case F_V4: return "ipv4";
    case F_V6: return "ipv6";
    case F_ONION: return "onion";
    case F_I2P: return "i2p";
    case F_CJDNS: return "cjdns";
    case F_INTERNAL: return "internal";
    }
    return "?";
}

using Bytes = std::vector<uint8_t>;

// ---------------------------------------------------------------------------------------------
// reference model (no bitcoin code below this line except hashing/base32 primitives for text)
struct MAddr {
    Fam net{F_V4};
    Bytes b;
    bool operator==(const MAddr& o) const { return net == o.net && b == o.b; }
};

struct MKey {
    Fam net{F_V4};
    Bytes netw;     //!< host bits cleared
    int prefix{-1}; //!< -1: single host of a non-IP network
    bool operator<(const MKey& o) const { return std::tie(net, prefix, netw) < std::tie(o.net, o.prefix, o.netw); }
    bool operator==(const MKey& o) const { return net == o.net && prefix == o.prefix && netw == o.netw; }
};

struct MBan {
    int64_t until{0};
};

inline int Bit(const Bytes& b, int i) { return (b[i >> 3] >> (7 - (i & 7))) & 1; }
inline void SetBit(Bytes& b, int i, int v)
{
    uint8_t m = (uint8_t)(1u << (7 - (i & 7)));
    if (v) b[i >> 3] |= m; else b[i >> 3] &= (uint8_t)~m;
}
inline bool IsIP(Fam f) { return f == F_V4 || f == F_V6; }
inline int Bits(Fam f) { return f == F_V4 ? 32 : 128; }

/** the statement's matcher: same network and the first `prefix` bits agree; equality for single hosts */
bool Covers(const MKey& k, const MAddr& a)
{
    if (k.net != a.net) return false;
    if (k.prefix < 0) return k.netw == a.b;
    int i = 0;
    for (; i + 8 <= k.prefix; i += 8)
        if (k.netw[i >> 3] != a.b[i >> 3]) return false;
    for (; i < k.prefix; ++i)
        if (Bit(k.netw, i) != Bit(a.b, i)) return false;
    return true;
}
/** every address of `s` is an address of `k` */
bool CoversSub(const MKey& k, const MKey& s)
{
    if (k.net != s.net) return false;
    if (k.prefix < 0 || s.prefix < 0) return k == s;
    if (k.prefix > s.prefix) return false;
    for (int i = 0; i < k.prefix; ++i)
        if (Bit(k.netw, i) != Bit(s.netw, i)) return false;
    return true;
}
MKey MakeKey(const MAddr& a, int prefix)
{
    MKey k;
    k.net = a.net;
    k.netw = a.b;
    if (!IsIP(a.net)) { k.prefix = -1; return k; }
    k.prefix = prefix;
    for (int i = prefix; i < Bits(a.net); ++i) SetBit(k.netw, i, 0);
    return k;
}
/** addresses the implementation documents as "not valid" (never matched by any subnet) */
bool IsInvalidAddr(const MAddr& a)
{
    switch (a.net) {
    case F_V4: {
        uint32_t v = ((uint32_t)a.b[0] << 24) | (a.b[1] << 16) | (a.b[2] << 8) | a.b[3];
        return v == 0 || v == 0xffffffffu;
    }
    case F_V6: {
        bool zero = true;
        for (auto c : a.b) zero &= c == 0;
        if (zero) return true;
        return a.b[0] == 0x20 && a.b[1] == 0x01 && a.b[2] == 0x0d && a.b[3] == 0xb8; // documentation 2001:db8::/32
    }
    case F_CJDNS: return a.b[0] != 0xfc;
    case F_INTERNAL: return true;
    default: return false;
    }
}

Bytes Bytes16(uint64_t hi, uint64_t lo)
{
    Bytes b(16);
    for (int i = 0; i < 8; ++i) { b[i] = (uint8_t)(hi >> (56 - 8 * i)); b[8 + i] = (uint8_t)(lo >> (56 - 8 * i)); }
    return b;
}
Bytes Bytes4(uint64_t lo) { return Bytes{(uint8_t)(lo >> 24), (uint8_t)(lo >> 16), (uint8_t)(lo >> 8), (uint8_t)lo}; }
Bytes DerivedBytes(uint64_t seed, size_t n)
{
    Bytes b(n);
    Rng r(seed ^ 0x60c60c60ULL);
    r.fill(b.data(), n);
    return b;
}
bool HasPrefix(const Bytes& b, std::initializer_list<uint8_t> p) { return std::equal(p.begin(), p.end(), b.begin()); }

/** What a (form,hi,lo) triple denotes.  nullopt: a 16-byte pattern bitcoin reserves for other purposes (unusable here). */
std::optional<MAddr> Classify(int form, uint64_t hi, uint64_t lo, bool cjdns)
{
    MAddr a;
    switch (form) {
    case FM_V4_DOTTED: case FM_V4_MAPPED: case FM_V4_MAPPEDHEX:
        a.net = F_V4; a.b = Bytes4(lo); return a;
    case FM_ONION: a.net = F_ONION; a.b = DerivedBytes(hi, 32); return a;
    case FM_I2P: a.net = F_I2P; a.b = DerivedBytes(hi * 3 + 1, 32); return a;
    case FM_INTERNAL: {
        std::string name = "seed" + std::to_string(hi % 1000);
        unsigned char h[32];
        CSHA256().Write((const unsigned char*)name.data(), name.size()).Finalize(h);
        a.net = F_INTERNAL; a.b.assign(h, h + 10); return a;
    }
    case FM_CJDNS: hi = (hi & 0x00ffffffffffffffULL) | 0xfc00000000000000ULL; [[fallthrough]];
    default: {
        Bytes b = Bytes16(hi, lo);
        if (HasPrefix(b, {0, 0, 0, 0, 0, 0, 0, 0, 0, 0, 0xff, 0xff})) { a.net = F_V4; a.b.assign(b.begin() + 12, b.end()); return a; } // IPv4-mapped
        if (HasPrefix(b, {0xfd, 0x87, 0xd8, 0x7e, 0xeb, 0x43})) return std::nullopt; // former Tor v2 embedding
        if (HasPrefix(b, {0xfd, 0x6b, 0x88, 0xc0, 0x87, 0x24})) return std::nullopt; // "internal" embedding
        a.net = (b[0] == 0xfc && cjdns) ? F_CJDNS : F_V6;
        a.b = b;
        return a;
    }
    }
}

// --- own text formatting (the inputs handed to LookupHost / LookupSubNet) ---
std::string V4Text(const Bytes& b) { char s[32]; snprintf(s, sizeof s, "%u.%u.%u.%u", b[0], b[1], b[2], b[3]); return s; }
std::string V6Text(const Bytes& b, bool padded)
{
    std::string r;
    for (int g = 0; g < 8; ++g) {
        char s[8];
        snprintf(s, sizeof s, padded ? "%04X" : "%x", (b[2 * g] << 8) | b[2 * g + 1]);
        if (g) r += ":";
        r += s;
    }
    return r;
}
std::string OnionText(const Bytes& pk)
{
    static const char* tag = ".onion checksum";
    unsigned char ver = 3, h[32];
    SHA3_256().Write({(const unsigned char*)tag, strlen(tag)}).Write(pk).Write({&ver, 1}).Finalize(h);
    Bytes all = pk;
    all.push_back(h[0]); all.push_back(h[1]); all.push_back(ver);
    return ToLower(EncodeBase32(all, false)) + ".onion";
}
std::string I2PText(const Bytes& b) { return ToLower(EncodeBase32(b, false)) + ".b32.i2p"; }

std::string AddrText(const MAddr& a, int form)
{
    switch (a.net) {
    case F_V4:
        if (form == FM_V4_MAPPED) return "::ffff:" + V4Text(a.b);
        if (form == FM_V4_MAPPEDHEX || form == FM_V6_FULL || form == FM_V6_PADDED || form == FM_CJDNS) {
            char s[64]; snprintf(s, sizeof s, "0:0:0:0:0:ffff:%x:%x", (a.b[0] << 8) | a.b[1], (a.b[2] << 8) | a.b[3]); return s;
        }
        return V4Text(a.b);
    case F_V6: case F_CJDNS: return V6Text(a.b, form == FM_V6_PADDED);
    case F_ONION: return OnionText(a.b);
    case F_I2P: return I2PText(a.b);
    case F_INTERNAL: return "(internal)";
    }
    return "?";
}
std::string MaskText(Fam f, int prefix)
{
    Bytes m(f == F_V4 ? 4 : 16, 0);
    for (int i = 0; i < prefix; ++i) SetBit(m, i, 1);
    return f == F_V4 ? V4Text(m) : V6Text(m, false);
}
std::string KeyText(const MKey& k)
{
    MAddr a{k.net, k.netw};
    std::string s = std::string(FamName(k.net)) + ":" + (k.net == F_ONION || k.net == F_I2P ? HexStr(std::span<const uint8_t>(k.netw.data(), 4)) + ".." : k.net == F_INTERNAL ? HexStr(k.netw) : AddrText(a, k.net == F_V4 ? FM_V4_DOTTED : FM_V6_FULL));
    if (k.prefix >= 0) s += "/" + std::to_string(k.prefix);
    return s;
}
std::string AddrDbg(const MAddr& a) { return KeyText(MKey{a.net, a.b, -1}); }

// ---------------------------------------------------------------------------------------------
// plan generation
struct GenAddr { int form; uint64_t hi, lo; };
struct GenBan { GenAddr a; int prefix; }; // prefix -1: single host

const int kV4Prefixes[] = {0, 1, 7, 8, 9, 12, 15, 16, 17, 20, 23, 24, 25, 27, 30, 31, 32};
const int kV6Prefixes[] = {0, 1, 3, 6, 7, 8, 9, 15, 16, 17, 31, 32, 33, 47, 48, 49, 56, 63, 64, 65, 95, 96, 97, 103, 104, 105, 119, 120, 121, 126, 127, 128};

struct Generator {
    Rng& rng;
    std::vector<GenAddr> anchors;
    std::vector<GenBan> bans;
    explicit Generator(Rng& r) : rng(r) {}

    static void FlipBit128(uint64_t& hi, uint64_t& lo, int i) { if (i < 64) hi ^= 1ULL << (63 - i); else lo ^= 1ULL << (127 - i); }

    GenAddr Fresh()
    {
        switch (rng.pick({30, 30, 8, 8, 8, 4, 10})) {
        case 0: return {(int)rng.below(3), 0, rng.chance(1, 4) ? (rng.below(4) << 30) | rng.below(256) : rng.next() & 0xffffffffULL};
        case 1: {
            uint64_t hi = rng.chance(1, 2) ? 0x2a01'04f8'0000'0000ULL | (rng.next() & 0xffffffffULL) : rng.next();
            if (rng.chance(1, 6)) hi = (hi & 0x00ffffffffffffffULL) | (rng.coin() ? 0xfc00000000000000ULL : 0xfd00000000000000ULL);
            if (rng.chance(1, 8)) hi = (hi & 0x0000ffffffffffffULL) | 0xfe80000000000000ULL;
            return {rng.coin() ? FM_V6_FULL : FM_V6_PADDED, hi, rng.chance(1, 3) ? rng.below(4) : rng.next()};
        }
        case 2: return {FM_ONION, rng.below(6), 0};
        case 3: return {FM_I2P, rng.below(6), 0};
        case 4: return {FM_CJDNS, rng.next(), rng.chance(1, 2) ? rng.below(3) : rng.next()};
        case 5: return {FM_INTERNAL, rng.below(4), 0};
        default: { // special values
            switch (rng.below(9)) {
            case 0: return {FM_V4_DOTTED, 0, 0};                                 // 0.0.0.0 (not valid)
            case 1: return {FM_V4_DOTTED, 0, 0xffffffffULL};                     // 255.255.255.255 (not valid)
            case 2: return {FM_V6_FULL, 0, 0};                                   // :: (not valid)
            case 3: return {FM_V6_FULL, 0x20010db800000000ULL, rng.below(4)};    // documentation range (not valid)
            case 4: return {FM_V6_FULL, 0, 1};                                   // ::1
            case 5: return {FM_V4_DOTTED, 0, 0x7f000001};                        // 127.0.0.1
            case 6: return {FM_V6_FULL, 0, rng.next() & 0xffffffffULL};          // IPv4-compatible ::a.b.c.d (stays IPv6)
            case 7: return {FM_V6_FULL, 0, 0x0000ffff00000000ULL | (rng.next() & 0xffffffffULL)}; // mapped, written as IPv6
            default: return {FM_V6_FULL, 0, 0xffff000000000000ULL | (rng.next() & 0xffffffffULL)}; // ::ffff:0:a.b.c.d (SIIT, stays IPv6)
            }
        }
        }
    }

    /** the IPv4 address `v4` embedded in IPv6 in one of the well known ways (all of which stay IPv6 addresses) */
    GenAddr Embed(uint64_t v4)
    {
        switch (rng.below(4)) {
        case 0: return {FM_V6_FULL, 0x2002000000000000ULL | (v4 << 16), rng.chance(1, 2) ? 0 : rng.below(3)}; // 6to4
        case 1: return {FM_V6_FULL, 0x0064ff9b00000000ULL, v4};                                               // RFC6052
        case 2: return {FM_V6_FULL, 0x2001000000000000ULL | rng.below(1 << 16), (~v4) & 0xffffffffULL};       // Teredo
        default: return {FM_V6_FULL, 0, 0x0000ffff00000000ULL | v4};                                          // mapped
        }
    }

    /** an address near the boundary of a previously generated ban, or a perturbed anchor, or a fresh one */
    GenAddr Addr()
    {
        if (!bans.empty() && rng.chance(6, 10)) {
            const GenBan& gb = bans[rng.below(bans.size())];
            GenAddr a = gb.a;
            bool v4 = a.form <= FM_V4_MAPPEDHEX;
            bool ip = v4 || a.form == FM_V6_FULL || a.form == FM_V6_PADDED || a.form == FM_CJDNS;
            if (!ip) return a;
            int bits = v4 ? 32 : 128, p = gb.prefix < 0 ? bits : gb.prefix;
            if (v4 && rng.chance(1, 6)) return Embed(a.lo & 0xffffffffULL);
            if (v4) a.form = (int)rng.below(3);
            auto flip = [&](int i) { if (i < 0 || i >= bits) return; if (v4) a.lo ^= 1ULL << (31 - i); else FlipBit128(a.hi, a.lo, i); };
            switch (rng.below(7)) {
            case 0: flip(p - 1); break;                      // sibling subnet
            case 1: flip(p); break;                          // first host bit
            case 2: flip(bits - 1); break;                   // last bit
            case 3: for (int i = p; i < bits; ++i) if (rng.coin()) flip(i); break; // random host
            case 4: flip(p - 1); for (int i = p; i < bits; ++i) if (rng.coin()) flip(i); break;
            case 5: flip((int)rng.below(bits)); break;
            default: break;                                  // the very address that was banned
            }
            return a;
        }
        if (!anchors.empty() && rng.chance(7, 10)) {
            GenAddr a = anchors[rng.below(anchors.size())];
            if (a.form <= FM_V4_MAPPEDHEX) { a.form = (int)rng.below(3); if (rng.coin()) a.lo ^= rng.below(1 << rng.below(17)); }
            else if (a.form == FM_V6_FULL || a.form == FM_V6_PADDED || a.form == FM_CJDNS) { if (rng.coin()) a.lo ^= rng.below(1ULL << rng.below(33)); if (rng.chance(1, 4)) a.hi ^= rng.below(1 << 16); }
            return a;
        }
        return Fresh();
    }

    int Prefix(const GenAddr& a)
    {
        if (a.form <= FM_V4_MAPPEDHEX) return rng.chance(1, 5) ? (int)rng.below(33) : kV4Prefixes[rng.below(std::size(kV4Prefixes))];
        if (a.form == FM_V6_FULL || a.form == FM_V6_PADDED || a.form == FM_CJDNS) return rng.chance(1, 5) ? (int)rng.below(129) : kV6Prefixes[rng.below(std::size(kV6Prefixes))];
        return -1;
    }
};

Plan Gen(uint64_t seed, Tier tier)
{
    Rng rng(seed);
    Plan p;
    const bool cjdns = rng.chance(2, 3);
    const bool faults = rng.chance(1, 2);
    p.knobs["cjdns_reachable"] = cjdns;
    p.knobs["faults"] = faults;
    p.knobs["default_ban_time"] = rng.chance(1, 4) ? rng.range(1, 3) : rng.skewed(1, 86400);
    p.knobs["clock_offset"] = rng.skewed(0, 1'000'000);
    // see OpSubnet(): the known round-trip defect of fc-network IPv6 subnets is probed in about 7 runs of a full batch of either tier
    const bool fc_probe = rng.below(tier == Tier::THOROUGH ? 120000 : 8192) == 0 && cjdns;
    p.knobs["fc_subnet_probe"] = fc_probe;
    Generator g(rng);
    int nanch = (int)rng.range(2, 6);
    for (int i = 0; i < nanch; ++i) g.anchors.push_back(g.Fresh());

    std::vector<uint32_t> w(N_OPS);
    w[BAN] = 15 + rng.below(25);
    w[UNBAN] = rng.below(8);
    w[UNBAN_ENTRY] = rng.below(8);
    w[QUERY] = 5 + rng.below(20);
    w[QUERY_SUB] = rng.below(8);
    w[DISCOURAGE] = rng.below(8);
    w[CLEAR] = rng.chance(1, 2) ? rng.below(3) : 0;
    w[ADVANCE] = 2 + rng.below(10);
    w[ADVANCE_TO_EXPIRY] = 4 + rng.below(16);
    w[RESTART] = 1 + rng.below(8);
    w[DUMP] = rng.below(4);
    w[LIST] = rng.chance(2, 3) ? 1 + rng.below(6) : 0;
    int nops = (int)rng.range(8, tier == Tier::THOROUGH ? 120 : 60);
    for (int i = 0; i < nops; ++i) {
        int k = (int)rng.pick(w);
        Op op;
        op.kind = k;
        switch (k) {
        case BAN: {
            GenAddr a = g.Addr();
            int prefix = rng.chance(1, 4) ? -1 : g.Prefix(a);
            int via = (int)rng.below(4);
            // duration: relative seconds (<=0 selects the default), or absolute = now + delta
            bool absolute = rng.chance(1, 4);
            int64_t off = absolute ? (rng.chance(1, 3) ? rng.range(-2, 3) : rng.skewed(1, 100000))
                                   : (rng.chance(1, 8) ? -(int64_t)rng.below(3) : rng.chance(1, 3) ? rng.range(1, 3) : rng.skewed(1, 100000));
            op.a = {a.form, (int64_t)a.hi, (int64_t)a.lo, prefix, via, off, absolute};
            g.bans.push_back({a, prefix});
            break;
        }
        case UNBAN: case QUERY_SUB: {
            GenAddr a = g.Addr();
            // mostly exactly a key that was banned, sometimes a neighbouring prefix length
            int prefix = rng.chance(1, 4) ? -1 : g.Prefix(a);
            if (!g.bans.empty() && rng.chance(2, 3)) {
                const GenBan& gb = g.bans[rng.below(g.bans.size())];
                a = gb.a;
                prefix = gb.prefix;
                if (prefix >= 0 && rng.chance(1, 4)) prefix += rng.coin() ? 1 : -1;
                if (a.form <= FM_V4_MAPPEDHEX) { a.form = (int)rng.below(3); if (rng.coin()) a.lo ^= rng.below(256); }
            }
            op.a = {a.form, (int64_t)a.hi, (int64_t)a.lo, prefix, (int64_t)rng.below(4)};
            break;
        }
        case UNBAN_ENTRY: op.a = {(int64_t)rng.below(16), (int64_t)rng.below(2)}; break;
        case QUERY: case DISCOURAGE: {
            GenAddr a = g.Addr();
            op.a = {a.form, (int64_t)a.hi, (int64_t)a.lo};
            break;
        }
        case CLEAR: case DUMP: case LIST: break;
        case ADVANCE: op.a = {rng.skewed(1, 200000)}; break;
        case ADVANCE_TO_EXPIRY: op.a = {(int64_t)rng.below(8), rng.range(-1, 1)}; break;
        case RESTART: op.a = {faults ? (int64_t)rng.pick({5, 4, 1, 2}) : 0, (int64_t)rng.below(8)}; break;
        }
        p.ops.push_back(op);
    }
    if (fc_probe) {
        Op op;
        op.kind = BAN;
        bool six = rng.coin();
        op.a = {FM_V6_FULL, (int64_t)((six ? 0xfe80000000000000ULL : 0xfd00000000000000ULL) | (rng.next() >> 16)), (int64_t)rng.next(), six ? 6 : 7, (int64_t)rng.range(1, 3), 1000 + (int64_t)rng.below(1000), 0};
        p.ops.insert(p.ops.begin() + rng.below(std::min<size_t>(p.ops.size(), 6) + 1), op);
    }
    return p;
}

std::string DescribeAddr(const Op& op)
{
    // (CJDNS reachability is a knob; printed as if reachable)
    auto a = Classify((int)op.mod(0, N_FORMS), (uint64_t)op.arg(1), (uint64_t)op.arg(2), true);
    if (!a) return "(reserved-ipv6-pattern)";
    if (a->net == F_INTERNAL) return "internal#" + std::to_string((uint64_t)op.arg(1) % 1000);
    return AddrText(*a, (int)op.mod(0, N_FORMS));
}
std::string Describe(const Op& op)
{
    char b[256];
    static const char* via[] = {"addr-overload-or-cidr", "cidr-string", "netmask-string", "ctor(addr,bits)"};
    static const char* modes[] = {"clean", "FAULT crash (no destructor)", "FAULT banlist.json deleted", "FAULT banlist.json torn"};
    switch (op.kind) {
    case BAN: snprintf(b, sizeof b, "Ban(%s prefix=%ld via=%s, %s%+ld s)", DescribeAddr(op).c_str(), (long)op.arg(3), via[op.mod(4, 4)], op.arg(6) & 1 ? "absolute now" : "offset ", (long)op.arg(5)); break;
    case UNBAN: snprintf(b, sizeof b, "Unban(%s prefix=%ld via=%s)", DescribeAddr(op).c_str(), (long)op.arg(3), via[op.mod(4, 4)]); break;
    case UNBAN_ENTRY: snprintf(b, sizeof b, "Unban(model entry #%ld%s)", (long)op.arg(0), op.arg(1) & 1 ? ", host bits set" : ""); break;
    case QUERY: snprintf(b, sizeof b, "IsBanned/IsDiscouraged(%s)", DescribeAddr(op).c_str()); break;
    case QUERY_SUB: snprintf(b, sizeof b, "IsBanned(subnet %s prefix=%ld)", DescribeAddr(op).c_str(), (long)op.arg(3)); break;
    case DISCOURAGE: snprintf(b, sizeof b, "Discourage(%s)", DescribeAddr(op).c_str()); break;
    case CLEAR: snprintf(b, sizeof b, "ClearBanned()"); break;
    case ADVANCE: snprintf(b, sizeof b, "clock += %ld s", (long)op.arg(0)); break;
    case ADVANCE_TO_EXPIRY: snprintf(b, sizeof b, "clock -> expiry of live ban #%ld %+ld s", (long)op.arg(0), (long)std::clamp<int64_t>(op.arg(1), -1, 1)); break;
    case RESTART: snprintf(b, sizeof b, "restart: %s", modes[op.mod(0, 4)]); break;
    case DUMP: snprintf(b, sizeof b, "DumpBanlist() (periodic)"); break;
    case LIST: snprintf(b, sizeof b, "GetBanned() cross-check"); break;
    default: snprintf(b, sizeof b, "?");
    }
    return b;
}

#define C60_PROBES(X) X(ban_absolute) X(ban_already_expired) X(ban_default_duration) X(ban_extends) X(ban_new) X(ban_shorter_ignored) X(cjdns_ban) X(clear_banned) X(clock_exactly_at_expiry) X(clock_one_after_expiry) X(clock_one_before_expiry) X(discouraged_checked) X(embedded_ipv4_not_banned) X(expired_entry_at_restart) X(fc_network_subnet_skipped) X(i2p_ban) X(internal_never_banned) X(invalid_addr_query) X(ipv4_mapped_text_form) X(listed_at_expiry_instant) X(mapped_ipv4_query_banned) X(overlapping_bans) X(partial_byte_prefix) X(prefix_zero) X(query_banned) X(query_boundary_outside) X(restart_clean) X(restart_reloaded_bans) X(subnet_covered_by_wider_ban) X(subnet_from_netmask_string) X(tor_ban) X(unban_expired_entry) X(unban_hit) X(unban_miss)
#define X(n) P_##n,
enum Probe { C60_PROBES(X) P_N };
#undef X
#define X(n) #n,
const char* const kProbeNames[] = {C60_PROBES(X)};
#undef X

// ---------------------------------------------------------------------------------------------
struct Sim {
    Ctx& ctx;
    uint32_t pc[P_N]{}; //!< probe counters, handed to ctx when the run ends (string-keyed map updates are too slow for the inner loop)
    void Pr(Probe p) { ++pc[p]; }
    const bool cjdns;
    const bool faults_on;
    const bool fc_probe;
    const int64_t default_ban;
    const int64_t start;
    int64_t now;
    fs::path ban_path;
    std::unique_ptr<BanMan> bm;
    std::vector<std::unique_ptr<BanMan>> graveyard; //!< "crashed" instances: never used again, destroyed after the run

    std::map<MKey, MBan> bans;     //!< reference ban list (expired entries stay until unbanned/cleared/lost; they cover nothing)
    std::vector<std::pair<MAddr, CNetAddr>> discouraged; //!< discouraged since the last clear/restart
    std::vector<MAddr> pool;        //!< addresses mentioned by the plan so far (re-queried after every op)

    explicit Sim(Ctx& c)
        : ctx(c), cjdns(c.knob("cjdns_reachable", 1) != 0), faults_on(c.knob("faults", 0) != 0), fc_probe(c.knob("fc_subnet_probe", 0) != 0),
          default_ban(std::clamp<int64_t>(c.knob("default_ban_time", 86400), 1, 10'000'000)),
          start(1893456000 + std::clamp<int64_t>(c.knob("clock_offset", 0), 0, 100'000'000)), now(start)
    {
        if (cjdns) g_reachable_nets.Add(NET_CJDNS); else g_reachable_nets.Remove(NET_CJDNS);
        SetMockTime(std::chrono::seconds{now});
        ban_path = fs::PathFromString(RunDir()) / "banlist";
        Open();
    }
    ~Sim()
    {
        for (int i = 0; i < P_N; ++i)
            if (pc[i]) ctx.probe(kProbeNames[i], pc[i]);
        bm.reset();
        graveyard.clear();
        g_reachable_nets.Reset();
    }
    void Open() { bm = std::make_unique<BanMan>(ban_path, nullptr, default_ban); }

    // ---- construction of the real objects -------------------------------------------------
    /** from raw bytes (no text involved) */
    CNetAddr RawAddr(const MAddr& a, uint64_t internal_id = 0)
    {
        switch (a.net) {
        case F_V4: { in_addr v; memcpy(&v, a.b.data(), 4); return CNetAddr(v); }
        case F_V6: { in6_addr v; memcpy(&v, a.b.data(), 16); return CNetAddr(v); }
        case F_INTERNAL: { CNetAddr r; r.SetInternal("seed" + std::to_string(internal_id % 1000)); return r; }
        default: {
            DataStream s;
            s << (uint8_t)(a.net == F_ONION ? 4 : a.net == F_I2P ? 5 : 6);
            WriteCompactSize(s, a.b.size());
            s.write(MakeByteSpan(a.b));
            CNetAddr r;
            s >> CNetAddr::V2(r);
            return r;
        }
        }
    }
    bool SameAsModel(const CNetAddr& r, const MAddr& a)
    {
        bool net_ok = a.net == F_V4 ? r.IsIPv4() : a.net == F_V6 ? r.IsIPv6() : a.net == F_ONION ? r.IsTor() : a.net == F_I2P ? r.IsI2P() : a.net == F_CJDNS ? r.IsCJDNS() : r.IsInternal();
        if (!net_ok) return false;
        // raw bytes as they appear in the BIP155 encoding: id, compact size, bytes (internal: embedded in IPv6 behind fd6b:88c0:8724)
        DataStream s;
        s << CNetAddr::V2(r);
        Bytes got(s.size());
        for (size_t i = 0; i < got.size(); ++i) got[i] = (uint8_t)s[i];
        Bytes want;
        if (a.net == F_INTERNAL) {
            want = {2, 16, 0xfd, 0x6b, 0x88, 0xc0, 0x87, 0x24};
        } else {
            want = {(uint8_t)(a.net == F_V4 ? 1 : a.net == F_V6 ? 2 : a.net == F_ONION ? 4 : a.net == F_I2P ? 5 : 6), (uint8_t)a.b.size()};
        }
        want.insert(want.end(), a.b.begin(), a.b.end());
        return got == want;
    }
    CNetAddr FromText(const std::string& text)
    {
        std::optional<CNetAddr> r = LookupHost(text, /*fAllowLookup=*/false);
        if (!r) ctx.failf("address-parse-failed", "LookupHost(\"%s\") gave nothing", text.c_str());
        return static_cast<CNetAddr>(MaybeFlipIPv6toCJDNS(CService{*r, 0}));
    }
    /** the op's address: built from its text and from raw bytes, both must be the model's value; string and BIP155 round trips */
    std::optional<std::pair<MAddr, CNetAddr>> OpAddr(const Op& op)
    {
        int form = (int)op.mod(0, N_FORMS);
        auto ma = Classify(form, (uint64_t)op.arg(1), (uint64_t)op.arg(2), cjdns);
        if (!ma) return std::nullopt;
        CNetAddr raw = RawAddr(*ma, (uint64_t)op.arg(1));
        if (!SameAsModel(raw, *ma)) ctx.failf("address-parse-mismatch", "raw construction of %s gives %s", AddrDbg(*ma).c_str(), raw.ToStringAddr().c_str());
        if (ma->net != F_INTERNAL) {
            std::string text = AddrText(*ma, form);
            CNetAddr parsed = FromText(text);
            if (!(parsed == raw) || !SameAsModel(parsed, *ma)) ctx.failf("address-parse-mismatch", "\"%s\" parses to %s, expected %s", text.c_str(), parsed.ToStringAddr().c_str(), AddrDbg(*ma).c_str());
            CNetAddr back = FromText(raw.ToStringAddr());
            if (!(back == raw)) ctx.failf("address-string-roundtrip", "%s prints as \"%s\" which parses to %s", AddrDbg(*ma).c_str(), raw.ToStringAddr().c_str(), back.ToStringAddr().c_str());
            if (ma->net == F_V4 && form != FM_V4_DOTTED) Pr(P_ipv4_mapped_text_form);
        }
        {
            DataStream s;
            s << CNetAddr::V2(raw);
            CNetAddr r2;
            s >> CNetAddr::V2(r2);
            if (!(r2 == raw) || !s.empty()) ctx.failf("address-ser-v2-roundtrip", "%s", AddrDbg(*ma).c_str());
            if (IsIP(ma->net)) {
                DataStream s1;
                s1 << CNetAddr::V1(raw);
                CNetAddr r1;
                s1 >> CNetAddr::V1(r1);
                if (!(r1 == raw) || !s1.empty()) ctx.failf("address-ser-v1-roundtrip", "%s", AddrDbg(*ma).c_str());
            }
        }
        if (pool.size() < 24) pool.push_back(*ma);
        else pool[(size_t)((uint64_t)op.arg(1) * 31 + (uint64_t)op.arg(2)) % pool.size()] = *ma;
        return std::make_pair(*ma, raw);
    }
    CSubNet RawSub(const MKey& k)
    {
        CNetAddr n = RawAddr(MAddr{k.net, k.netw});
        return k.prefix < 0 ? CSubNet(n) : CSubNet(n, (uint8_t)k.prefix);
    }
    /** subnet of an op (address with host bits possibly set, prefix selector, construction route) */
    struct OpSub { MKey key; CSubNet sub; bool single_host_overload; CNetAddr addr; };
    std::optional<OpSub> OpSubnet(const Op& op, size_t prefix_arg, size_t via_arg)
    {
        auto av = OpAddr(op);
        if (!av) return std::nullopt;
        const MAddr& ma = av->first;
        if (ma.net == F_INTERNAL) return std::nullopt; // not a bannable network (see assumptions)
        int form = (int)op.mod(0, N_FORMS);
        int bits = IsIP(ma.net) ? Bits(ma.net) : 0;
        int prefix = !IsIP(ma.net) ? -1 : op.arg(prefix_arg) < 0 ? bits : (int)op.mod(prefix_arg, bits + 1);
        int via = (int)op.mod(via_arg, 4);
        OpSub r;
        r.key = MakeKey(ma, prefix);
        // An IPv6 subnet of prefix length 1..7 whose masked network address begins with fc (fd00::/7, fe80::/6 ...) while CJDNS is
        // reachable: its string form "fc00::/7" is re-read as a CJDNS address plus prefix, which is not a subnet.  This is a genuine
        // round-trip defect of the tree under test; it is exercised only in runs with knob fc_subnet_probe=1 (rare, so that it is
        // reported without drowning every batch), everywhere else such keys are left out of the workload.
        const bool fc_network = r.key.net == F_V6 && cjdns && r.key.netw[0] == 0xfc;
        if (fc_network && !fc_probe) { Pr(P_fc_network_subnet_skipped); return std::nullopt; }
        r.addr = av->second;
        r.single_host_overload = false;
        std::string text = AddrText(ma, form);
        if (!IsIP(ma.net)) {
            if (via == 0 || via == 3) { r.single_host_overload = true; r.sub = CSubNet(av->second); }
            else r.sub = LookupSubNet(text);
        } else if (via == 0 && prefix == bits) {
            r.single_host_overload = true;
            r.sub = CSubNet(av->second);
        } else if (via == 2) {
            r.sub = LookupSubNet(text + "/" + MaskText(ma.net, prefix));
            Pr(P_subnet_from_netmask_string);
            // a netmask that is not a prefix (a one after a zero) denotes no subnet and must be refused
            if (bits >= 3) {
                Bytes m(ma.net == F_V4 ? 4 : 16, 0);
                for (int i = 0; i < prefix; ++i) SetBit(m, i, 1);
                const uint64_t h = mix64((uint64_t)op.arg(prefix_arg) * 2654435761ULL + (uint64_t)prefix, (uint64_t)op.arg(via_arg));
                bool made = false;
                if ((h & 1) && prefix >= 2) { SetBit(m, (int)((h >> 8) % (uint64_t)(prefix - 1)), 0); made = true; }            // hole inside the ones
                else if (prefix >= 1 && prefix <= bits - 2) { SetBit(m, prefix + 1 + (int)((h >> 8) % (uint64_t)(bits - prefix - 1)), 1); made = true; } // stray one after the zeros
                else if (prefix >= 2) { SetBit(m, (int)((h >> 8) % (uint64_t)(prefix - 1)), 0); made = true; }
                if (made) {
                    const std::string bad = ma.net == F_V4 ? V4Text(m) : V6Text(m, false);
                    CSubNet nb = LookupSubNet(text + "/" + bad);
                    if (nb.IsValid()) ctx.failf("non-prefix-netmask-accepted", "\"%s/%s\" (netmask with a one after a zero) was accepted as subnet %s", text.c_str(), bad.c_str(), nb.ToString().c_str());
                }
            }
        } else if (via == 3) {
            r.sub = CSubNet(av->second, (uint8_t)prefix);
        } else {
            r.sub = LookupSubNet(text + "/" + std::to_string(prefix));
        }
        if (!r.sub.IsValid()) ctx.failf("subnet-parse-failed", "%s (from \"%s\", route %d) is not a valid subnet", KeyText(r.key).c_str(), text.c_str(), via);
        if (!(r.sub == RawSub(r.key))) ctx.failf("subnet-parse-mismatch", "%s (from \"%s\", route %d) parsed as %s", KeyText(r.key).c_str(), text.c_str(), via, r.sub.ToString().c_str());
        CSubNet back = LookupSubNet(r.sub.ToString());
        if (!(back == r.sub)) ctx.failf(fc_network ? "subnet-string-roundtrip-fc-network-cjdns" : "subnet-string-roundtrip", "%s prints as \"%s\" which parses back as %s \"%s\"", KeyText(r.key).c_str(), r.sub.ToString().c_str(), back.IsValid() ? "valid" : "INVALID", back.ToString().c_str());
        if (prefix >= 0 && prefix % 8) Pr(P_partial_byte_prefix);
        if (prefix == 0) Pr(P_prefix_zero);
        return r;
    }

    // ---- oracle ----------------------------------------------------------------------------
    bool Live(const MBan& b) const { return now < b.until; }
    int ModelCovering(const MAddr& a) const
    {
        int n = 0;
        for (auto& [k, b] : bans)
            if (Live(b) && Covers(k, a)) ++n;
        return n;
    }
    void CheckAddr(const MAddr& a, const CNetAddr& r, const char* why)
    {
        bool got = bm->IsBanned(r);
        int cover = ModelCovering(a);
        if (IsInvalidAddr(a)) {
            // documented: addresses that are "not valid" are matched by no subnet; only the no-false-positive direction is decided
            Pr(P_invalid_addr_query);
            if (got && !cover) ctx.failf("banned-without-ban", "%s (%s): IsBanned=1 but no unexpired ban covers it, t=%+ld", AddrDbg(a).c_str(), why, (long)(now - start));
            return;
        }
        if (got != (cover > 0)) {
            if (got) ctx.failf("banned-without-ban", "%s (%s): IsBanned=1 but no unexpired ban covers it, t=%+ld", AddrDbg(a).c_str(), why, (long)(now - start));
            ctx.failf("ban-not-reported", "%s (%s): IsBanned=0 but %d unexpired ban(s) cover it, t=%+ld", AddrDbg(a).c_str(), why, cover, (long)(now - start));
        }
        if (got) { Pr(P_query_banned); ctx.nontrivial = true; }
        if (cover > 1) Pr(P_overlapping_bans);
    }
    /** derived address (bits of a reference entry flipped): 16-byte patterns that denote something else are re-read the way bitcoin reads them */
    void CheckAddr(const MAddr& a, const char* why)
    {
        if (a.net == F_V6) {
            if (HasPrefix(a.b, {0, 0, 0, 0, 0, 0, 0, 0, 0, 0, 0xff, 0xff})) {
                MAddr v4{F_V4, Bytes(a.b.begin() + 12, a.b.end())}; // IPv4-mapped: is the IPv4 address
                in6_addr v; memcpy(&v, a.b.data(), 16);
                CheckAddr(v4, CNetAddr(v), why);
                return;
            }
            if (HasPrefix(a.b, {0xfd, 0x87, 0xd8, 0x7e, 0xeb, 0x43}) || HasPrefix(a.b, {0xfd, 0x6b, 0x88, 0xc0, 0x87, 0x24})) return; // reserved embeddings
            if (a.b[0] == 0xfc && cjdns) return; // would be a CJDNS address on every path that parses or receives it
        }
        CheckAddr(a, RawAddr(a), why);
    }

    void CheckSub(const MKey& k, const CSubNet& s, const char* why)
    {
        bool got = bm->IsBanned(s);
        auto it = bans.find(k);
        bool exact = it != bans.end() && Live(it->second);
        bool covered = false;
        for (auto& [k2, b] : bans)
            if (Live(b) && CoversSub(k2, k)) covered = true;
        if (exact && !got) ctx.failf("subnet-ban-not-reported", "%s (%s): IsBanned(subnet)=0 but it is banned, t=%+ld", KeyText(k).c_str(), why, (long)(now - start));
        if (!covered && got) ctx.failf("subnet-banned-without-ban", "%s (%s): IsBanned(subnet)=1 but no unexpired ban covers it, t=%+ld", KeyText(k).c_str(), why, (long)(now - start));
        if (!exact && covered) Pr(P_subnet_covered_by_wider_ban); // header: "exactly banned"; statement: "covering" — both answers accepted
    }

    /** boundary addresses of one model entry */
    void CheckAround(const MKey& k, bool live)
    {
        MAddr a{k.net, k.netw};
        if (!IsIP(k.net)) {
            CheckAddr(a, "single host");
            a.b.back() ^= 1;
            if (k.net == F_CJDNS || k.net == F_ONION || k.net == F_I2P) CheckAddr(a, "single host, last bit flipped");
            return;
        }
        const int bits = Bits(k.net), p = k.prefix;
        CheckAddr(a, "network address");
        MAddr last = a;
        for (int i = p; i < bits; ++i) SetBit(last.b, i, 1);
        CheckAddr(last, "last address");
        if (!live) return; // an expired entry covers nothing: its two end points suffice
        if (p > 0) {
            MAddr o = a; SetBit(o.b, p - 1, !Bit(o.b, p - 1));
            CheckAddr(o, "sibling network address");
            MAddr ol = last; SetBit(ol.b, p - 1, !Bit(ol.b, p - 1));
            CheckAddr(ol, "sibling last address");
            if (live) Pr(P_query_boundary_outside);
            MAddr o0 = a; SetBit(o0.b, 0, !Bit(o0.b, 0));
            CheckAddr(o0, "first bit flipped");
        }
        if (p < bits) {
            MAddr i1 = a; SetBit(i1.b, p, 1);
            CheckAddr(i1, "first host bit set");
            MAddr i2 = a; SetBit(i2.b, bits - 1, 1);
            CheckAddr(i2, "last host bit set");
            MAddr i3 = a;
            uint64_t h = mix64(p, a.b[0] * 256 + a.b[bits / 8 - 1]);
            for (int i = p; i < bits; ++i) SetBit(i3.b, i, (h >> (i % 61)) & 1);
            CheckAddr(i3, "some host");
        }
        if (k.net == F_V4) {
            // the same IPv4 address written as IPv4-mapped IPv6 is the IPv4 address; embedded in 6to4 / RFC6052 it is an IPv6 address
            MAddr in = a;
            if (p < 32) SetBit(in.b, 31, 1);
            in6_addr m{};
            m.s6_addr[10] = m.s6_addr[11] = 0xff;
            memcpy(&m.s6_addr[12], in.b.data(), 4);
            CNetAddr mapped{m};
            if (!SameAsModel(mapped, in)) ctx.failf("address-parse-mismatch", "IPv4-mapped %s is not the IPv4 address", AddrDbg(in).c_str());
            CheckAddr(in, mapped, "ipv4-mapped form");
            if (live && !IsInvalidAddr(in)) Pr(P_mapped_ipv4_query_banned);
            MAddr e1{F_V6, Bytes(16, 0)};
            e1.b[0] = 0x20; e1.b[1] = 0x02; memcpy(&e1.b[2], in.b.data(), 4);
            CheckAddr(e1, "6to4 embedding");
            MAddr e2{F_V6, Bytes(16, 0)};
            e2.b[1] = 0x64; e2.b[2] = 0xff; e2.b[3] = 0x9b; memcpy(&e2.b[12], in.b.data(), 4);
            CheckAddr(e2, "rfc6052 embedding");
            if (live && !ModelCovering(e1) && !ModelCovering(e2)) Pr(P_embedded_ipv4_not_banned);
        }
    }

    void CheckAll()
    {
        for (auto& [k, b] : bans) {
            const bool live = Live(b);
            CheckAround(k, live);
            CSubNet s = RawSub(k);
            CheckSub(k, s, "entry");
            if (IsIP(k.net)) {
                if (k.prefix < Bits(k.net)) { MKey n = k; n.prefix++; CheckSub(n, RawSub(n), "entry, prefix+1"); }
                if (k.prefix > 0) { MKey w = MakeKey(MAddr{k.net, k.netw}, k.prefix - 1); CheckSub(w, RawSub(w), "entry, prefix-1"); }
            }
        }
        for (auto& a : pool)
            if (a.net != F_INTERNAL) CheckAddr(a, "pool");
        for (auto& [a, real] : discouraged) {
            // one direction only: within the filter's capacity (50000 >> what a run inserts) nothing is forgotten
            if (!bm->IsDiscouraged(real)) ctx.failf("discouraged-forgotten", "%s was discouraged and discouragement was not cleared", AddrDbg(a).c_str());
            Pr(P_discouraged_checked);
        }
    }

    uint64_t Fingerprint()
    {
        uint64_t h = 60;
        for (auto& [k, b] : bans) {
            uint64_t kh = mix64((uint64_t)k.net * 1000 + (uint64_t)(k.prefix + 1), strhash(std::string_view((const char*)k.netw.data(), k.netw.size())));
            h = mix64(h, kh * 2 + (Live(b) ? 1 : 0));
        }
        return mix64(h, discouraged.size());
    }

    // ---- operations --------------------------------------------------------------------------
    void DoBan(const Op& op)
    {
        auto s = OpSubnet(op, 3, 4);
        if (!s) { ctx.ev("ban: n/a"); return; }
        const bool absolute = op.arg(6) & 1;
        int64_t off = std::clamp<int64_t>(op.arg(5), -1'000'000, 10'000'000);
        int64_t arg_off = absolute ? now + off : off; // an absolute ban is given as "until" = now + delta (delta may be <= 0: already expired)
        if (s->single_host_overload) bm->Ban(s->addr, arg_off, absolute);
        else bm->Ban(s->sub, arg_off, absolute);
        int64_t until;
        if (arg_off <= 0) { until = now + default_ban; Pr(P_ban_default_duration); }
        else if (absolute) { until = arg_off; Pr(P_ban_absolute); }
        else until = now + arg_off;
        auto it = bans.find(s->key);
        const char* what;
        if (it != bans.end() && Live(it->second)) {
            // contract of banman.cpp: banning again never shortens a ban that is still running
            if (it->second.until < until) { it->second.until = until; what = "extended"; Pr(P_ban_extends); }
            else { what = "kept"; Pr(P_ban_shorter_ignored); }
        } else {
            bans[s->key] = MBan{until};
            what = "new";
            Pr(P_ban_new);
            if (until <= now) Pr(P_ban_already_expired);
        }
        if (s->key.net == F_ONION) Pr(P_tor_ban);
        if (s->key.net == F_I2P) Pr(P_i2p_ban);
        if (s->key.net == F_CJDNS) Pr(P_cjdns_ban);
        ctx.evf("ban %s until %+ld %s", KeyText(s->key).c_str(), (long)(until - start), what);
    }

    void ModelUnban(const MKey& key, bool got, const char* how)
    {
        auto it = bans.find(key);
        if (it == bans.end()) {
            if (got) ctx.failf("unban-of-nothing", "Unban(%s, %s) returned true but nothing with that key was banned", KeyText(key).c_str(), how);
            Pr(P_unban_miss);
        } else if (Live(it->second)) {
            if (!got) ctx.failf("unban-failed", "Unban(%s, %s) returned false but the ban exists and is unexpired", KeyText(key).c_str(), how);
            bans.erase(it);
            Pr(P_unban_hit);
            ctx.nontrivial = true;
        } else {
            // expired: the entry may or may not have been swept already; either answer is fine
            bans.erase(it);
            Pr(P_unban_expired_entry);
        }
        ctx.evf("unban %s -> %d", KeyText(key).c_str(), (int)got);
    }

    void Restart(int mode, int k)
    {
        if (!faults_on) mode = 0;
        bool had_live = false, had_expired = false;
        for (auto& [kk, b] : bans) (Live(b) ? had_live : had_expired) = true;
        if (mode == 1) {
            // crash: the process dies without running the destructor; whatever was acknowledged is on disk already
            graveyard.push_back(std::move(bm));
            ctx.fault("crash_restart");
        } else {
            bm.reset();
        }
        const std::string file = fs::PathToString(ban_path) + ".json";
        if (mode == 2) {
            if (unlink(file.c_str()) == 0) {
                ctx.fault("banlist_deleted");
                bans.clear();
            }
        } else if (mode == 3) {
            struct stat st;
            if (stat(file.c_str(), &st) == 0 && st.st_size >= 16) {
                // a write torn by a crash: at least the last eighth of the document (hence its closing brace) is missing
                off_t keep = st.st_size * (k % 8) / 8;
                if (truncate(file.c_str(), keep) == 0) {
                    ctx.fault("banlist_torn");
                    bans.clear();
                }
            }
        }
        discouraged.clear(); // discouragement is documented as in-memory only
        Open();
        if (mode == 0) Pr(P_restart_clean);
        if (!bans.empty() && had_live) { Pr(P_restart_reloaded_bans); ctx.nontrivial = true; }
        if (!bans.empty() && had_expired) Pr(P_expired_entry_at_restart);
        ctx.evf("restart mode=%d live=%d", mode, (int)had_live);
    }

    void List()
    {
        banmap_t m;
        bm->GetBanned(m);
        size_t matched = 0;
        for (auto& [sn, e] : m) {
            if (e.nBanUntil < now) ctx.failf("expired-ban-listed", "GetBanned lists %s which expired %ld s ago", sn.ToString().c_str(), (long)(now - e.nBanUntil));
            if (e.nBanUntil == now) { Pr(P_listed_at_expiry_instant); continue; } // no longer banned, not yet swept: tolerated
            bool found = false;
            for (auto& [k, b] : bans)
                if (Live(b) && RawSub(k) == sn) {
                    found = true;
                    if (b.until != e.nBanUntil) ctx.failf("ban-expiry-mismatch", "%s listed until %+ld, reference %+ld", KeyText(k).c_str(), (long)(e.nBanUntil - start), (long)(b.until - start));
                }
            if (!found) ctx.failf("listed-without-ban", "GetBanned lists %s (until %+ld) which the reference does not have", sn.ToString().c_str(), (long)(e.nBanUntil - start));
            ++matched;
        }
        size_t live = 0;
        for (auto& [k, b] : bans) live += Live(b);
        if (matched != live) ctx.failf("ban-missing-from-list", "GetBanned lists %zu unexpired bans, reference has %zu", matched, live);
        ctx.evf("list %zu", matched);
    }

    void Run()
    {
        CheckAll();
        for (const Op& op : ctx.plan.ops) {
            switch (op.kind) {
            case BAN: DoBan(op); break;
            case UNBAN: {
                auto s = OpSubnet(op, 3, 4);
                if (!s) { ctx.ev("unban: n/a"); break; }
                bool got = s->single_host_overload ? bm->Unban(s->addr) : bm->Unban(s->sub);
                ModelUnban(s->key, got, "plan key");
                break;
            }
            case UNBAN_ENTRY: {
                if (bans.empty()) { ctx.ev("unban-entry: none"); break; }
                auto it = bans.begin();
                std::advance(it, op.mod(0, bans.size()));
                MKey key = it->first;
                bool got;
                if ((op.arg(1) & 1) && IsIP(key.net)) {
                    // same subnet named by an address with host bits set
                    MAddr a{key.net, key.netw};
                    for (int i = key.prefix; i < Bits(key.net); ++i) SetBit(a.b, i, (i * 7 + key.prefix) & 1);
                    got = bm->Unban(CSubNet(RawAddr(a), (uint8_t)key.prefix));
                } else {
                    got = bm->Unban(RawSub(key));
                }
                ModelUnban(key, got, "existing entry");
                break;
            }
            case QUERY: {
                auto av = OpAddr(op);
                if (!av) { ctx.ev("query: n/a"); break; }
                if (av->first.net == F_INTERNAL) {
                    if (bm->IsBanned(av->second)) ctx.failf("banned-without-ban", "internal address reported as banned");
                    Pr(P_internal_never_banned);
                } else {
                    CheckAddr(av->first, av->second, "plan query");
                }
                ctx.evf("query %s -> %d", AddrDbg(av->first).c_str(), (int)bm->IsBanned(av->second));
                break;
            }
            case QUERY_SUB: {
                auto s = OpSubnet(op, 3, 4);
                if (!s) { ctx.ev("query-sub: n/a"); break; }
                CheckSub(s->key, s->sub, "plan query");
                ctx.evf("query-sub %s -> %d", KeyText(s->key).c_str(), (int)bm->IsBanned(s->sub));
                break;
            }
            case DISCOURAGE: {
                auto av = OpAddr(op);
                if (!av) { ctx.ev("discourage: n/a"); break; }
                bm->Discourage(av->second);
                if (discouraged.size() < 64 && std::none_of(discouraged.begin(), discouraged.end(), [&](auto& d) { return d.first == av->first; })) discouraged.push_back(*av);
                ctx.nontrivial = true;
                ctx.evf("discourage %s", AddrDbg(av->first).c_str());
                break;
            }
            case CLEAR:
                bm->ClearBanned();
                bans.clear();
                discouraged.clear(); // the reference forgets; absence is never asserted
                Pr(P_clear_banned);
                ctx.ev("clear");
                break;
            case ADVANCE:
                now += std::clamp<int64_t>(op.arg(0), 1, 10'000'000);
                SetMockTime(std::chrono::seconds{now});
                ctx.evf("t=%+ld", (long)(now - start));
                break;
            case ADVANCE_TO_EXPIRY: {
                std::vector<int64_t> inst;
                for (auto& [k, b] : bans)
                    if (Live(b)) inst.push_back(b.until);
                std::sort(inst.begin(), inst.end());
                inst.erase(std::unique(inst.begin(), inst.end()), inst.end());
                if (!inst.empty()) {
                    int64_t d = std::clamp<int64_t>(op.arg(1), -1, 1);
                    int64_t t = inst[op.mod(0, std::min<size_t>(inst.size(), 8))] + d;
                    if (t > now) {
                        now = t;
                        SetMockTime(std::chrono::seconds{now});
                        Pr(d == 0 ? P_clock_exactly_at_expiry : d < 0 ? P_clock_one_before_expiry : P_clock_one_after_expiry);
                    }
                }
                ctx.evf("t->expiry %+ld", (long)(now - start));
                break;
            }
            case RESTART: Restart((int)op.mod(0, 4), (int)op.mod(1, 8)); break;
            case DUMP: bm->DumpBanlist(); ctx.ev("dump"); break;
            case LIST: List(); break;
            }
            // IsBanned/IsDiscouraged/Discourage do not touch the ban list: the full sweep of boundary queries follows every other operation
            if (op.kind != QUERY && op.kind != QUERY_SUB && op.kind != DISCOURAGE) CheckAll();
            ctx.fingerprint(Fingerprint());
        }
        ctx.sim_ms = (uint64_t)(now - start) * 1000;
    }
};

void Run(Ctx& ctx)
{
    Sim s(ctx);
    s.Run();
}

Engine MakeEngine()
{
    Engine e;
    e.prop = "C60";
    e.name = "compsim/banman";
    e.level = "exploration";
    e.gen = Gen;
    e.run = Run;
    e.describe = Describe;
    e.chunk = 200;
    e.quick_runs = 60000;
    e.thorough_runs = 1200000;
    e.quick_budget_s = 50;
    e.thorough_budget_s = 900;
    e.rule = "seeded histories of 8-120 BanMan operations (Ban of an address or of a subnet built by CIDR string / netmask string / constructor, relative, default or "
             "absolute duration; Unban by plan key or of an existing entry named with host bits set; IsBanned(addr), IsBanned(subnet); Discourage; ClearBanned; "
             "DumpBanlist; GetBanned; clock forward by 1..200000 s or exactly onto an expiry instant -1/0/+1 s; restart: clean, crash without destructor, "
             "banlist.json deleted, banlist.json torn) over IPv4 (dotted, ::ffff:a.b.c.d, 0:0:0:0:0:ffff:h:h), IPv6 (incl. fc00::/7, fe80::/16, ::a.b.c.d, SIIT), "
             "6to4/RFC6052/Teredo embeddings, Tor v3, I2P, CJDNS (when the per-run knob makes it reachable) and internal addresses, prefix lengths biased to byte "
             "boundaries +-1; after EVERY operation IsBanned is compared with the reference for the network address, last address, sibling subnet, first/last host bit, "
             "a pseudo-random host, the IPv4-mapped and 6to4/RFC6052 forms of every reference entry (expired ones too) and for all addresses mentioned so far, "
             "IsBanned(subnet) for every entry and its prefix+-1 neighbours, IsDiscouraged for everything discouraged since the last clear/restart. "
             "Every address/subnet of the plan is built from its text (LookupHost/LookupSubNet) and from raw bytes, must agree with the reference value, and must survive "
             "ToString->parse and (addresses) BIP155 v2 / v1 (IPv4, IPv6 only) serialisation; only these in-passing checks cover the pure round-trip clauses of C60 "
             "(no CService/port, no scoped IPv6). non-trivial = an address was reported banned, an unexpired ban was removed, a restart reloaded unexpired bans, or an "
             "address was discouraged; distinct = distinct fingerprints of the reference ban list (key set with live/expired flag, number of discouraged addresses) "
             "after an operation (first 64 per run)";
    e.real_components = {"BanMan (banman.cpp)", "CBanDB + settings JSON reader/writer on a real tmpfs file (addrdb.cpp, common/settings.cpp, univalue)",
                         "CSubNet / CNetAddr incl. Match, ToString, (un)serialisation (netaddress.cpp)", "LookupHost / LookupSubNet / MaybeFlipIPv6toCJDNS (netbase.cpp, numeric getaddrinfo)"};
    e.stub_components = {"wall clock (SetMockTime, seconds)", "process lifetime (restart = new BanMan on the same file; crash = old instance abandoned without destructor)",
                         "storage faults limited to the whole banlist.json being deleted or truncated between two process lifetimes", "no CClientUIInterface"};
    e.assumptions = {"banning a key that is still banned never shortens it (banman.cpp keeps the later expiry); the reference does the same",
                     "addresses bitcoin documents as not valid (0.0.0.0, 255.255.255.255, ::, 2001:db8::/32) are only checked in the direction 'no covering ban => not banned'",
                     "IsBanned(subnet) is documented as exact-key lookup while the statement says 'covering': exact unexpired key => true and no covering ban => false are checked, a subnet covered only by a wider ban may get either answer",
                     "GetBanned may still list an entry whose expiry equals the current second (IsBanned already says no); Unban of an expired entry may return either value",
                     "internal addresses and the IPv6 patterns reserved for Tor v2 / internal embedding are not used as ban keys (CSubNet of them is documented invalid)",
                     "discouragement is in-memory: the reference forgets it on ClearBanned and on restart and never asserts absence; at most 64 distinct addresses per run (capacity 50000)",
                     "a lost or torn banlist.json loses all bans (and nothing else); only configurations with knob faults=1 contain crash/lost/torn restarts",
                     "CJDNS addresses exist only in runs whose knob cjdns_reachable=1 (fc00::/8 text is then CJDNS, otherwise plain IPv6)",
                     "IPv6 subnets of prefix length 1..7 whose masked network address starts with fc (fd00::/7, fe80::/6, ...) are used as ban keys under cjdns_reachable=1 only in the rare runs "
                     "with knob fc_subnet_probe=1 (about 7 per full batch): their string form does not parse back (class subnet-string-roundtrip-fc-network-cjdns, a genuine defect) and "
                     "unrestricted use would end every batch early"};
    e.expected_probes = {"ban_new", "ban_extends", "ban_shorter_ignored", "ban_absolute", "ban_default_duration", "ban_already_expired", "unban_hit", "unban_miss", "unban_expired_entry",
                         "clock_exactly_at_expiry", "clock_one_before_expiry", "clock_one_after_expiry", "restart_clean", "restart_reloaded_bans", "expired_entry_at_restart",
                         "query_banned", "query_boundary_outside", "overlapping_bans", "partial_byte_prefix", "prefix_zero", "subnet_from_netmask_string", "ipv4_mapped_text_form",
                         "mapped_ipv4_query_banned", "embedded_ipv4_not_banned", "tor_ban", "i2p_ban", "cjdns_ban", "subnet_covered_by_wider_ban", "discouraged_checked",
                         "invalid_addr_query", "internal_never_banned", "listed_at_expiry_instant", "clear_banned", "fc_network_subnet_skipped", "crash_restart", "banlist_deleted", "banlist_torn"};
    return e;
}
Engine g_engine = MakeEngine();
SIM_REGISTER_ENGINE(g_engine);

} // namespace
