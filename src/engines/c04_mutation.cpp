// C04 — block transactions are bound to the header; mutations are detected, not blamed.
// nodesim: a real regtest node (ChainSim) is given generated VALID blocks ("genuine", 1-300 transactions, with and without a
// witness commitment, with 64-byte transactions, with ground txids that make the 64-byte-collapse constructible) and, in seeded
// order, malleated VARIANTS that carry the very same header: every CVE-2012-2459 duplication pattern that preserves the root,
// witnesses stripped / altered / added, coinbase witness (reserved value) damaged, transaction lists whose root differs from the
// header's, and the 64-byte collapse [H(cb)||H(t1)] of a two/four-transaction block. Variants are delivered 0-3 times before,
// between and after the genuine block through ProcessNewBlock (force_processing both ways), also headers-first, interleaved with
// an ordinary chain workload (forks, reorgs, restarts). Standalone blocks with a wrong / missing / shadowed witness commitment or a
// wrong header root are mixed in. The oracle is the property statement evaluated on the node's block index, block files, validation
// signals and IsBlockMutated / merkle functions, against RefChain's own merkle code.
#include "../core/sim.h"
#include "../nodesim/chainsim.h"

#include <blockencodings.h>
#include <chain.h>
#include <consensus/merkle.h>
#include <consensus/validation.h>
#include <hash.h>
#include <node/blockstorage.h>
#include <streams.h>
#include <util/time.h>
#include <validation.h>
#include <validationinterface.h>

#include <algorithm>
#include <optional>

using namespace sim;
using namespace nodesim;

namespace {

enum { C_CASE = 100, C_GENUINE, C_VARIANT, C_DELIVER_V, C_DELIVER_G, C_HEADER, C_STANDALONE, C_MERKLE };
enum Shape { S_MIXED = 0, S_NOWIT, S_NOWIT_NOCOMMIT, S_HAS64, S_GRIND2, S_GRIND4, S_NSHAPES, S_FANOUT = 50 };
enum VKind { V_DUP = 0, V_WIT_STRIP, V_WIT_ALTER, V_WIT_ADD, V_CB_WIT, V_ROOT, V_64, V_NKINDS };
enum StandaloneDefect { SD_NONE = 0, SD_BAD_COMMIT_BYTE, SD_OMIT_COMMIT, SD_BAD_ROOT, SD_GOOD_THEN_BAD_COMMIT, SD_BAD_THEN_GOOD_COMMIT, SD_N };

const char* kShapeNames[] = {"mixed", "no-witness", "no-witness-no-commitment", "has-64-byte-tx", "ground-for-64-byte-collapse(2)", "ground-for-64-byte-collapse(4)"};
const char* kVKindNames[] = {"duplicate-tail", "witness-stripped", "witness-altered", "witness-added", "coinbase-witness-damaged", "root-mismatch", "64-byte-collapse"};
const char* kSDNames[] = {"none", "bad-commitment-byte", "commitment-omitted", "bad-header-root", "good-then-bad-commitment", "bad-then-good-commitment"};

std::string Hx(const uint256& h) { return h.ToString().substr(0, 10); }

std::vector<uint256> Wtxids(const std::vector<CTransactionRef>& v)
{
    std::vector<uint256> r;
    r.reserve(v.size());
    for (auto& tx : v) r.push_back(tx->GetWitnessHash().ToUint256());
    return r;
}
std::vector<uint256> Txids(const std::vector<CTransactionRef>& v)
{
    std::vector<uint256> r;
    r.reserve(v.size());
    for (auto& tx : v) r.push_back(tx->GetHash().ToUint256());
    return r;
}
/** Exact equality of two transaction lists including witness data (wtxid commits to every byte). */
bool SameList(const std::vector<CTransactionRef>& a, const std::vector<CTransactionRef>& b)
{
    if (a.size() != b.size()) return false;
    for (size_t i = 0; i < a.size(); ++i)
        if (a[i]->GetWitnessHash() != b[i]->GetWitnessHash() || a[i]->GetHash() != b[i]->GetHash()) return false;
    return true;
}
int CommitPos(const CTransaction& cb)
{
    int pos = -1;
    for (size_t o = 0; o < cb.vout.size(); ++o) {
        const CScript& s = cb.vout[o].scriptPubKey;
        if (s.size() >= 38 && s[0] == OP_RETURN && s[1] == 0x24 && s[2] == 0xaa && s[3] == 0x21 && s[4] == 0xa9 && s[5] == 0xed) pos = (int)o;
    }
    return pos;
}
/** Fold a merkle branch from a leaf to the root (the verifier side of a merkle proof; own code). */
uint256 Fold(uint256 h, const std::vector<uint256>& branch, size_t pos)
{
    for (const uint256& sib : branch) {
        h = (pos & 1) ? Hash(sib, h) : Hash(h, sib);
        pos >>= 1;
    }
    return h;
}
/** Index form of the fully padded leaf list of an n-leaf tree: the list the duplication rule implicitly hashes. */
std::vector<size_t> PaddedIndex(std::vector<size_t> p)
{
    for (int k = 0; (p.size() >> k) > 1; ++k) {
        size_t count = p.size() >> k;
        if (count & 1) {
            size_t g = size_t{1} << k, sz = p.size();
            for (size_t i = 0; i < g; ++i) p.push_back(p[sz - g + i]);
        }
    }
    return p;
}
/** All lengths m > n such that the first m entries of the padded list hash to the same root as the n-entry list
 *  (= every CVE-2012-2459 duplication pattern: an explicit copy of the last node at one or several odd levels). */
std::vector<size_t> DupPatternLengths(size_t n, std::vector<size_t>& padded)
{
    std::vector<size_t> id(n);
    for (size_t i = 0; i < n; ++i) id[i] = i;
    padded = PaddedIndex(id);
    std::vector<size_t> out;
    for (size_t m = n + 1; m <= padded.size(); ++m) {
        std::vector<size_t> pre(padded.begin(), padded.begin() + m);
        if (PaddedIndex(pre) == padded) out.push_back(m);
    }
    return out;
}

bool NonValidityVerdict(BlockValidationResult r)
{
    return r == BlockValidationResult::BLOCK_MISSING_PREV || r == BlockValidationResult::BLOCK_TIME_FUTURE || r == BlockValidationResult::BLOCK_HEADER_LOW_WORK;
}

/** Records what the node says about blocks, together with the exact content it said it about. */
struct Recorder : public CValidationInterface {
    struct Ev {
        bool connected;
        uint256 hash;
        std::vector<uint256> wtxids;
        bool valid;
        BlockValidationResult result;
        std::string reason;
    };
    std::vector<Ev> evs;
    void BlockChecked(const std::shared_ptr<const CBlock>& b, const BlockValidationState& st) override
    {
        evs.push_back({false, b->GetHash(), Wtxids(b->vtx), st.IsValid(), st.GetResult(), st.GetRejectReason()});
    }
    void BlockConnected(const kernel::ChainstateRole&, const std::shared_ptr<const CBlock>& b, const CBlockIndex*) override
    {
        evs.push_back({true, b->GetHash(), Wtxids(b->vtx), true, BlockValidationResult::BLOCK_RESULT_UNSET, ""});
    }
};

struct Variant {
    int kind{0};
    std::vector<CTransactionRef> vtx;
    bool same_root{false};    //!< the header's merkle root cannot tell it from the genuine list
    bool witness_only{false}; //!< same txid list, only witness data differs
    std::string desc;
    int delivered{0};
};

struct Case {
    int idx{0}; //!< index in RefChain
    uint256 hash;
    CBlockHeader header;
    std::vector<CTransactionRef> vtx;
    std::vector<uint256> wtxids;
    bool has_commit{false};
    std::vector<CTransactionRef> alt64; //!< the 64-byte-collapsed list (empty unless ground)
    std::vector<Variant> variants;
    int g_deliv{0}, v_deliv{0}, v_before_first_g{0};
    bool seen_active_after_variant{false};
};

int64_t PickNtx(Rng& rng, int64_t max_ntx)
{
    static const int kInteresting[] = {1, 2, 3, 4, 5, 6, 7, 8, 9, 10, 11, 12, 13, 15, 16, 17, 21, 23, 24, 25, 31, 32, 33, 47, 48, 49, 60, 63, 64, 65, 96, 97, 127, 128, 129, 191, 193, 255, 256, 257, 300};
    if (rng.chance(1, 2)) {
        size_t n = 0;
        while (n < std::size(kInteresting) && kInteresting[n] <= max_ntx) ++n;
        return kInteresting[rng.below(n)];
    }
    return rng.chance(1, 2) ? rng.skewed(1, max_ntx) : rng.range(1, max_ntx);
}

Plan Gen(uint64_t seed, Tier tier)
{
    Rng rng(seed);
    Plan p;
    p.knobs["base"] = rng.range(101, 105);
    p.knobs["on_disk"] = rng.chance(1, 6);
    p.knobs["coins_cache_kb"] = 8192;
    p.knobs["batch_bytes"] = 16 << 20;
    const int64_t max_ntx = tier == Tier::THOROUGH ? (rng.chance(1, 3) ? 300 : 100) : (rng.chance(1, 8) ? 130 : 60);
    p.knobs["max_ntx"] = max_ntx;
    std::vector<uint32_t> w(C_MERKLE + 1, 0);
    w[C_CASE] = 30 + rng.below(30);
    w[C_GENUINE] = rng.below(8);
    w[C_VARIANT] = rng.below(10);
    w[C_DELIVER_V] = rng.below(16);
    w[C_DELIVER_G] = rng.below(10);
    w[C_HEADER] = rng.below(5);
    w[C_STANDALONE] = 2 + rng.below(8);
    w[C_MERKLE] = 6 + rng.below(12);
    w[OP_MINE] = 3 + rng.below(10);
    w[OP_DELIVER] = rng.below(6);
    w[OP_HEADER] = rng.below(3);
    w[OP_REORG] = rng.below(5);
    w[OP_CLOCK] = rng.below(2);
    w[OP_FLUSH] = rng.below(2);
    w[OP_RESTART] = p.knobs["on_disk"] ? 1 + rng.below(3) : 0;
    // swarm: which variant kinds / shapes dominate this run
    std::vector<uint32_t> vk(V_NKINDS), sh(S_NSHAPES);
    for (auto& x : vk) x = 1 + (rng.chance(1, 3) ? 0 : rng.below(10));
    sh[S_MIXED] = 10 + rng.below(10);
    sh[S_NOWIT] = rng.below(4);
    sh[S_NOWIT_NOCOMMIT] = rng.below(5);
    sh[S_HAS64] = rng.below(4);
    sh[S_GRIND2] = rng.chance(1, 3) ? 1 + rng.below(2) : 0;
    sh[S_GRIND4] = rng.chance(1, 8) ? 1 : 0;
    int grinds = 0;
    const int nops = (int)rng.range(8, tier == Tier::THOROUGH ? 36 : 22);
    for (int i = 0; i < nops; ++i) {
        Op op;
        op.kind = (int)rng.pick(w);
        switch (op.kind) {
        case C_CASE: {
            int shape = (int)rng.pick(sh);
            if ((shape == S_GRIND2 || shape == S_GRIND4) && ++grinds > 2) shape = S_MIXED;
            int vkind = (shape == S_GRIND2 || shape == S_GRIND4) && rng.chance(3, 4) ? V_64 : (int)rng.pick(vk);
            int pm = (int)rng.pick({70, 20, 10});
            // parent(mode,arg), ntx, txseed, shape, vkind, varg, vseed, header_first, n_before, n_between, n_after, genuine mask, force mask
            op.a = {pm, (int64_t)rng.below(1000), PickNtx(rng, max_ntx), (int64_t)(rng.next() >> 16), shape, vkind, (int64_t)rng.below(100000), (int64_t)(rng.next() >> 16),
                    (int64_t)rng.chance(1, 4), (int64_t)rng.pick({15, 45, 25, 15}), (int64_t)rng.pick({35, 40, 15, 10}), (int64_t)rng.pick({45, 35, 12, 8}),
                    (int64_t)(rng.chance(9, 10) ? (rng.chance(1, 3) ? 3 : 1) : (rng.chance(1, 2) ? 2 : 0)), (int64_t)(rng.chance(3, 5) ? 0x3f : rng.below(64))};
            break;
        }
        case C_GENUINE: {
            int shape = (int)rng.pick(sh);
            if ((shape == S_GRIND2 || shape == S_GRIND4) && ++grinds > 2) shape = S_MIXED;
            op.a = {(int64_t)rng.pick({60, 25, 15}), (int64_t)rng.below(1000), PickNtx(rng, max_ntx), (int64_t)(rng.next() >> 16), shape};
            break;
        }
        case C_VARIANT: op.a = {(int64_t)rng.below(1000), (int64_t)rng.pick(vk), (int64_t)rng.below(100000), (int64_t)(rng.next() >> 16)}; break;
        case C_DELIVER_V: op.a = {(int64_t)rng.below(1000), (int64_t)rng.below(1000), (int64_t)rng.chance(2, 3), (int64_t)rng.pick({0, 70, 20, 10})}; break;
        case C_DELIVER_G: op.a = {(int64_t)rng.below(1000), (int64_t)rng.chance(3, 4), (int64_t)rng.pick({0, 80, 20})}; break;
        case C_HEADER: op.a = {(int64_t)rng.below(1000)}; break;
        case C_STANDALONE:
            op.a = {(int64_t)rng.pick({70, 20, 10}), (int64_t)rng.below(1000), rng.range(2, std::min<int64_t>(max_ntx, 12)), (int64_t)(rng.next() >> 16), rng.range(1, SD_N - 1), (int64_t)rng.below(256),
                    (int64_t)rng.chance(3, 4), (int64_t)rng.range(1, 2)};
            break;
        case C_MERKLE: op.a = {PickNtx(rng, tier == Tier::THOROUGH ? 600 : 300), (int64_t)(rng.next() >> 16), (int64_t)rng.below(5)}; break;
        case OP_MINE: {
            bool fork = rng.chance(25, 100);
            int defect = rng.chance(35, 100) ? (int)std::vector<int>{D_BAD_MERKLE, D_BAD_COMMITMENT, D_STRIP_WITNESS, D_BAD_SIG, D_BAD_POW}[rng.below(5)] : D_NONE;
            op.a = {fork ? 1 : 0, (int64_t)(fork ? rng.below(1000) : rng.skewed(0, 3)), (int64_t)rng.range(0, 5), (int64_t)(rng.next() >> 16), defect, 0, (int64_t)rng.below(3), rng.chance(70, 100) ? 1 : (rng.chance(1, 2) ? 2 : 0)};
            break;
        }
        case OP_DELIVER: op.a = {(int64_t)rng.below(2), (int64_t)rng.below(1000), (int64_t)(rng.chance(3, 4) ? 1 : 0), (int64_t)rng.range(1, 2)}; break;
        case OP_HEADER: op.a = {(int64_t)rng.below(2), (int64_t)rng.below(1000)}; break;
        case OP_REORG: op.a = {(int64_t)rng.skewed(1, 4), (int64_t)rng.range(1, 2), (int64_t)rng.range(0, 3), (int64_t)(rng.next() >> 16), (int64_t)rng.below(3)}; break;
        case OP_CLOCK: op.a = {(int64_t)rng.skewed(1, 7200)}; break;
        case OP_FLUSH: op.a = {(int64_t)rng.below(4)}; break;
        case OP_RESTART: break;
        default: op.kind = C_MERKLE; op.a = {PickNtx(rng, 300), (int64_t)(rng.next() >> 16), (int64_t)rng.below(5)}; break;
        }
        p.ops.push_back(op);
    }
    return p;
}

std::string Describe(const Op& op)
{
    char b[400];
    static const char* pm[] = {"tip", "recent", "any"};
    switch (op.kind) {
    case C_CASE:
        snprintf(b, sizeof b, "case(parent=%s#%ld, ntx=%ld, txseed=%ld, shape=%s, variant=%s#%ld, header_first=%ld, variant x%ld before / x%ld between / x%ld after, genuine deliveries mask=%ld, force mask=0x%lx)",
                 pm[op.mod(0, 3)], (long)op.arg(1), (long)op.arg(2), (long)op.arg(3), kShapeNames[op.mod(4, S_NSHAPES)], kVKindNames[op.mod(5, V_NKINDS)], (long)op.arg(6), (long)(op.arg(8) & 1),
                 (long)op.mod(9, 4), (long)op.mod(10, 4), (long)op.mod(11, 4), (long)op.mod(12, 4), (long)op.arg(13));
        break;
    case C_GENUINE: snprintf(b, sizeof b, "new_genuine(parent=%s#%ld, ntx=%ld, txseed=%ld, shape=%s) [withheld]", pm[op.mod(0, 3)], (long)op.arg(1), (long)op.arg(2), (long)op.arg(3), kShapeNames[op.mod(4, S_NSHAPES)]); break;
    case C_VARIANT: snprintf(b, sizeof b, "new_variant(case#%ld, kind=%s#%ld)", (long)op.arg(0), kVKindNames[op.mod(1, V_NKINDS)], (long)op.arg(2)); break;
    case C_DELIVER_V: snprintf(b, sizeof b, "FAULT deliver_variant(case#%ld, variant#%ld, force_processing=%ld, times=%ld)", (long)op.arg(0), (long)op.arg(1), (long)(op.arg(2) & 1), (long)op.arg(3)); break;
    case C_DELIVER_G: snprintf(b, sizeof b, "deliver_genuine(case#%ld, force_processing=%ld, times=%ld)", (long)op.arg(0), (long)(op.arg(1) & 1), (long)op.arg(2)); break;
    case C_HEADER: snprintf(b, sizeof b, "deliver_header(case#%ld)", (long)op.arg(0)); break;
    case C_STANDALONE:
        snprintf(b, sizeof b, "standalone(parent=%s#%ld, ntx=%ld, txseed=%ld, defect=%s#%ld, force_processing=%ld, times=%ld)", pm[op.mod(0, 3)], (long)op.arg(1), (long)op.arg(2), (long)op.arg(3),
                 kSDNames[op.mod(4, SD_N)], (long)op.arg(5), (long)(op.arg(6) & 1), (long)op.arg(7));
        break;
    case C_MERKLE: snprintf(b, sizeof b, "merkle_check(n=%ld, seed=%ld, dup_mode=%ld)", (long)op.arg(0), (long)op.arg(1), (long)op.mod(2, 5)); break;
    default: return DescribeChainOp(op);
    }
    return b;
}

struct Sim {
    Ctx& ctx;
    ChainSim cs;
    std::shared_ptr<Recorder> rec;
    std::vector<Case> cases;
    std::map<uint256, int> case_of;
    uint32_t my_nonce{0};
    int max_ntx;

    explicit Sim(Ctx& c) : ctx(c), cs(c, ChainSimConfig{}), rec(std::make_shared<Recorder>()), max_ntx((int)std::clamp<int64_t>(c.knob("max_ntx", 60), 1, 1000)) {}

    SimNode& node() { return *cs.node; }
    RefChain& ref() { return *cs.ref; }

    void CheckFatal()
    {
        if (node().Fatal())
            ctx.failf("node-fatal-error", "%s", node().notifications->fatal_errors.empty() ? node().notifications->flush_errors[0].c_str() : node().notifications->fatal_errors[0].c_str());
    }

    int SelectParent(const Op& op, size_t mode_arg, size_t idx_arg)
    {
        int n = (int)ref().blocks.size();
        int tip = cs.TipIdx();
        int mode = (int)op.mod(mode_arg, 3);
        int parent = tip;
        if (mode == 1) parent = n - 1 - (int)op.mod(idx_arg, std::min(n, 6));
        else if (mode == 2) parent = (int)op.mod(idx_arg, n);
        if (parent < 0 || ref().blocks[parent].verdict != Verdict::VALID) parent = tip;
        return parent;
    }

    // ------------------------------------------------------------------------------------------------------------
    // generator: one block on a valid parent; registers it with the model; returns its RefChain index (or -1)
    struct Cand {
        COutPoint op;
        RefCoin coin;
        SK kind;
    };

    /** Grind nLockTime of a signature-less transaction until its txid satisfies `pred`. */
    template <typename Pred>
    bool GrindTxid(CMutableTransaction& m, uint32_t limit, Pred pred)
    {
        for (uint32_t i = 0; i < limit; ++i) {
            m.nLockTime = i;
            uint256 h = m.GetHash().ToUint256();
            if (pred(h.begin())) return true;
        }
        return false;
    }
    static bool LeftHalfOk(const unsigned char* a) { return a[4] == 1; } // vin count of the 64-byte reading
    static bool RightHalfOk(const unsigned char* b)
    {
        unsigned s = b[9]; // scriptSig length of the 64-byte reading (byte 41)
        if (s == 13 && b[27] == 0) return true;                   // 13-byte scriptSig, zero outputs
        if (s <= 4 && b[14 + s] == 1 && b[23 + s] == 4 - s) return true; // s-byte scriptSig, one output with a (4-s)-byte script
        return false;
    }
    /** Read 64 bytes (two txids) as a transaction; succeeds only if they are exactly one serialized transaction. */
    static CTransactionRef Parse64(const uint256& a, const uint256& b)
    {
        std::vector<unsigned char> raw(a.begin(), a.end());
        raw.insert(raw.end(), b.begin(), b.end());
        try {
            DataStream ds{std::span<const uint8_t>(raw)};
            CMutableTransaction m;
            ds >> TX_WITH_WITNESS(m);
            if (!ds.empty()) return nullptr;
            CTransactionRef tx = MakeTransactionRef(m);
            if (GetSerializeSize(TX_NO_WITNESS(*tx)) != 64 || tx->HasWitness()) return nullptr;
            if (tx->GetHash().ToUint256() != Hash(a, b)) return nullptr;
            return tx;
        } catch (const std::exception&) {
            return nullptr;
        }
    }

    int Build(int parent, int ntx, uint64_t seed, int shape, int defect, int defect_arg)
    {
        if (parent < 0 || parent >= (int)ref().blocks.size() || ref().blocks[parent].verdict != Verdict::VALID) return -1;
        const Consensus::Params& cp = node().params->GetConsensus();
        const Keyring& kr = Keys();
        const uint256 prev_hash = ref().blocks[parent].hash;
        const int height = ref().blocks[parent].height + 1;
        const int64_t mtp = ref().MTP(parent);
        const int64_t ptime = ref().blocks[parent].time;
        std::shared_ptr<const RefUtxo> putxo = ref().blocks[parent].utxo;
        Rng r(mix64(seed, 0xc04b10c));
        int64_t time = std::max<int64_t>(mtp + 1, ptime + r.range(1, 600));
        if (time > cs.now) { cs.now = time; SetMockTime(std::chrono::seconds{cs.now}); }
        ntx = std::clamp(ntx, 1, max_ntx);

        std::vector<Cand> cands;
        for (auto& [op, c] : *putxo) {
            SK k = kr.Classify(c.spk).kind;
            if ((int)k >= (int)SK::NKINDS) continue;
            if (c.coinbase && height - c.height < ref().maturity) continue;
            cands.push_back({op, c, k});
        }
        const bool nowit = shape == S_NOWIT || shape == S_NOWIT_NOCOMMIT;
        auto kind_ok = [&](SK k) { return !nowit || k == SK::TRUE_BARE || k == SK::P2PKH; };
        auto nosig = [](SK k) { return k == SK::TRUE_WSH || k == SK::TRUE_BARE; };
        auto out_kind = [&]() -> SK {
            if (nowit) return r.coin() ? SK::TRUE_BARE : SK::P2PKH;
            return (SK)r.below((int)SK::NKINDS);
        };
        std::vector<CTransactionRef> txs;
        CAmount fees = 0;
        bool scripts_ok = true;
        auto spend = [&](const Cand& c, const std::vector<CTxOut>& outs, uint32_t seq, uint32_t version) {
            bool ok = true;
            CTransactionRef tx = BuildTx({TxIn{c.op, c.coin, seq}}, outs, 0, version, SigDefect::NONE, 0, ok);
            if (!ok) scripts_ok = false;
            CAmount o = 0;
            for (auto& x : outs) o += x.nValue;
            fees += c.coin.value - o;
            return tx;
        };
        auto take_if = [&](auto pred) -> std::optional<Cand> {
            std::vector<size_t> ok;
            for (size_t i = 0; i < cands.size(); ++i)
                if (pred(cands[i])) ok.push_back(i);
            if (ok.empty()) return std::nullopt;
            size_t i = ok[r.below(ok.size())];
            Cand c = cands[i];
            cands.erase(cands.begin() + i);
            return c;
        };
        auto track = [&](const CTransactionRef& tx) {
            for (size_t o = 0; o < tx->vout.size(); ++o) {
                SK k = kr.Classify(tx->vout[o].scriptPubKey).kind;
                if ((int)k < (int)SK::NKINDS) cands.push_back({COutPoint(tx->GetHash(), (uint32_t)o), RefCoin{tx->vout[o].nValue, tx->vout[o].scriptPubKey, height, false}, k});
            }
        };

        std::vector<CMutableTransaction> ground; // S_GRIND*: t1 [, t2, t3]
        if (shape == S_GRIND2 || shape == S_GRIND4) {
            size_t need = shape == S_GRIND2 ? 1 : 3;
            std::vector<Cand> cs_;
            for (size_t i = 0; i < need; ++i) {
                auto c = take_if([&](const Cand& k) { return nosig(k.kind); });
                if (!c) break;
                cs_.push_back(*c);
            }
            if (cs_.size() < need) {
                for (auto& c : cs_) cands.push_back(c);
                shape = S_MIXED;
                ctx.probe("grind64_no_signatureless_coin");
            } else {
                for (auto& c : cs_) {
                    CAmount fee = std::min<CAmount>(c.coin.value, 500);
                    CTransactionRef tx = spend(c, {CTxOut(c.coin.value - fee, kr.Spk(out_kind(), (int)r.below(N_KEYS)))}, 0xffffffff, 2);
                    ground.emplace_back(*tx);
                }
                bool ok = true;
                for (size_t i = 0; i < ground.size() && ok; ++i) ok = (i == 1) ? GrindTxid(ground[i], 100000, LeftHalfOk) : GrindTxid(ground[i], 3000000, RightHalfOk);
                if (!ok) ctx.probe("grind64_exhausted");
                for (auto& m : ground) txs.push_back(MakeTransactionRef(m));
                ntx = (int)txs.size() + 1;
            }
        }
        if (shape == S_FANOUT) {
            if (auto c = take_if([](const Cand&) { return true; })) {
                std::vector<CTxOut> outs;
                const int n = 4 * (int)SK::NKINDS;
                CAmount each = (c->coin.value - 10000) / n;
                for (int i = 0; i < n; ++i) outs.emplace_back(each, kr.Spk((SK)(i % (int)SK::NKINDS), i / (int)SK::NKINDS));
                txs.push_back(spend(*c, outs, 0xffffffff, 2));
            }
        } else if (shape != S_GRIND2 && shape != S_GRIND4) {
            bool want_witness_first = defect == SD_OMIT_COMMIT || defect == SD_BAD_COMMIT_BYTE || r.chance(1, 2);
            for (int t = 1; t < ntx; ++t) {
                std::optional<Cand> c;
                if (t == 1 && want_witness_first && !nowit) c = take_if([&](const Cand& k) { return k.kind != SK::TRUE_BARE && k.kind != SK::P2PKH; });
                if (!c) c = take_if([&](const Cand& k) { return kind_ok(k.kind); });
                if (!c) break;
                int nout = (int)r.pick({60, 30, 10}) + 1;
                CAmount left = c->coin.value - (CAmount)r.below((uint64_t)std::min<CAmount>(c->coin.value, 1000) + 1);
                std::vector<CTxOut> outs;
                for (int o = 0; o < nout; ++o) {
                    CAmount v = o + 1 == nout ? left : (CAmount)r.below((uint64_t)left + 1);
                    left -= v;
                    outs.emplace_back(v, kr.Spk(out_kind(), (int)r.below(N_KEYS)));
                }
                CTransactionRef tx = spend(*c, outs, r.coin() ? 0xffffffffu : 0xfffffffeu, r.coin() ? 1 : 2);
                txs.push_back(tx);
                track(tx);
            }
            if (shape == S_HAS64) {
                if (auto c = take_if([&](const Cand& k) { return k.kind == SK::TRUE_WSH || k.kind == SK::P2WPKH || k.kind == SK::P2TR; })) {
                    CTransactionRef tx = spend(*c, {CTxOut(0, kr.Spk(SK::OPRETURN, (int)r.below(4)))}, 0xffffffff, 2);
                    if (GetSerializeSize(TX_NO_WITNESS(*tx)) == 64) ctx.probe("genuine_has_64byte_tx");
                    txs.push_back(tx);
                }
            }
        }
        CAmount cb_value = RefSubsidy(height, ref().halving_interval) + fees;
        if (r.chance(1, 4)) cb_value -= (CAmount)r.below((uint64_t)std::min<CAmount>(cb_value, 5000) + 1);
        BlockExtras ex;
        ex.coinbase_spk = kr.Spk((SK)r.below((int)SK::NKINDS), (int)r.below(N_KEYS));
        ex.omit_witness_commitment = shape == S_NOWIT_NOCOMMIT || defect == SD_OMIT_COMMIT;
        ex.bad_merkle = defect == SD_BAD_ROOT;
        std::shared_ptr<CBlock> block;
        for (int tries = 0; tries < 6000; ++tries) {
            ex.cb_extranonce = 0x40000000u + (++my_nonce);
            block = BuildBlock(prev_hash, height, time, txs, cb_value, ex, cp);
            if (ground.empty() || LeftHalfOk(block->vtx[0]->GetHash().ToUint256().begin())) break;
        }
        // standalone defects that edit the finished coinbase
        if (defect == SD_BAD_COMMIT_BYTE || defect == SD_GOOD_THEN_BAD_COMMIT || defect == SD_BAD_THEN_GOOD_COMMIT) {
            CMutableTransaction cb(*block->vtx[0]);
            int cpos = CommitPos(*block->vtx[0]);
            if (cpos >= 0) {
                if (defect == SD_BAD_COMMIT_BYTE) {
                    cb.vout[cpos].scriptPubKey[6 + (defect_arg & 31)] ^= (unsigned char)(1u << ((defect_arg >> 5) & 7));
                } else {
                    CTxOut bad = cb.vout[cpos];
                    bad.scriptPubKey[6 + (defect_arg & 31)] ^= 0x40;
                    if (defect == SD_GOOD_THEN_BAD_COMMIT) cb.vout.push_back(bad);
                    else cb.vout.insert(cb.vout.begin() + cpos, bad);
                }
                block->vtx[0] = MakeTransactionRef(cb);
                block->hashMerkleRoot = RefBlockMerkleRoot(*block);
                Grind(*block, cp);
            }
        }
        BlockLabel label;
        label.scripts_ok = scripts_ok;
        label.defect = defect == SD_NONE ? "none" : kSDNames[defect];
        int idx = ref().Add(block, parent, label);
        cs.delivered.push_back(0);
        cs.header_given.push_back(0);
        const RefBlock& B = ref().blocks[idx];
        ctx.evf("build #%d h=%d on #%d %s txs=%zu shape=%d defect=%s verdict=%d(%s)", idx, height, parent, Hx(B.hash).c_str(), block->vtx.size(), shape, label.defect.c_str(), (int)B.verdict, B.reason.c_str());
        if (defect != SD_NONE || shape == S_FANOUT) {
            if (B.verdict == Verdict::MUTATED) ctx.probe("standalone_mutated_block");
            if (defect == SD_BAD_THEN_GOOD_COMMIT && B.verdict == Verdict::VALID) ctx.probe("standalone_last_commitment_wins_valid");
            return idx;
        }
        if (B.verdict != Verdict::VALID) {
            ctx.probe("generated_block_not_valid_in_model");
            return idx;
        }
        Case c;
        c.idx = idx;
        c.hash = B.hash;
        c.header = static_cast<const CBlockHeader&>(*block);
        c.vtx = block->vtx;
        c.wtxids = Wtxids(c.vtx);
        c.has_commit = CommitPos(*block->vtx[0]) >= 0;
        if (!ground.empty()) {
            std::vector<uint256> ids = Txids(c.vtx);
            std::vector<CTransactionRef> alt;
            for (size_t i = 0; i + 1 < ids.size(); i += 2) {
                CTransactionRef x = Parse64(ids[i], ids[i + 1]);
                if (!x) { alt.clear(); break; }
                alt.push_back(x);
            }
            if (!alt.empty() && RefMerkleRoot(Txids(alt)) == c.header.hashMerkleRoot) {
                c.alt64 = alt;
                ctx.probe("collapse64_constructed");
            }
        }
        case_of[c.hash] = (int)cases.size();
        cases.push_back(std::move(c));
        ctx.probe("genuine_built");
        CheckGenuineFunctions(cases.back(), r);
        return idx;
    }

    /** Pure-function clauses on a genuine block: IsBlockMutated, roots, paths (pos 0 = what BlockTemplate::getCoinbaseMerklePath returns). */
    void CheckGenuineFunctions(const Case& c, Rng& r)
    {
        CBlock b(c.header);
        b.vtx = c.vtx;
        if (IsBlockMutated(b, /*check_witness_root=*/true))
            ctx.failf("genuine-block-reported-mutated", "IsBlockMutated() is true for the unmodified valid block #%d (%zu txs)", c.idx, c.vtx.size());
        CBlock b2(c.header);
        b2.vtx = c.vtx;
        bool mut = true;
        uint256 root = BlockMerkleRoot(b2, &mut);
        std::vector<uint256> ids = Txids(c.vtx);
        if (root != RefMerkleRoot(ids) || root != c.header.hashMerkleRoot) ctx.failf("merkle-root-differs-from-reference", "BlockMerkleRoot of block #%d (%zu txs)", c.idx, ids.size());
        if (mut) ctx.failf("merkle-mutated-flag-on-distinct-list", "BlockMerkleRoot flags block #%d (%zu distinct txs) as mutated", c.idx, ids.size());
        if (BlockWitnessMerkleRoot(b2) != RefWitnessMerkleRoot(b2)) ctx.failf("witness-root-differs-from-reference", "BlockWitnessMerkleRoot of block #%d (%zu txs)", c.idx, ids.size());
        for (int k = 0; k < 3; ++k) {
            size_t pos = k == 0 ? 0 : k == 1 ? ids.size() - 1 : r.below(ids.size());
            std::vector<uint256> path = TransactionMerklePath(b2, (uint32_t)pos);
            if (path != RefMerkleBranch(ids, pos)) ctx.failf("merkle-path-differs-from-reference", "TransactionMerklePath(block #%d with %zu txs, position %zu)", c.idx, ids.size(), pos);
            if (Fold(ids[pos], path, pos) != root) ctx.failf("merkle-path-does-not-prove-root", "TransactionMerklePath(block #%d with %zu txs, position %zu) does not fold to the root", c.idx, ids.size(), pos);
        }
        ctx.probe("coinbase_merkle_path_checked");
    }

    // ------------------------------------------------------------------------------------------------------------
    // variants: same header, different transaction list / witness data
    std::optional<Variant> TryVariant(const Case& c, int kind, uint64_t arg, uint64_t seed)
    {
        Rng r(mix64(seed, 0x7a51a + kind));
        Variant v;
        v.kind = kind;
        v.vtx = c.vtx;
        const size_t n = c.vtx.size();
        char d[160];
        auto with_witness = [&](bool include_cb) {
            std::vector<size_t> l;
            for (size_t i = include_cb ? 0 : 1; i < n; ++i)
                if (c.vtx[i]->HasWitness()) l.push_back(i);
            return l;
        };
        switch (kind) {
        case V_DUP: {
            std::vector<size_t> padded;
            std::vector<size_t> lens = DupPatternLengths(n, padded);
            if (lens.empty()) return std::nullopt;
            size_t m = lens[arg % lens.size()];
            v.vtx.clear();
            for (size_t i = 0; i < m; ++i) v.vtx.push_back(c.vtx[padded[i]]);
            // level of the highest explicit duplication
            int top = 0;
            for (int k = 0; (size_t{1} << k) < m - n + 1; ++k) top = k + 1;
            if (lens.size() > 1) ctx.probe("dup_several_patterns_available");
            if (m - n > 1) ctx.probe("dup_above_leaf_level");
            snprintf(d, sizeof d, "duplicate-tail n=%zu -> m=%zu (pattern %zu of %zu, copies up to level %d)", n, m, arg % lens.size() + 1, lens.size(), top);
            break;
        }
        case V_WIT_STRIP: {
            auto l = with_witness(false);
            if (l.empty()) return std::nullopt;
            size_t i = l[arg % l.size()];
            CMutableTransaction m(*c.vtx[i]);
            bool all = r.coin();
            bool done = false;
            for (auto& in : m.vin)
                if (!in.scriptWitness.IsNull() && (all || !done)) { in.scriptWitness.SetNull(); done = true; }
            v.vtx[i] = MakeTransactionRef(m);
            snprintf(d, sizeof d, "witness stripped from tx %zu of %zu (%s)", i, n, all ? "all inputs" : "one input");
            break;
        }
        case V_WIT_ALTER: {
            auto l = with_witness(false);
            if (l.empty()) return std::nullopt;
            size_t i = l[arg % l.size()];
            CMutableTransaction m(*c.vtx[i]);
            std::vector<size_t> ins;
            for (size_t k = 0; k < m.vin.size(); ++k)
                if (!m.vin[k].scriptWitness.IsNull()) ins.push_back(k);
            auto& st = m.vin[ins[r.below(ins.size())]].scriptWitness.stack;
            int mode = (int)r.below(3);
            if (mode == 0) {
                auto& item = st[r.below(st.size())];
                if (item.empty()) item.push_back(0x01);
                else item[r.below(item.size())] ^= (unsigned char)(1u << r.below(8));
            } else if (mode == 1) {
                st.push_back({0x00});
            } else {
                st.pop_back();
                if (st.empty()) st.push_back({});
            }
            v.vtx[i] = MakeTransactionRef(m);
            snprintf(d, sizeof d, "witness of tx %zu of %zu altered (mode %d)", i, n, mode);
            break;
        }
        case V_WIT_ADD: {
            std::vector<std::pair<size_t, size_t>> slots;
            for (size_t i = 1; i < n; ++i)
                for (size_t k = 0; k < c.vtx[i]->vin.size(); ++k)
                    if (c.vtx[i]->vin[k].scriptWitness.IsNull()) slots.push_back({i, k});
            if (slots.empty()) return std::nullopt;
            auto [i, k] = slots[arg % slots.size()];
            CMutableTransaction m(*c.vtx[i]);
            m.vin[k].scriptWitness.stack = {{0x01}};
            v.vtx[i] = MakeTransactionRef(m);
            snprintf(d, sizeof d, "witness added to input %zu of non-witness tx %zu of %zu (block %s commitment)", k, i, n, c.has_commit ? "with" : "without");
            break;
        }
        case V_CB_WIT: {
            CMutableTransaction m(*c.vtx[0]);
            auto& st = m.vin[0].scriptWitness.stack;
            int mode = (int)(arg % 5);
            if (st.empty()) {
                st = {std::vector<unsigned char>(32, 0)};
                mode = 9;
            } else if (mode == 4) {
                // one huge element: the variant is also far above the block weight limit (a failed weight check is a CONSENSUS verdict
                // that sticks to the header, a failed commitment check is a MUTATED verdict that does not)
                st = {std::vector<unsigned char>(4000000 + r.below(2000), 0x11)};
                if (r.coin()) st.insert(st.begin(), std::vector<unsigned char>(32, 0));
                ctx.probe("variant_coinbase_witness_over_weight");
            } else if (mode == 0) st.clear();
            else if (mode == 1) st[0].pop_back();
            else if (mode == 2) st.push_back(std::vector<unsigned char>(32, 0));
            else st[0][r.below(32)] ^= (unsigned char)(1u << r.below(8));
            v.vtx[0] = MakeTransactionRef(m);
            snprintf(d, sizeof d, "coinbase witness damaged (mode %d: 0 removed, 1 31-byte value, 2 two items, 3 value changed, 4 multi-megabyte item, 9 added to a block without commitment)", mode);
            break;
        }
        case V_ROOT: {
            int mode = (int)(arg % 4);
            if (mode == 0 && n >= 2) v.vtx.pop_back();
            else if (mode == 1 && n >= 3) std::swap(v.vtx[1 + r.below(n - 1)], v.vtx[1 + r.below(n - 1)]);
            else if (mode == 2) v.vtx.push_back(c.vtx[r.below(n)]);
            else v.vtx.back() = ref().blocks[ref().blocks[c.idx].parent].block->vtx[0];
            snprintf(d, sizeof d, "transaction list edited so that the root should differ (mode %d, n=%zu)", mode, n);
            break;
        }
        case V_64: {
            if (c.alt64.empty()) return std::nullopt;
            v.vtx = c.alt64;
            bool with_wit = false;
            if (arg & 1) {
                // the same 64-byte (stripped) transactions, each carrying witness data where it has an input: txids unchanged
                for (auto& t : v.vtx) {
                    if (t->vin.empty()) continue;
                    CMutableTransaction m(*t);
                    m.vin[0].scriptWitness.stack = {{0x01}};
                    t = MakeTransactionRef(m);
                    with_wit = true;
                }
                if (with_wit) ctx.probe("variant_64byte_collapse_with_witness");
            }
            snprintf(d, sizeof d, "64-byte collapse: %zu txs read as %zu 64-byte transactions%s", n, c.alt64.size(), with_wit ? " carrying witness data" : "");
            break;
        }
        default: return std::nullopt;
        }
        if (SameList(v.vtx, c.vtx)) return std::nullopt;
        v.same_root = RefMerkleRoot(Txids(v.vtx)) == c.header.hashMerkleRoot;
        v.witness_only = Txids(v.vtx) == Txids(c.vtx);
        v.desc = d;
        return v;
    }

    int NewVariant(int ci, int kind, uint64_t arg, uint64_t seed)
    {
        Case& c = cases[ci];
        std::optional<Variant> v;
        for (int t = 0; t < V_NKINDS && !v; ++t) v = TryVariant(c, (kind + t) % V_NKINDS, arg, seed);
        if (!v) return -1;
        static const char* kProbe[] = {"variant_duplicate_tail", "variant_witness_stripped", "variant_witness_altered", "variant_witness_added", "variant_coinbase_witness", "variant_root_mismatch", "variant_64byte_collapse"};
        ctx.probe(kProbe[v->kind]);
        ctx.evf("variant c%d v%zu kind=%d same_root=%d witness_only=%d: %s", ci, c.variants.size(), v->kind, v->same_root, v->witness_only, v->desc.c_str());
        // "reported as mutated": the function the P2P layer and compact-block reconstruction consult
        {
            CBlock vb(c.header);
            vb.vtx = v->vtx;
            if (!IsBlockMutated(vb, /*check_witness_root=*/true))
                ctx.failf("variant-not-reported-mutated", "IsBlockMutated() is false for a variant of block #%d with the same header: %s", c.idx, v->desc.c_str());
            CBlock vb2(c.header);
            vb2.vtx = v->vtx;
            bool mut = false;
            uint256 root = BlockMerkleRoot(vb2, &mut);
            if (root != RefMerkleRoot(Txids(v->vtx))) ctx.failf("merkle-root-differs-from-reference", "BlockMerkleRoot of a variant of block #%d: %s", c.idx, v->desc.c_str());
            if (v->kind == V_DUP && v->same_root && !mut) ctx.failf("merkle-duplicate-not-flagged", "BlockMerkleRoot does not flag %s (same root as the genuine list)", v->desc.c_str());
            // compact-block reconstruction (blockencodings.cpp) must not hand out the variant as a healthy block
            CBlock vb3(c.header);
            vb3.vtx = v->vtx;
            CBlockHeaderAndShortTxIDs cmpct(vb3, /*nonce=*/mix64(seed, 0xc0b));
            PartiallyDownloadedBlock pdb(node().mempool.get());
            if (pdb.InitData(cmpct, {}) == READ_STATUS_OK) {
                std::vector<CTransactionRef> missing;
                for (size_t i = 0; i < v->vtx.size(); ++i)
                    if (!pdb.IsTxAvailable(i)) missing.push_back(v->vtx[i]);
                CBlock out;
                if (pdb.FillBlock(out, missing, /*segwit_active=*/true) == READ_STATUS_OK)
                    ctx.failf("compact-reconstruction-accepts-variant", "PartiallyDownloadedBlock::FillBlock returns READ_STATUS_OK for a variant of block #%d: %s", c.idx, v->desc.c_str());
                ctx.probe("cmpct_fillblock_rejects_variant");
            } else {
                ctx.probe("cmpct_initdata_rejects_variant");
            }
        }
        c.variants.push_back(std::move(*v));
        return (int)c.variants.size() - 1;
    }

    // ------------------------------------------------------------------------------------------------------------
    struct IndexView {
        bool known{false}, have_data{false}, failed{false}, active{false};
    };
    IndexView Look(const uint256& h)
    {
        LOCK(cs_main);
        IndexView v;
        const CBlockIndex* pi = node().cm().m_blockman.LookupBlockIndex(h);
        if (!pi) return v;
        v.known = true;
        v.have_data = pi->nStatus & BLOCK_HAVE_DATA;
        v.failed = pi->nStatus & BLOCK_FAILED_VALID;
        v.active = node().cm().ActiveChain().Contains(*pi);
        return v;
    }

    void DeliverVariant(int ci, int vi, bool force)
    {
        Case& c = cases[ci];
        Variant& v = c.variants[vi];
        auto blk = std::make_shared<CBlock>(c.header); // a fresh object per delivery, as a fresh deserialization would be
        blk->vtx = v.vtx;
        const IndexView before = Look(c.hash);
        const size_t ev0 = rec->evs.size();
        auto res = node().ProcessBlock(blk, force);
        CheckFatal();
        ++v.delivered;
        ++c.v_deliv;
        if (c.g_deliv == 0) ++c.v_before_first_g;
        static const char* kFault[] = {"variant_delivered_duplicate_tail", "variant_delivered_witness_stripped", "variant_delivered_witness_altered", "variant_delivered_witness_added", "variant_delivered_coinbase_witness",
                                       "variant_delivered_root_mismatch", "variant_delivered_64byte_collapse"};
        ctx.fault(kFault[v.kind]);
        ctx.probe(c.g_deliv == 0 ? "variant_before_genuine" : "variant_after_genuine");
        if (!force) ctx.probe("variant_unrequested");
        if (before.known && !before.have_data) ctx.probe("variant_on_known_header");
        if (before.active) ctx.probe("variant_while_genuine_active");
        const std::vector<uint256> vw = Wtxids(v.vtx);
        const Recorder::Ev* verdict = nullptr;
        for (size_t i = ev0; i < rec->evs.size(); ++i) {
            const auto& e = rec->evs[i];
            if (e.connected || e.hash != c.hash || e.wtxids != vw) continue;
            verdict = &e;
        }
        ctx.evf("deliver-variant c%d v%d force=%d -> accepted=%d new=%d verdict=%s tip=%s h=%d", ci, vi, force, res.accepted, res.new_block,
                verdict ? (verdict->valid ? "valid" : verdict->reason.c_str()) : "-", Hx(node().TipHash()).c_str(), node().Height());
        if (res.new_block) ctx.failf("variant-stored-as-new-block", "ProcessNewBlock reports new_block for a variant of block #%d: %s", c.idx, v.desc.c_str());
        const bool verdict_required = !v.witness_only || (force && !before.have_data);
        if (verdict_required && !verdict)
            ctx.failf("variant-not-rejected", "ProcessNewBlock(force=%d) gave no BlockChecked verdict for a variant of block #%d (index known=%d have_data=%d): %s", force, c.idx, before.known, before.have_data, v.desc.c_str());
        if (verdict_required && res.accepted)
            ctx.failf("variant-not-rejected", "ProcessNewBlock(force=%d) returned true for a variant of block #%d: %s", force, c.idx, v.desc.c_str());
        if (verdict) {
            if (verdict->valid) ctx.failf("variant-accepted-as-valid", "BlockChecked reports a variant of block #%d valid: %s", c.idx, v.desc.c_str());
            ctx.probe(("reason:" + verdict->reason).c_str());
            if (v.same_root && v.kind != V_64 && verdict->result != BlockValidationResult::BLOCK_MUTATED && !NonValidityVerdict(verdict->result))
                ctx.failf("variant-verdict-not-mutated", "a variant the header cannot distinguish from block #%d was rejected as '%s' (result %d), not BLOCK_MUTATED: %s", c.idx, verdict->reason.c_str(), (int)verdict->result,
                          v.desc.c_str());
            if (verdict->result == BlockValidationResult::BLOCK_MUTATED) ctx.probe("verdict_block_mutated");
        }
        ctx.nontrivial = true;
    }

    void DeliverGenuine(int ci, bool force)
    {
        Case& c = cases[ci];
        const bool parent_known = Look(c.header.hashPrevBlock).known;
        if (c.g_deliv == 0 && c.v_before_first_g > 0) ctx.probe("genuine_after_variant");
        cs.Deliver(c.idx, force);
        ++c.g_deliv;
        if (force && parent_known) {
            IndexView a = Look(c.hash);
            if (!a.known || !a.have_data)
                ctx.failf("genuine-not-stored-after-forced-delivery", "block #%d (valid per the model, parent known) was delivered with force_processing but the node holds no data for it (index known=%d)", c.idx, a.known);
        }
    }

    void GiveHeader(int ci)
    {
        Case& c = cases[ci];
        BlockValidationState st;
        bool ok = node().ProcessHeaders({c.header}, st);
        cs.header_given[c.idx] = 1;
        ctx.probe("header_first");
        ctx.evf("header c%d -> %d %s", ci, ok, st.GetRejectReason().c_str());
    }

    /** Signals: whatever the node validated or connected under a case's hash must be exactly the genuine content. */
    void ProcessEvents()
    {
        for (const auto& e : rec->evs) {
            auto it = case_of.find(e.hash);
            if (it == case_of.end()) continue;
            const Case& c = cases[it->second];
            const bool genuine = e.wtxids == c.wtxids;
            if (e.connected) {
                if (!genuine) ctx.failf("variant-became-active", "BlockConnected for hash of block #%d carries a transaction list different from the genuine one (%zu vs %zu txs)", c.idx, e.wtxids.size(), c.wtxids.size());
                ctx.probe("genuine_connected");
            } else if (e.valid) {
                if (!genuine) ctx.failf("variant-accepted-as-valid", "BlockChecked(valid) for hash of block #%d carries a transaction list different from the genuine one", c.idx);
            } else if (genuine && !NonValidityVerdict(e.result)) {
                ctx.failf("genuine-block-rejected", "BlockChecked reports the genuine block #%d invalid: %s", c.idx, e.reason.c_str());
            }
        }
        rec->evs.clear();
    }

    /** Block index and block files: the genuine hash is never failed; data stored under it is the genuine list. */
    void CheckCases(const char* where, bool read_all, int touched = -1)
    {
        LOCK(cs_main);
        auto& bm = node().cm().m_blockman;
        uint64_t fp = node().TipHash().GetUint64(0);
        for (size_t ci = 0; ci < cases.size(); ++ci) {
            Case& c = cases[ci];
            const CBlockIndex* pi = bm.LookupBlockIndex(c.hash);
            fp = mix64(fp, (uint64_t)c.variants.size() * 64 + std::min(c.v_deliv, 7) * 8 + std::min(c.g_deliv, 3) * 2 + (pi != nullptr));
            if (!pi) continue;
            if (pi->nStatus & BLOCK_FAILED_VALID)
                ctx.failf("genuine-block-marked-failed", "%s: index entry of block #%d (valid per the model; %d variant deliveries, %d genuine deliveries so far) carries BLOCK_FAILED_VALID", where, c.idx, c.v_deliv, c.g_deliv);
            const bool have = pi->nStatus & BLOCK_HAVE_DATA;
            const bool active = node().cm().ActiveChain().Contains(*pi);
            fp = mix64(fp, have * 2 + active);
            if (active && !have) ctx.failf("active-block-without-data", "%s: block #%d is in the active chain without block data", where, c.idx);
            if (active && c.v_deliv > 0 && !c.seen_active_after_variant) { c.seen_active_after_variant = true; ctx.probe("genuine_active_despite_variants"); }
            if (have && (read_all || (int)ci == touched)) {
                CBlock b;
                if (!bm.ReadBlock(b, *pi)) ctx.failf("stored-block-unreadable", "%s: ReadBlock fails for block #%d", where, c.idx);
                if (!SameList(b.vtx, c.vtx))
                    ctx.failf("variant-stored-as-block", "%s: the data stored for hash of block #%d is not the genuine transaction list (%zu txs stored, %zu genuine)", where, c.idx, b.vtx.size(), c.vtx.size());
                ctx.probe("stored_block_compared");
            }
        }
        // blocks whose body does not match what their header/coinbase commit to (model verdict MUTATED): never stored, never blamed on the header
        for (size_t i = 1; i < ref().blocks.size(); ++i) {
            const RefBlock& B = ref().blocks[i];
            if (B.verdict != Verdict::MUTATED) continue;
            const CBlockIndex* pi = bm.LookupBlockIndex(B.hash);
            if (!pi) continue;
            if (pi->nStatus & BLOCK_HAVE_DATA) ctx.failf("mutated-block-stored", "%s: block #%d (%s) is stored by the node", where, (int)i, B.reason.c_str());
            if (pi->nStatus & BLOCK_FAILED_VALID) ctx.failf("mutated-block-header-marked-failed", "%s: header of block #%d (%s; its ancestors are valid) carries BLOCK_FAILED_VALID", where, (int)i, B.reason.c_str());
        }
        ctx.fingerprint(fp);
    }

    // ------------------------------------------------------------------------------------------------------------
    void MerkleOp(const Op& op)
    {
        const size_t n0 = (size_t)std::clamp<int64_t>(op.arg(0), 1, 2000);
        Rng r(mix64((uint64_t)op.arg(1), 0x3e7c1e));
        int mode = (int)op.mod(2, 5);
        // distinct base transactions (some with witness data, so that wtxid != txid)
        std::vector<CTransactionRef> base;
        for (size_t i = 0; i < n0; ++i) {
            CMutableTransaction m;
            m.version = 2;
            m.vin.resize(1);
            uint256 h;
            r.fill(h.begin(), 32);
            m.vin[0].prevout = COutPoint(Txid::FromUint256(h), (uint32_t)i);
            if (i > 0 && r.chance(1, 3)) m.vin[0].scriptWitness.stack = {{(unsigned char)i, 0x51}};
            m.vout.emplace_back((CAmount)i, CScript() << OP_TRUE);
            base.push_back(MakeTransactionRef(m));
        }
        std::vector<size_t> idx(n0);
        for (size_t i = 0; i < n0; ++i) idx[i] = i;
        bool expect_mut = false;
        if (mode == 1) {
            std::vector<size_t> padded;
            auto lens = DupPatternLengths(n0, padded);
            if (!lens.empty()) {
                size_t m = lens[r.below(lens.size())];
                idx.assign(padded.begin(), padded.begin() + m);
                expect_mut = true;
            }
        } else if (mode == 2 && n0 >= 2) {
            size_t i = 2 * r.below(n0 / 2);
            idx[i + 1] = idx[i];
            expect_mut = true;
        } else if (mode == 3 && n0 >= 4) {
            int kmax = 0;
            while ((size_t{4} << kmax) <= n0) ++kmax; // largest k+1 with 2^(k+1) <= n0 ... k in [1,kmax]
            int k = 1 + (int)r.below(kmax);
            size_t g = size_t{1} << k;
            size_t a = 2 * g * r.below(n0 / (2 * g));
            for (size_t i = 0; i < g; ++i) idx[a + g + i] = idx[a + i];
            expect_mut = true;
        } else if (mode == 4 && n0 >= 3) {
            size_t i = 1 + 2 * r.below((n0 - 1) / 2);
            idx[i + 1] = idx[i]; // equal neighbours that are NOT hashed together
        }
        CBlock b;
        for (size_t i : idx) b.vtx.push_back(base[i]);
        const size_t n = b.vtx.size();
        std::vector<uint256> ids = Txids(b.vtx);
        bool mut = false, rmut = false;
        uint256 root = ComputeMerkleRoot(ids, &mut);
        uint256 rroot = RefMerkleRoot(ids, &rmut);
        if (root != rroot) ctx.failf("merkle-root-differs-from-reference", "ComputeMerkleRoot over %zu leaves (dup mode %d)", n, mode);
        if (ComputeMerkleRoot(ids) != rroot) ctx.failf("merkle-root-differs-from-reference", "ComputeMerkleRoot(no mutated flag) over %zu leaves (dup mode %d)", n, mode);
        if (mut != rmut) ctx.failf("merkle-mutated-flag-differs-from-reference", "ComputeMerkleRoot over %zu leaves (dup mode %d): mutated=%d, reference %d", n, mode, mut, rmut);
        if (expect_mut && !mut) ctx.failf("merkle-duplicate-not-flagged", "ComputeMerkleRoot over %zu leaves with an equal pair hashed together (dup mode %d) does not set mutated", n, mode);
        bool bmut = false;
        if (BlockMerkleRoot(b, &bmut) != rroot || bmut != rmut) ctx.failf("merkle-root-differs-from-reference", "BlockMerkleRoot over %zu txs (dup mode %d)", n, mode);
        if (BlockWitnessMerkleRoot(b) != RefWitnessMerkleRoot(b)) ctx.failf("witness-root-differs-from-reference", "BlockWitnessMerkleRoot over %zu txs (dup mode %d)", n, mode);
        if (mode == 1 && expect_mut && RefMerkleRoot(std::vector<uint256>(ids.begin(), ids.begin() + n0)) != rroot)
            ctx.failf("sim-dup-pattern-wrong", "pattern n=%zu m=%zu does not preserve the root", n0, n); // guards the generator, not bitcoin
        for (int k = 0; k < 5; ++k) {
            size_t pos = k == 0 ? 0 : k == 1 ? n - 1 : r.below(n);
            std::vector<uint256> path = TransactionMerklePath(b, (uint32_t)pos);
            if (path != RefMerkleBranch(ids, pos)) ctx.failf("merkle-path-differs-from-reference", "TransactionMerklePath(%zu txs, position %zu, dup mode %d)", n, pos, mode);
            if (Fold(ids[pos], path, pos) != rroot) ctx.failf("merkle-path-does-not-prove-root", "TransactionMerklePath(%zu txs, position %zu, dup mode %d)", n, pos, mode);
        }
        ctx.probe("merkle_functions_checked");
        if (mut) ctx.probe("merkle_mutated_flag_set");
        if (n & (n - 1)) ctx.probe("merkle_odd_level");
        ctx.evf("merkle n=%zu mode=%d mut=%d root=%s", n, mode, mut, Hx(root).c_str());
        ctx.fingerprint(mix64(0x3e7c, n * 8 + mode));
    }

    // ------------------------------------------------------------------------------------------------------------
    void Exec(const Op& op)
    {
        int touched = -1;
        bool own = true;
        switch (op.kind) {
        case C_CASE: {
            int parent = SelectParent(op, 0, 1);
            size_t ncases = cases.size();
            Build(parent, (int)std::clamp<int64_t>(op.arg(2), 1, 1000), (uint64_t)op.arg(3), (int)op.mod(4, S_NSHAPES), SD_NONE, 0);
            if (cases.size() == ncases) break;
            int ci = (int)ncases;
            touched = ci;
            int vi = NewVariant(ci, (int)op.mod(5, V_NKINDS), (uint64_t)op.arg(6), (uint64_t)op.arg(7));
            const int64_t fm = op.arg(13);
            auto step = [&](const char* w) { ProcessEvents(); CheckCases(w, false, ci); };
            if (op.arg(8) & 1) { GiveHeader(ci); step("after header"); }
            auto variants = [&](int n, bool force, const char* w) {
                for (int k = 0; k < n && vi >= 0; ++k) { DeliverVariant(ci, vi, force); step(w); }
            };
            variants((int)op.mod(9, 4), fm & 1, "after variant before genuine");
            if (op.arg(12) & 1) { DeliverGenuine(ci, fm & 2); step("after first genuine delivery"); }
            // a second, different variant of the same block in between (if one can be made)
            if (op.mod(10, 4) >= 2 && vi >= 0) {
                int v2 = NewVariant(ci, (int)((op.mod(5, V_NKINDS) + 1 + op.mod(6, V_NKINDS - 1)) % V_NKINDS), (uint64_t)op.arg(6) / 7, (uint64_t)op.arg(7) ^ 0x5a5a);
                if (v2 >= 0) { DeliverVariant(ci, v2, fm & 32); step("after second variant"); }
            }
            variants((int)op.mod(10, 4), fm & 4, "after variant between genuine deliveries");
            if (op.arg(12) & 2) { DeliverGenuine(ci, fm & 8); step("after second genuine delivery"); }
            variants((int)op.mod(11, 4), fm & 16, "after variant after genuine");
            break;
        }
        case C_GENUINE: {
            int parent = SelectParent(op, 0, 1);
            Build(parent, (int)std::clamp<int64_t>(op.arg(2), 1, 1000), (uint64_t)op.arg(3), (int)op.mod(4, S_NSHAPES), SD_NONE, 0);
            break;
        }
        case C_VARIANT: {
            if (cases.empty()) break;
            int ci = (int)op.mod(0, cases.size());
            NewVariant(ci, (int)op.mod(1, V_NKINDS), (uint64_t)op.arg(2), (uint64_t)op.arg(3));
            break;
        }
        case C_DELIVER_V: {
            if (cases.empty()) break;
            // prefer recently created cases: they are the ones whose genuine block may still be missing
            int ci = (int)cases.size() - 1 - (int)op.mod(0, std::min<size_t>(cases.size(), 6));
            if (cases[ci].variants.empty() && NewVariant(ci, (int)op.mod(1, V_NKINDS), (uint64_t)op.arg(1), (uint64_t)op.arg(0)) < 0) break;
            int vi = (int)op.mod(1, cases[ci].variants.size());
            touched = ci;
            int times = (int)std::clamp<int64_t>(op.arg(3), 1, 3);
            for (int k = 0; k < times; ++k) { DeliverVariant(ci, vi, op.arg(2) & 1); ProcessEvents(); CheckCases("after variant delivery", false, ci); }
            break;
        }
        case C_DELIVER_G: {
            if (cases.empty()) break;
            int ci = (int)cases.size() - 1 - (int)op.mod(0, std::min<size_t>(cases.size(), 6));
            touched = ci;
            int times = (int)std::clamp<int64_t>(op.arg(2), 1, 2);
            for (int k = 0; k < times; ++k) DeliverGenuine(ci, op.arg(1) & 1);
            break;
        }
        case C_HEADER: {
            if (cases.empty()) break;
            int ci = (int)cases.size() - 1 - (int)op.mod(0, std::min<size_t>(cases.size(), 6));
            GiveHeader(ci);
            break;
        }
        case C_STANDALONE: {
            int parent = SelectParent(op, 0, 1);
            int idx = Build(parent, (int)std::clamp<int64_t>(op.arg(2), 2, 1000), (uint64_t)op.arg(3), S_MIXED, (int)std::clamp<int64_t>(op.mod(4, SD_N), 1, SD_N - 1), (int)op.arg(5));
            if (idx < 0) break;
            int times = (int)std::clamp<int64_t>(op.arg(7), 1, 2);
            for (int k = 0; k < times; ++k) cs.Deliver(idx, op.arg(6) & 1);
            ctx.nontrivial = true;
            break;
        }
        case C_MERKLE: MerkleOp(op); break;
        case OP_INVALIDATE:
        case OP_RECONSIDER:
            break; // manual invalidation is outside this property (the genuine block would be failed by the operator)
        default:
            if (op.kind >= 0 && op.kind < OP_NCHAINOPS) {
                cs.ExecOp(op);
                own = false;
            }
            break;
        }
        CheckFatal();
        ProcessEvents();
        CheckCases(Describe(op).c_str(), /*read_all=*/!own || cases.size() <= 4, touched);
        if (own && op.kind != C_MERKLE) cs.CheckAll(Describe(op).c_str());
    }

    void Run()
    {
        cs.tweak_opts = [&](NodeOpts& o) { o.listeners.push_back(rec); };
        cs.Setup();
        rec->evs.clear();
        // one block that fans a mature coinbase out into spendable outputs of every script kind
        {
            int idx = Build(cs.TipIdx(), 2, mix64(ctx.plan.seed, 0xfa7), S_FANOUT, SD_NONE, 0);
            if (idx >= 0) cs.Deliver(idx, true);
            rec->evs.clear();
            cs.CheckAll("after fan-out block");
        }
        for (const Op& op : ctx.plan.ops) Exec(op);
        ProcessEvents();
        CheckCases("end of run", /*read_all=*/true);
        cs.CheckAll("end of run");
        size_t active = 0;
        for (auto& c : cases) active += Look(c.hash).active;
        if (active) ctx.probe("genuine_blocks_active_at_end", active);
        cs.Finish();
    }
};

void Run(Ctx& ctx)
{
    Sim s(ctx);
    s.Run();
}

Engine MakeEngine()
{
    Engine e;
    e.prop = "C04";
    e.name = "nodesim/block-mutation";
    e.level = "exploration";
    e.gen = Gen;
    e.run = Run;
    e.describe = Describe;
    e.chunk = 1;
    e.quick_runs = 900;     // ~0.45 CPU-s per run (node start + 104-block base chain + ~10 cases): ~28 s on 16 idle cores
    e.thorough_runs = 20000; // ~0.6 CPU-s per run: ~12 min on 16 idle cores (the budget caps it on a loaded machine)
    e.quick_budget_s = 50;
    e.thorough_budget_s = 900;
    e.rule = "each run = a real regtest node with a 101-105 block base chain plus 8-36 seeded operations. `case` operations generate a VALID block of 1-300 signed transactions (shapes: mixed script kinds, "
             "no witness with/without commitment, containing a 64-byte transaction, txids ground so that the 2- or 4-transaction list collapses into 64-byte transactions) on the tip / a recent / any valid block and one or two "
             "VARIANTS with the same header (every root-preserving duplicate-tail pattern, witness stripped / altered / added, coinbase reserved value removed / resized / changed, list edits that change the root, 64-byte collapse), "
             "then deliver: optional header first, variant x0-3, genuine, [second variant], variant x0-3, genuine again, variant x0-3, each with force_processing on or off. Fine-grained operations re-deliver variants / "
             "genuine blocks / headers of earlier cases in any order; standalone blocks with a wrong byte in / missing / shadowed witness commitment or a wrong header root; pure merkle checks over 1-600 leaves with duplicates "
             "injected at paired and unpaired positions; ordinary chain operations (mine with defects, deliver, header, reorg, clock, flush, clean restart on on-disk runs). Checked after every delivery: block index flags, "
             "stored block data, BlockChecked/BlockConnected content, ProcessNewBlock result, IsBlockMutated, PartiallyDownloadedBlock::FillBlock, merkle roots/paths against RefChain's own code, and the C08 most-work oracle. "
             "non-trivial = at least one variant (or standalone mutated block) was delivered; distinct = distinct fingerprints of (tip, per case: #variants, deliveries, index known/data/active) and (n, dup mode) of merkle checks.";
    e.real_components = {"consensus/merkle.cpp (ComputeMerkleRoot, BlockMerkleRoot, BlockWitnessMerkleRoot, TransactionMerklePath)",
                         "validation.cpp (ProcessNewBlock, AcceptBlock, CheckBlock, CheckMerkleRoot, ContextualCheckBlock, CheckWitnessMalleation, IsBlockMutated, InvalidBlockFound, ActivateBestChain, ConnectBlock)",
                         "blockencodings.cpp (CBlockHeaderAndShortTxIDs, PartiallyDownloadedBlock::InitData/FillBlock)", "BlockManager flat files + block index (ReadBlock)", "script interpreter, coins views, CTxMemPool (attached, empty)"};
    e.stub_components = {"peers: blocks and headers are handed to ProcessNewBlock / ProcessNewBlockHeaders in seeded order (net_processing's `block`/`cmpctblock` handlers are not driven; their gate IsBlockMutated is called directly)",
                         "wall clock (SetMockTime)", "ValidationSignals task runner (immediate)", "script/prevout worker threads (0)"};
    e.assumptions = {"RefChain's merkle / witness-commitment code and verdicts are correct; script validity of generated spends comes from the generator",
                     "no SHA256d collisions: the root-preserving variants are exactly the prefixes of the padded leaf list whose own padding reproduces it, plus the ground 64-byte collapse",
                     "BlockTemplate::getCoinbaseMerklePath is TransactionMerklePath(block, 0) (interfaces.cpp); position 0 of every generated block is compared instead of building a NodeContext",
                     "a variant delivered while the node already holds the genuine data, or unrequested, may be answered without any verdict (ProcessNewBlock returns early); only then is no BlockChecked demanded",
                     "the 64-byte collapse is rejected by ProcessNewBlock as bad-cb-missing (BLOCK_CONSENSUS, nothing marked); it is IsBlockMutated that reports it as mutated, and that is what is checked"};
    e.expected_probes = {"genuine_built", "variant_duplicate_tail", "variant_witness_stripped", "variant_witness_altered", "variant_witness_added", "variant_coinbase_witness", "variant_root_mismatch", "variant_64byte_collapse",
                         "collapse64_constructed", "genuine_has_64byte_tx", "dup_above_leaf_level", "dup_several_patterns_available", "variant_before_genuine", "variant_after_genuine", "variant_unrequested", "variant_on_known_header",
                         "variant_while_genuine_active", "genuine_after_variant", "genuine_active_despite_variants", "genuine_connected", "stored_block_compared", "header_first", "verdict_block_mutated",
                         "reason:bad-txns-duplicate", "reason:bad-witness-merkle-match", "reason:bad-witness-nonce-size", "reason:unexpected-witness", "reason:bad-txnmrklroot", "reason:bad-cb-missing",
                         "standalone_mutated_block", "standalone_last_commitment_wins_valid", "cmpct_fillblock_rejects_variant", "cmpct_initdata_rejects_variant", "merkle_functions_checked", "merkle_mutated_flag_set",
                         "merkle_odd_level", "coinbase_merkle_path_checked", "reorg", "clean_restart"};
    return e;
}
Engine g_engine = MakeEngine();
SIM_REGISTER_ENGINE(g_engine);

} // namespace
