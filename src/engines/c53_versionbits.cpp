// C53 — soft-fork deployment states follow BIP9.
// nodesim (version-bits module): a real regtest node whose DEPLOYMENT_TESTDUMMY parameters (start, timeout,
// min_activation_height, incl. ALWAYS_ACTIVE / NEVER_ACTIVE) are drawn per run is fed block trees of 4-8 periods
// (period 144, threshold 108) with generator-chosen nVersion and timestamps: signalling counts 107/108/109 per
// period, median-time-past steered to cross start/timeout exactly at / one before / one after a period boundary,
// forks that diverge inside a period, reorgs across period boundaries (longer fork, invalidateblock), header-only
// branches, clean restarts and VersionBitsCache::Clear (cold caches). The version-bits answers of the real code
// (VersionBitsCache::Info / IsActiveAfter / GBTStatus, DeploymentActiveAt/After, and the raw
// AbstractThresholdConditionChecker::GetStateFor / GetStateSinceHeightFor / GetStateStatisticsFor) are queried in
// seeded order through the node's own (warm) cache, a cache constructed for the one query, and two run-long private
// caches, and compared with each other and with an independent BIP9 model evaluated over RefChain's tree.
#include "../core/sim.h"
#include "../nodesim/chaingen.h"
#include "../nodesim/refchain.h"
#include "../nodesim/simnode.h"

#include <chain.h>
#include <consensus/params.h>
#include <consensus/validation.h>
#include <deploymentinfo.h>
#include <deploymentstatus.h>
#include <util/time.h>
#include <validation.h>
#include <versionbits.h>
#include <versionbits_impl.h>

#include <algorithm>
#include <deque>
#include <limits>
#include <optional>
#include <set>

using namespace sim;
using namespace nodesim;

namespace {

// ------------------------------------------------------------------------------------------------------------
// The independent BIP9 model. Written from the property statement and BIP9; shares nothing with versionbits.cpp.
// ------------------------------------------------------------------------------------------------------------
constexpr int PERIOD = 144;    // regtest DEPLOYMENT_TESTDUMMY
constexpr int THRESHOLD = 108; // regtest DEPLOYMENT_TESTDUMMY
constexpr int BIT = 28;

enum MS { M_DEFINED = 0, M_STARTED, M_LOCKED_IN, M_ACTIVE, M_FAILED };
const char* const kStateName[] = {"defined", "started", "locked_in", "active", "failed"};

struct Dep {
    int mode{0}; //!< 0 = ordinary (start/timeout are median-time values), 1 = always active, 2 = never active
    int64_t start{0};
    int64_t timeout{0};
    bool no_timeout{false};
    int mah{0}; //!< minimum activation height
    int period{PERIOD};
    int threshold{THRESHOLD};
    int bit{BIT};
};

/** One chain of the tree, by height: what the state of a block may depend on. */
struct View {
    std::vector<int64_t> t;
    std::vector<int32_t> v;
};

bool ModelSignals(int32_t version, int bit = BIT)
{
    const uint32_t u = (uint32_t)version;
    return (u >> 29) == 1 && ((u >> bit) & 1) == 1; // top three bits 001 and the deployment's bit
}

int64_t ModelMtp(const View& c, int h)
{
    std::vector<int64_t> w;
    for (int i = std::max(0, h - 10); i <= h; ++i) w.push_back(c.t[i]);
    std::sort(w.begin(), w.end());
    return w[w.size() / 2];
}

/** States of periods 0..np-1 of the chain `c` (period p = heights [p*period, (p+1)*period)); needs heights < (np-1)*period. */
std::vector<MS> ModelStates(const Dep& d, const View& c, int np)
{
    std::vector<MS> st(np, M_DEFINED);
    if (d.mode == 1) return std::vector<MS>(np, M_ACTIVE);
    if (d.mode == 2) return std::vector<MS>(np, M_FAILED);
    for (int p = 1; p < np; ++p) {
        const int last = d.period * p - 1; // last block of the previous period
        MS s = st[p - 1];
        switch (st[p - 1]) {
        case M_DEFINED:
            if (ModelMtp(c, last) >= d.start) s = M_STARTED;
            break;
        case M_STARTED: {
            int count = 0;
            for (int h = last - d.period + 1; h <= last; ++h) count += ModelSignals(c.v[h], d.bit);
            if (count >= d.threshold) s = M_LOCKED_IN; // lock-in takes precedence over the timeout
            else if (!d.no_timeout && ModelMtp(c, last) >= d.timeout) s = M_FAILED;
            break;
        }
        case M_LOCKED_IN:
            if (d.period * p >= d.mah) s = M_ACTIVE;
            break;
        case M_ACTIVE:
        case M_FAILED:
            break; // never left
        }
        st[p] = s;
    }
    return st;
}

/** What the model expects the real code to answer for one block. */
struct Expect {
    MS cur, next;
    int since;
    bool has_stats;
    int elapsed, count;
    bool possible;
    std::vector<bool> bits;
    bool active_since_required;       //!< a value must be reported
    std::set<int> active_since_legal; //!< values that may be reported (empty + !required: none may be)
    bool at_boundary{false};          //!< the next block starts a new period
};

Expect ModelExpect(const Dep& d, const View& c)
{
    const int P = d.period;
    const int h = (int)c.t.size() - 1;
    const int p = h / P, pn = (h + 1) / P;
    std::vector<MS> st = ModelStates(d, c, pn + 1);
    Expect e;
    e.cur = st[p];
    e.next = st[pn];
    int first = p;
    while (first > 0 && st[first - 1] == e.cur) --first;
    e.since = first * P;
    e.has_stats = e.cur == M_STARTED || e.cur == M_LOCKED_IN;
    e.elapsed = h % P + 1;
    e.count = 0;
    for (int i = h - h % P; i <= h; ++i) {
        bool s = ModelSignals(c.v[i], d.bit);
        e.bits.push_back(s);
        e.count += s;
    }
    e.possible = e.count + (P - e.elapsed) >= d.threshold;
    e.active_since_required = false;
    const int mah_boundary = (d.mah + P - 1) / P * P; // first period start >= min_activation_height
    if (e.cur == M_ACTIVE) {
        e.active_since_required = true;
        e.active_since_legal = {e.since};
    } else if (e.next == M_ACTIVE) {
        e.active_since_required = true;
        e.active_since_legal = {h + 1};
    } else if (e.cur == M_LOCKED_IN) {
        // activation is already determined; "if known" allows reporting it
        e.active_since_legal = {std::max(P * (p + 1), mah_boundary)};
    } else if (e.next == M_LOCKED_IN) {
        e.active_since_legal = {std::max(P * (pn + 1), mah_boundary)};
    }
    e.at_boundary = pn != p;
    return e;
}

// ------------------------------------------------------------------------------------------------------------
// Plan
// ------------------------------------------------------------------------------------------------------------
enum OpKind { OP_MINE = 0, OP_DELIVER, OP_QUERY, OP_SWEEP, OP_RESTART, OP_INVALIDATE, OP_RECONSIDER, OP_CLEAR, N_OPS };
enum TimeMode { T_PLUS1 = 0, T_SPACED, T_JITTER, T_AIM, T_MINIMAL, T_LEAP, N_TIMEMODES };
enum CacheKind { K_NODE = 0, K_FRESH, K_ALT, K_RAW, N_CACHES, K_CUSTOM = N_CACHES }; // K_CUSTOM: a second, per-run deployment (own period/threshold/bit) through the raw checker
constexpr unsigned ALL_KINDS = (1u << (K_CUSTOM + 1)) - 1;

constexpr int64_t GENESIS_TIME = 1296688602;

std::string Describe(const Op& op)
{
    char b[320];
    static const char* par[] = {"active-tip", "leaf", "any-block", "active-chain-depth"};
    static const char* len[] = {"to-period-end", "to-period-end+", "exactly"};
    static const char* tm[] = {"+1s", "spaced", "jitter", "aim-boundary", "mtp+1", "leap"};
    static const char* dl[] = {"blocks", "headers", "hold"};
    switch (op.kind) {
    case OP_MINE:
        snprintf(b, sizeof b, "mine(parent=%s#%ld, len=%s %ld, period_signal_count=%ld (random %ld%%), time=%s %+ld, seed=%ld, deliver=%s, version_noise=%ld)", par[op.mod(0, 4)], (long)op.arg(1),
                 len[op.mod(2, 3)], (long)op.arg(3), (long)op.arg(4), (long)op.arg(5), tm[op.mod(6, N_TIMEMODES)], (long)op.arg(7), (long)op.arg(8), dl[op.mod(9, 3)], (long)op.arg(10));
        break;
    case OP_DELIVER: snprintf(b, sizeof b, "deliver(leaf#%ld, as=%s)", (long)op.arg(0), op.arg(1) & 1 ? "headers" : "blocks"); break;
    case OP_QUERY: snprintf(b, sizeof b, "query(n=%ld, seed=%ld, caches=%lx (1 node,2 fresh,4 private,8 raw,10 custom deployment), bias=%ld)", (long)op.arg(0), (long)op.arg(1), (long)op.arg(2), (long)op.arg(3)); break;
    case OP_SWEEP: snprintf(b, sizeof b, "sweep_chain(leaf#%ld, order=%ld, cache=%ld, seed=%ld)", (long)op.arg(0), (long)op.arg(1), (long)op.arg(2), (long)op.arg(3)); break;
    case OP_RESTART: snprintf(b, sizeof b, "FAULT clean restart (cold version-bits cache)"); break;
    case OP_INVALIDATE: snprintf(b, sizeof b, "FAULT invalidateblock(active chain, depth=%ld)", (long)op.arg(0)); break;
    case OP_RECONSIDER: snprintf(b, sizeof b, "reconsiderblock(manual#%ld)", (long)op.arg(0)); break;
    case OP_CLEAR: snprintf(b, sizeof b, "FAULT VersionBitsCache::Clear() on the node's cache"); break;
    default: snprintf(b, sizeof b, "?");
    }
    return b;
}

int64_t PickK(Rng& rng)
{
    switch (rng.pick({22, 25, 8, 8, 7, 15, 15})) {
    case 0: return 107;
    case 1: return 108;
    case 2: return 109;
    case 3: return 0;
    case 4: return 144;
    case 5: return rng.range(0, 144);
    default: return -1;
    }
}

Plan Gen(uint64_t seed, Tier tier)
{
    Rng rng(seed);
    Plan p;
    const int periods = (int)rng.range(4, tier == Tier::THOROUGH ? 8 : 7);
    const int64_t d = rng.chance(2, 5) ? 1 : rng.skewed(2, 40);
    const int64_t W = PERIOD * (d + 1);
    p.knobs["spacing"] = d;
    p.knobs["on_disk"] = rng.chance(1, 3);
    p.knobs["ibd"] = rng.chance(1, 4); // in IBD the node itself never consults the version-bits cache
    p.knobs["max_blocks"] = 1500;
    // deployment parameters
    int sm = (int)rng.pick({74, 8, 8, 10}); // ordinary, always, never, start=0
    p.knobs["start_mode"] = sm;
    int64_t start_off = rng.chance(1, 6) ? rng.range(0, 200) : rng.range(0, 3 * W);
    p.knobs["start_off"] = start_off;
    if (rng.chance(1, 5)) {
        p.knobs["no_timeout"] = 1;
        p.knobs["timeout_off"] = 0;
    } else {
        p.knobs["no_timeout"] = 0;
        int64_t base = sm == 3 ? 0 : start_off;
        p.knobs["timeout_off"] = rng.chance(1, 10) ? std::max<int64_t>(0, base - rng.range(0, W)) : base + rng.range(1, 4 * W);
    }
    switch (rng.pick({35, 40, 25})) {
    case 0: p.knobs["mah"] = 0; break;
    case 1: p.knobs["mah"] = PERIOD * rng.range(1, periods) + rng.range(-1, 1); break;
    default: p.knobs["mah"] = rng.range(0, PERIOD * periods); break;
    }
    // a second deployment evaluated on the same block tree through a VersionBitsConditionChecker of its own: small periods and thresholds, other bits
    {
        int64_t cp;
        switch (rng.pick({3, 45, 30, 10, 12})) {
        case 0: cp = 1; break;
        case 1: cp = rng.range(2, 12); break;
        case 2: cp = rng.range(13, 60); break;
        case 3: cp = PERIOD; break;
        default: cp = rng.range(61, 200); break;
        }
        p.knobs["c_period"] = cp;
        p.knobs["c_threshold"] = rng.chance(1, 12) ? 0 : rng.chance(1, 10) ? cp : rng.chance(1, 2) ? rng.range(std::max<int64_t>(1, cp / 2 - 2), std::min(cp, cp / 2 + 2)) : rng.range(1, cp);
        p.knobs["c_bit"] = rng.chance(1, 4) ? BIT : rng.chance(1, 10) ? rng.range(5, 27) : rng.range(0, 4);
        int csm = (int)rng.pick({80, 5, 5, 10});
        p.knobs["c_start_mode"] = csm;
        int64_t cso = rng.range(0, 3 * W);
        p.knobs["c_start_off"] = cso;
        p.knobs["c_no_timeout"] = rng.chance(1, 4);
        p.knobs["c_timeout_off"] = rng.chance(1, 10) ? std::max<int64_t>(0, (csm == 3 ? 0 : cso) - rng.range(0, W)) : (csm == 3 ? 0 : cso) + rng.range(1, 4 * W);
        p.knobs["c_mah"] = rng.chance(1, 3) ? 0 : rng.chance(1, 2) ? cp * rng.range(1, std::max<int64_t>(1, 700 / cp)) + rng.range(-1, 1) : rng.range(0, 800);
    }
    const bool on_disk = p.knobs["on_disk"] != 0;
    // swarm: per-run probabilities (percent) of the extras after each main-line period
    const int pr_split = (int)rng.range(10, 50), pr_fork = (int)rng.range(20, 70), pr_query = (int)rng.range(50, 95), pr_sweep = (int)rng.range(10, 40);
    const int pr_restart = on_disk ? (int)rng.range(5, 30) : 0, pr_inval = rng.chance(1, 2) ? (int)rng.range(3, 15) : 0, pr_clear = (int)rng.range(0, 20);
    const int pr_aim = (int)rng.range(20, 60), pr_noise = (int)rng.range(20, 80);
    int held = 0, invalidated = 0;
    int64_t budget = 1400;

    auto time_args = [&](Op& op) {
        if (rng.chance(pr_aim, 100)) {
            op.a[6] = T_AIM;
            op.a[7] = (int64_t)rng.pick({3, 4, 3}) - 1; // -1, 0, +1
        } else {
            int m = (int)rng.pick({25, 35, 20, 0, 8, 12});
            op.a[6] = m;
            op.a[7] = m == T_LEAP ? rng.skewed(1, 6 * W) : 0;
        }
    };
    auto noise = [&] { return (int64_t)((rng.chance(pr_noise, 100) ? 1 : 0) | (rng.chance(1, 3) ? 2 : 0) | (rng.chance(1, 4) ? 4 : 0)); };
    auto query = [&](int lo, int hi) {
        Op q;
        q.kind = OP_QUERY;
        q.a = {rng.range(lo, hi), (int64_t)(rng.next() >> 16), rng.chance(1, 3) ? (int64_t)ALL_KINDS : rng.range(1, ALL_KINDS), (int64_t)rng.below(3)};
        p.ops.push_back(q);
    };

    for (int per = 0; per < periods && budget > 0; ++per) {
        if (rng.chance(pr_split, 100)) {
            Op op;
            op.kind = OP_MINE;
            op.a = {0, 0, 2, rng.range(1, 143), -1, rng.range(0, 100), 0, 0, (int64_t)(rng.next() >> 16), 0, noise()};
            int m = (int)rng.pick({30, 40, 20, 0, 10, 0});
            op.a[6] = m;
            p.ops.push_back(op);
            if (rng.chance(1, 2)) query(2, 12);
        }
        {
            Op op;
            op.kind = OP_MINE;
            op.a = {0, 0, rng.chance(1, 6) ? 1 : 0, rng.range(1, 8), PickK(rng), rng.range(50, 95), 0, 0, (int64_t)(rng.next() >> 16), 0, noise()};
            time_args(op);
            p.ops.push_back(op);
            budget -= PERIOD;
        }
        // extras, in seeded order
        std::vector<int> extras;
        if (rng.chance(pr_fork, 100)) extras.push_back(0);
        if (rng.chance(pr_fork, 300)) extras.push_back(0);
        if (rng.chance(pr_query, 100)) extras.push_back(1);
        if (rng.chance(pr_query, 200)) extras.push_back(1);
        if (rng.chance(pr_sweep, 100)) extras.push_back(2);
        if (rng.chance(pr_restart, 100)) extras.push_back(3);
        if (rng.chance(pr_inval, 100)) extras.push_back(4);
        if (invalidated && rng.chance(1, 3)) extras.push_back(5);
        if (rng.chance(pr_clear, 100)) extras.push_back(6);
        if (held && rng.chance(1, 2)) extras.push_back(7);
        for (size_t i = extras.size(); i > 1; --i) std::swap(extras[i - 1], extras[rng.below(i)]);
        for (int x : extras) {
            Op op;
            switch (x) {
            case 0: {
                // fork off the active chain (mostly inside the last two periods), or off any block / another leaf
                op.kind = OP_MINE;
                int64_t depth = rng.chance(2, 3) ? rng.range(1, 150) : rng.skewed(1, 300);
                int pk = (int)rng.pick({70, 12, 18, 0});
                int64_t parent_kind = pk == 0 ? 3 : pk == 1 ? 1 : 2;
                int lm = (int)rng.pick({30, 30, 40});
                int64_t lp = lm == 1 ? rng.range(1, 12) : lm == 2 ? (rng.chance(1, 2) ? depth + rng.range(1, 3) : rng.range(1, 200)) : 0;
                op.a = {parent_kind, parent_kind == 3 ? depth : (int64_t)rng.below(100000), lm, lp, PickK(rng), rng.range(40, 95), 0, 0, (int64_t)(rng.next() >> 16), (int64_t)rng.pick({60, 25, 15}), noise()};
                time_args(op);
                if (op.a[9] == 2) ++held;
                budget -= lm == 2 ? lp : 100;
                break;
            }
            case 1: query(8, 48); continue;
            case 2:
                op.kind = OP_SWEEP;
                op.a = {(int64_t)rng.below(100000), (int64_t)rng.below(3), (int64_t)rng.below(N_CACHES), (int64_t)(rng.next() >> 16)};
                break;
            case 3: op.kind = OP_RESTART; break;
            case 4:
                op.kind = OP_INVALIDATE;
                op.a = {rng.chance(1, 2) ? rng.range(1, 150) : rng.skewed(1, 300)};
                ++invalidated;
                break;
            case 5:
                op.kind = OP_RECONSIDER;
                op.a = {(int64_t)rng.below(16)};
                break;
            case 6: op.kind = OP_CLEAR; break;
            case 7:
                op.kind = OP_DELIVER;
                op.a = {(int64_t)rng.below(100000), (int64_t)rng.below(2)};
                break;
            }
            p.ops.push_back(op);
        }
    }
    // closing: every chain once more, through a cache that has seen nothing, and through the warm one
    query(24, 64);
    for (int i = 0; i < 2; ++i) {
        Op op;
        op.kind = OP_SWEEP;
        op.a = {(int64_t)rng.below(100000), (int64_t)rng.below(3), i == 0 ? (int64_t)K_FRESH : (int64_t)K_NODE, (int64_t)(rng.next() >> 16)};
        p.ops.push_back(op);
    }
    return p;
}

// ------------------------------------------------------------------------------------------------------------
// Simulation
// ------------------------------------------------------------------------------------------------------------

/** What the real code answered for one block through one cache. */
struct Obs {
    std::string cur, next;
    int since{0};
    bool has_stats{false};
    BIP9Stats stats{};
    std::vector<bool> bits;
    std::optional<int> active_since;
    bool act_cur{false}, act_next{false};
    bool has_gbt{false};
    std::string gbt; //!< "signalling" | "locked_in" | "active" | "none"

    std::string Str() const
    {
        char b[200];
        snprintf(b, sizeof b, "%s/%s since=%d stats=%d(e%u c%u t%u p%d) as=%d act=%d%d gbt=%s", cur.c_str(), next.c_str(), since, (int)has_stats, stats.elapsed, stats.count, stats.threshold, (int)stats.possible,
                 active_since ? *active_since : -1, (int)act_cur, (int)act_next, has_gbt ? gbt.c_str() : "-");
        return b;
    }
};

struct VbSim {
    Ctx& ctx;
    Dep dep;
    std::unique_ptr<SimNode> node;
    std::unique_ptr<RefChain> ref;
    std::set<int> manual_invalid;
    std::vector<std::pair<int, int>> stale_failed; //!< (formerly invalidated ancestor, block whose reconsideration rehabilitated it)
    std::unique_ptr<VersionBitsCache> alt;
    ThresholdConditionCache raw;
    Dep cdep;                         //!< the custom deployment, as the model sees it
    Consensus::BIP9Deployment cbip;   //!< ... and as the real checker sees it
    ThresholdConditionCache craw;
    int64_t now{0};
    int64_t max_time{GENESIS_TIME};
    uint64_t cb_nonce{0};
    int64_t spacing{1};
    int max_blocks{1500};
    bool on_disk{false};
    uint64_t queries{0};
    bool boundary_evaluated{false};
    static constexpr Consensus::DeploymentPos ID = Consensus::DEPLOYMENT_TESTDUMMY;

    explicit VbSim(Ctx& c) : ctx(c) {}

    // ---- setup -------------------------------------------------------------------------------------------
    void Setup()
    {
        int sm = (int)ctx.knob("start_mode", 0);
        dep.mode = sm == 1 ? 1 : sm == 2 ? 2 : 0;
        dep.start = sm == 3 ? 0 : GENESIS_TIME + std::clamp<int64_t>(ctx.knob("start_off", 0), 0, 2'000'000'000);
        dep.no_timeout = ctx.knob("no_timeout", 0) != 0;
        dep.timeout = (sm == 3 ? 0 : GENESIS_TIME) + std::clamp<int64_t>(ctx.knob("timeout_off", 0), 0, 2'000'000'000);
        dep.mah = (int)std::clamp<int64_t>(ctx.knob("mah", 0), 0, 1'000'000);
        {
            int csm = (int)ctx.knob("c_start_mode", 0);
            cdep.mode = csm == 1 ? 1 : csm == 2 ? 2 : 0;
            cdep.start = csm == 3 ? 0 : GENESIS_TIME + std::clamp<int64_t>(ctx.knob("c_start_off", 0), 0, 2'000'000'000);
            cdep.no_timeout = ctx.knob("c_no_timeout", 0) != 0;
            cdep.timeout = (csm == 3 ? 0 : GENESIS_TIME) + std::clamp<int64_t>(ctx.knob("c_timeout_off", 0), 0, 2'000'000'000);
            cdep.mah = (int)std::clamp<int64_t>(ctx.knob("c_mah", 0), 0, 1'000'000);
            cdep.period = (int)std::clamp<int64_t>(ctx.knob("c_period", 8), 1, 400);
            cdep.threshold = (int)std::clamp<int64_t>(ctx.knob("c_threshold", 6), 0, cdep.period);
            cdep.bit = (int)std::clamp<int64_t>(ctx.knob("c_bit", 0), 0, 28);
            cbip.bit = cdep.bit;
            cbip.nStartTime = cdep.mode == 1 ? Consensus::BIP9Deployment::ALWAYS_ACTIVE : cdep.mode == 2 ? Consensus::BIP9Deployment::NEVER_ACTIVE : cdep.start;
            cbip.nTimeout = cdep.no_timeout ? Consensus::BIP9Deployment::NO_TIMEOUT : cdep.timeout;
            cbip.min_activation_height = cdep.mah;
            cbip.period = (uint32_t)cdep.period;
            cbip.threshold = (uint32_t)cdep.threshold;
        }
        spacing = std::clamp<int64_t>(ctx.knob("spacing", 1), 1, 10000);
        max_blocks = (int)std::clamp<int64_t>(ctx.knob("max_blocks", 1500), 1, 4000);
        on_disk = ctx.knob("on_disk", 0) != 0;

        NodeOpts o;
        o.dir = RunDir() + "/node0";
        o.coins_db_in_memory = !on_disk;
        o.block_tree_db_in_memory = !on_disk;
        o.with_mempool = false;
        o.check_block_index = 0; // O(#blocks) per delivered block; not what this engine decides
        if (ctx.knob("ibd", 0)) o.max_tip_age = std::chrono::seconds{-86400};
        CChainParams::VersionBitsParameters vb;
        vb.start_time = dep.mode == 1 ? Consensus::BIP9Deployment::ALWAYS_ACTIVE : dep.mode == 2 ? Consensus::BIP9Deployment::NEVER_ACTIVE : dep.start;
        vb.timeout = dep.no_timeout ? Consensus::BIP9Deployment::NO_TIMEOUT : dep.timeout;
        vb.min_activation_height = dep.mah;
        o.regtest.dep_opts.version_bits_parameters[ID] = vb;
        node = std::make_unique<SimNode>(o);
        now = GENESIS_TIME + 1000;
        SetMockTime(std::chrono::seconds{now});
        if (!node->Start()) ctx.failf("sim-node-start-failed", "%s", node->last_error.c_str());
        const auto& D = node->params->GetConsensus().vDeployments[ID];
        if ((int)D.period != PERIOD || (int)D.threshold != THRESHOLD || D.bit != BIT || D.nStartTime != vb.start_time || D.nTimeout != vb.timeout || D.min_activation_height != dep.mah)
            ctx.failf("sim-deployment-parameters-not-applied", "period=%u threshold=%u bit=%d start=%ld timeout=%ld mah=%d", D.period, D.threshold, D.bit, (long)D.nStartTime, (long)D.nTimeout, D.min_activation_height);
        ref = std::make_unique<RefChain>(node->params->GenesisBlock());
        alt = std::make_unique<VersionBitsCache>();
        if (dep.mode == 1) ctx.probe("cfg_always_active");
        if (dep.mode == 2) ctx.probe("cfg_never_active");
        if (dep.no_timeout) ctx.probe("cfg_no_timeout");
        if (dep.mode == 0 && !dep.no_timeout && dep.timeout <= dep.start) ctx.probe("cfg_timeout_not_after_start");
        ctx.evf("dep mode=%d start=%ld timeout=%ld%s mah=%d", dep.mode, (long)dep.start, (long)dep.timeout, dep.no_timeout ? "(none)" : "", dep.mah);
        ctx.evf("custom dep period=%d threshold=%d bit=%d mode=%d start=%ld timeout=%ld%s mah=%d", cdep.period, cdep.threshold, cdep.bit, cdep.mode, (long)cdep.start, (long)cdep.timeout, cdep.no_timeout ? "(none)" : "", cdep.mah);
    }

    // ---- tree helpers ------------------------------------------------------------------------------------
    int TipIdx() { return ref->Find(node->TipHash()); }
    std::vector<int> Leaves() const
    {
        std::vector<int> l;
        for (int i = 0; i < (int)ref->blocks.size(); ++i)
            if (ref->blocks[i].children.empty()) l.push_back(i);
        return l;
    }
    View ViewOf(int idx) const
    {
        View c;
        const int h = ref->blocks[idx].height;
        c.t.resize(h + 1);
        c.v.resize(h + 1);
        for (int i = idx; i >= 0; i = ref->blocks[i].parent) {
            c.t[ref->blocks[i].height] = ref->blocks[i].time;
            c.v[ref->blocks[i].height] = ref->blocks[i].block->nVersion;
        }
        return c;
    }
    bool UnderManualInvalidation(int idx) const
    {
        for (int m : manual_invalid)
            if (ref->IsAncestor(m, idx)) return true;
        // reconsidering a block clears the flags of its ancestors and descendants only: side branches of a formerly invalidated
        // ancestor keep their BLOCK_FAILED_CHILD flag, and whatever is built on them is refused with bad-prevblk
        for (auto& [m, via] : stale_failed)
            if (ref->IsAncestor(m, idx) && !ref->IsAncestor(idx, via) && !ref->IsAncestor(via, idx)) return true;
        return false;
    }
    const CBlockIndex* Pi(int idx)
    {
        LOCK(cs_main);
        return node->cm().m_blockman.LookupBlockIndex(ref->blocks[idx].hash);
    }
    void Clock(int64_t t)
    {
        if (t > now) {
            now = t;
            SetMockTime(std::chrono::seconds{now});
        }
    }
    void CheckFatal()
    {
        if (node->Fatal()) ctx.failf("sim-node-fatal-error", "%s", node->notifications->fatal_errors.empty() ? node->notifications->flush_errors[0].c_str() : node->notifications->fatal_errors[0].c_str());
    }

    // ---- delivery ----------------------------------------------------------------------------------------
    /** 0 = the node's block index does not know blocks[idx], 1 = header only, 2 = block data stored. */
    int Have(int idx)
    {
        LOCK(cs_main);
        const CBlockIndex* pi = node->cm().m_blockman.LookupBlockIndex(ref->blocks[idx].hash);
        return !pi ? 0 : (pi->nStatus & BLOCK_HAVE_DATA) ? 2 : 1;
    }

    /** Give blocks[idx] (and first whatever part of its ancestry the node does not have yet) to the node. */
    void Give(int idx, bool as_headers)
    {
        std::vector<int> path;
        for (int i = idx; i > 0 && Have(i) < (as_headers ? 1 : 2); i = ref->blocks[i].parent) path.push_back(i);
        std::reverse(path.begin(), path.end());
        if (path.empty()) return;
        const int tip_before = TipIdx();
        if (as_headers) {
            std::vector<CBlockHeader> hs;
            for (int i : path) hs.push_back(static_cast<const CBlockHeader&>(*ref->blocks[i].block));
            BlockValidationState st;
            bool ok = node->ProcessHeaders(hs, st);
            if (!ok && !UnderManualInvalidation(idx)) ctx.failf("sim-valid-header-rejected", "headers up to #%d (h=%d): %s", idx, ref->blocks[idx].height, st.ToString().c_str());
            ctx.probe("headers_only_delivery");
        } else {
            for (int i : path) {
                auto res = node->ProcessBlock(ref->blocks[i].block, /*force_processing=*/true);
                if (res.verdict && !res.verdict->valid && !UnderManualInvalidation(i))
                    ctx.failf("sim-valid-block-rejected", "block #%d (h=%d, version=0x%08x) rejected: %s", i, ref->blocks[i].height, (unsigned)ref->blocks[i].block->nVersion, res.verdict->reason.c_str());
            }
        }
        CheckFatal();
        NoteTipChange(tip_before);
    }

    void NoteTipChange(int tip_before)
    {
        const int t = TipIdx();
        if (t < 0 || tip_before < 0 || t == tip_before) return;
        if (!ref->IsAncestor(tip_before, t)) {
            ctx.probe("reorg");
            int fork = ref->ForkPoint(tip_before, t);
            if (ref->blocks[fork].height / PERIOD != ref->blocks[tip_before].height / PERIOD || ref->blocks[fork].height / PERIOD != ref->blocks[t].height / PERIOD) ctx.probe("reorg_across_period_boundary");
            if (dep.mode == 0) {
                MS a = ModelExpect(dep, ViewOf(tip_before)).cur, b = ModelExpect(dep, ViewOf(ref->Ancestor(t, std::min(ref->blocks[t].height, ref->blocks[tip_before].height)))).cur;
                if (a != b) ctx.probe("reorg_between_branches_in_different_states");
            }
        }
    }

    // ---- mining ------------------------------------------------------------------------------------------
    void Mine(const Op& op)
    {
        const int nblocks = (int)ref->blocks.size();
        int parent = 0;
        const int tip = std::max(0, TipIdx());
        switch (op.mod(0, 4)) {
        case 0: parent = tip; break;
        case 1: {
            auto l = Leaves();
            parent = l[op.mod(1, l.size())];
            break;
        }
        case 2: parent = (int)op.mod(1, nblocks); break;
        case 3: parent = ref->Ancestor(tip, std::max<int64_t>(0, ref->blocks[tip].height - std::clamp<int64_t>(op.arg(1), 0, 100000))); break;
        }
        const int ph = ref->blocks[parent].height;
        int n;
        const int to_end = PERIOD - 1 - ph % PERIOD; // blocks until the last block of the period of the next block
        const int to_end_next = (ph + 1) % PERIOD == 0 ? PERIOD : to_end;
        switch (op.mod(2, 3)) {
        case 0: n = to_end_next; break;
        case 1: n = to_end_next + (int)std::clamp<int64_t>(op.arg(3), 0, 50); break;
        default: n = (int)std::clamp<int64_t>(op.arg(3), 1, 300); break;
        }
        n = std::min({n, 300, max_blocks - nblocks});
        if (n <= 0) {
            ctx.ev("mine: block budget exhausted");
            return;
        }
        Rng r(mix64((uint64_t)op.arg(8), 0x6333));
        const int64_t K = std::clamp<int64_t>(op.arg(4), -1, PERIOD);
        const int pct = (int)std::clamp<int64_t>(op.arg(5), 0, 100);
        const int flags = (int)(op.arg(10) & 7);

        // -- which blocks signal: per period touched, aim at a total of K signalling blocks in that period
        std::vector<char> sig(n, 0);
        for (int i = 0; i < n;) {
            const int h = ph + 1 + i;
            int j = i;
            while (j < n && (ph + 1 + j) / PERIOD == h / PERIOD) ++j;
            const int cnt = j - i;
            if (K < 0) {
                for (int k = i; k < j; ++k) sig[k] = r.chance(pct, 100);
            } else {
                int c0 = 0;
                if (i == 0)
                    for (int a = parent; a >= 0 && ref->blocks[a].height / PERIOD == h / PERIOD; a = ref->blocks[a].parent) c0 += ModelSignals(ref->blocks[a].block->nVersion);
                int need = (int)std::clamp<int64_t>(K - c0, 0, cnt);
                std::vector<int> pos(cnt);
                for (int k = 0; k < cnt; ++k) pos[k] = i + k;
                for (int k = 0; k < need; ++k) {
                    std::swap(pos[k], pos[k + r.below(cnt - k)]);
                    sig[pos[k]] = 1;
                }
            }
            i = j;
        }

        // -- timestamps
        std::deque<int64_t> win; // times of the last <= 11 blocks of the chain being extended
        for (int a = parent, k = 0; a >= 0 && k < 11; a = ref->blocks[a].parent, ++k) win.push_front(ref->blocks[a].time);
        auto mtp = [&] {
            std::vector<int64_t> w(win.begin(), win.end());
            std::sort(w.begin(), w.end());
            return w[w.size() / 2];
        };
        const int mode = (int)op.mod(6, N_TIMEMODES);
        std::vector<int64_t> aim(n, -1);
        bool aimed = false;
        if (mode == T_AIM && dep.mode == 0) {
            int iL = -1;
            for (int i = 0; i < n; ++i)
                if ((ph + 1 + i) % PERIOD == PERIOD - 1) iL = i;
            const int ia = iL - 5;
            if (ia >= 0) {
                const int64_t base0 = std::max(ref->blocks[parent].time, mtp());
                const int m = ia + 1;
                const int64_t off = std::clamp<int64_t>(op.arg(7), -1, 1);
                int64_t T = -1;
                std::vector<int64_t> cands{dep.start};
                if (!dep.no_timeout) cands.push_back(dep.timeout);
                std::sort(cands.begin(), cands.end());
                for (int64_t c : cands)
                    if (c + off >= base0 + m && c + off < 4'000'000'000LL) { T = c + off; break; }
                if (T >= 0) {
                    const int j = (int)r.below(m);
                    for (int i = j; i <= ia; ++i) aim[i] = T - (ia - i);
                    aimed = true;
                }
            }
        }
        const int64_t leap = std::clamp<int64_t>(op.arg(7), 0, 50'000'000);
        std::vector<int> made;
        int prev = parent;
        for (int i = 0; i < n; ++i) {
            const int64_t pt = ref->blocks[prev].time, m = mtp();
            const int64_t mono = std::max(pt, m) + 1;
            int64_t t;
            if (aim[i] >= 0) t = std::max(aim[i], m + 1);
            else switch (mode) {
                case T_SPACED: t = mono + (int64_t)r.below(2 * spacing + 1); break;
                case T_JITTER: t = std::max(m + 1, pt + r.range(-3 * spacing - 2, 3 * spacing + 2)); break;
                case T_MINIMAL: t = m + 1; break;
                case T_LEAP: t = mono + (i == 0 ? leap : 0); break;
                default: t = mono; break;
                }
            if (t > 4'000'000'000LL) t = mono; // nTime is 32 bits
            if (t > 4'000'000'000LL) {
                ctx.ev("mine: timestamps exhausted");
                break;
            }
            int32_t version;
            uint32_t low = 0;
            if (flags & 1) {
                low = (uint32_t)r.below(32);                      // bits 0-4: the node's unknown-rules warning looks at them
                if (r.chance(1, 4)) low |= (uint32_t)r.next() & 0x0fffffe0u; // any other bit below 28
            }
            if (sig[i]) {
                version = (int32_t)(0x30000000u | low);
            } else {
                uint32_t base = 0x20000000u;
                if ((flags & 2) && r.chance(1, 2)) {
                    static const uint32_t decoy[] = {0x10000000u, 0x50000000u, 0x70000000u, 0x40000000u, 0x60000000u}; // bit 28 with wrong top bits / wrong top bits alone
                    base = decoy[r.below(5)];
                } else if ((flags & 4) && r.chance(1, 2)) {
                    base = 0;
                    low |= 4; // plain version >= 4
                }
                version = (int32_t)(base | (low & ~(1u << BIT)));
                if (version < 4) version = 4;
            }
            BlockExtras ex;
            ex.version = version;
            ex.cb_extranonce = (uint32_t)(++cb_nonce);
            ex.coinbase_spk = Keys().Spk(SK::OPRETURN, 0); // unspendable: the UTXO set stays empty, blocks stay cheap
            const int height = ref->blocks[prev].height + 1;
            auto block = BuildBlock(ref->blocks[prev].hash, height, t, {}, RefSubsidy(height, ref->halving_interval), ex, node->params->GetConsensus());
            int idx = ref->Add(block, prev, BlockLabel{});
            if (ref->blocks[idx].verdict != Verdict::VALID) ctx.failf("sim-generated-block-not-valid", "block #%d h=%d: %s", idx, height, ref->blocks[idx].reason.c_str());
            if (ModelSignals(version) != (bool)sig[i]) ctx.failf("sim-generator-signal-mismatch", "version 0x%08x", (unsigned)version);
            made.push_back(idx);
            win.push_back(t);
            if (win.size() > 11) win.pop_front();
            max_time = std::max(max_time, t);
            prev = idx;
        }
        if (made.empty()) return;
        Clock(max_time);
        if (aimed) ctx.probe("mtp_aimed_at_boundary");
        if (ref->blocks[parent].children.size() > 1) {
            ctx.probe("fork");
            if ((ph + 1) % PERIOD != 0) ctx.probe("fork_diverges_inside_period");
            // does the tree now hold two branches that are in different states at the same height?
            const int L = made.back();
            for (int other : Leaves()) {
                if (other == L || dep.mode != 0) continue;
                const int hh = std::min(ref->blocks[other].height, ref->blocks[L].height);
                const int a = ref->Ancestor(L, hh), b = ref->Ancestor(other, hh);
                if (a != b && ModelExpect(dep, ViewOf(a)).next != ModelExpect(dep, ViewOf(b)).next) {
                    ctx.probe("branches_in_different_states");
                    break;
                }
            }
        }
        const int dl = (int)op.mod(9, 3);
        if (dl == 0) Give(made.back(), false);
        else if (dl == 1) Give(made.back(), true);
        else ctx.probe("branch_held_back");
        const RefBlock& L = ref->blocks[made.back()];
        ctx.evf("mine %zu on #%d(h=%d) -> #%d h=%d %s t=%ld dl=%d tip=%d", made.size(), parent, ph, made.back(), L.height, L.hash.ToString().substr(0, 10).c_str(), (long)L.time, dl, TipIdx());
        NoteModelReach(made.back(), ph + 1);
        if (dl != 2) CheckBlock(made.back(), 1u << K_NODE, r.next(), "after mine");
    }

    /** Reach probes that depend only on the model's tree (what situations the workload constructed); counts the period ends
     *  at or above `from_height` of the chain ending in `leaf`, i.e. those the mining operation just created. */
    void NoteModelReach(int leaf, int from_height)
    {
        if (dep.mode != 0) return;
        View c = ViewOf(leaf);
        const int H = (int)c.t.size() - 1;
        std::vector<MS> st = ModelStates(dep, c, (H + 1) / PERIOD + 1);
        for (int p = 1; p < (int)st.size(); ++p) {
            const int last = PERIOD * p - 1;
            if (last < from_height) continue;
            const int64_t m = ModelMtp(c, last);
            if (st[p - 1] == M_DEFINED) {
                if (m == dep.start) ctx.probe("start_reached_exactly_at_boundary");
                if (m == dep.start - 1) ctx.probe("start_missed_by_one_at_boundary");
                if (m == dep.start + 1) ctx.probe("start_passed_by_one_at_boundary");
            }
            if (st[p - 1] == M_STARTED) {
                int count = 0;
                for (int h = last - PERIOD + 1; h <= last; ++h) count += ModelSignals(c.v[h]);
                if (count == THRESHOLD - 1) ctx.probe("period_count_107");
                if (count == THRESHOLD) ctx.probe("period_count_108");
                if (count == THRESHOLD + 1) ctx.probe("period_count_109");
                if (!dep.no_timeout) {
                    if (m == dep.timeout) ctx.probe("timeout_reached_exactly_at_boundary");
                    if (m == dep.timeout - 1) ctx.probe("timeout_missed_by_one_at_boundary");
                    if (m == dep.timeout + 1) ctx.probe("timeout_passed_by_one_at_boundary");
                    if (count >= THRESHOLD && m >= dep.timeout) ctx.probe("lockin_and_timeout_in_same_period");
                }
            }
            if (st[p - 1] == M_LOCKED_IN) {
                if (st[p] == M_LOCKED_IN) ctx.probe("activation_delayed_by_min_activation_height");
                if (PERIOD * p == dep.mah) ctx.probe("min_activation_height_exactly_at_boundary");
                if (PERIOD * p == dep.mah - 1) ctx.probe("min_activation_height_one_past_boundary");
            }
        }
    }

    // ---- observing the real code ---------------------------------------------------------------------------
    Obs ObserveCache(VersionBitsCache& cache, const CBlockIndex* pi, unsigned order)
    {
        const Consensus::Params& cp = node->params->GetConsensus();
        Obs o;
        for (unsigned k = 0; k < 4; ++k) {
            switch ((k + order) % 4) {
            case 0: {
                BIP9Info info = cache.Info(*pi, cp, ID);
                o.cur = info.current_state;
                o.next = info.next_state;
                o.since = info.since;
                o.has_stats = info.stats.has_value();
                if (info.stats) o.stats = *info.stats;
                o.bits = info.signalling_blocks;
                o.active_since = info.active_since;
                break;
            }
            case 1: o.act_cur = cache.IsActiveAfter(pi->pprev, cp, ID); break;
            case 2: o.act_next = cache.IsActiveAfter(pi, cp, ID); break;
            case 3: {
                BIP9GBTStatus g = cache.GBTStatus(*pi, cp);
                const std::string name = VersionBitsDeploymentInfo[ID].name;
                int n = (int)g.signalling.count(name) + (int)g.locked_in.count(name) + (int)g.active.count(name);
                o.has_gbt = true;
                o.gbt = n > 1 ? "several" : g.signalling.count(name) ? "signalling" : g.locked_in.count(name) ? "locked_in" : g.active.count(name) ? "active" : "none";
                break;
            }
            }
        }
        return o;
    }

    Obs ObserveRaw(const VersionBitsConditionChecker& chk, ThresholdConditionCache& raw, const CBlockIndex* pi, unsigned order)
    {
        Obs o;
        ThresholdState cur{}, next{};
        for (unsigned k = 0; k < 3; ++k) {
            switch ((k + order) % 3) {
            case 0: cur = chk.GetStateFor(pi->pprev, raw); break;
            case 1: next = chk.GetStateFor(pi, raw); break;
            case 2: o.since = chk.GetStateSinceHeightFor(pi->pprev, raw); break;
            }
        }
        o.cur = StateName(cur);
        o.next = StateName(next);
        o.act_cur = o.cur == "active";
        o.act_next = o.next == "active";
        o.has_stats = o.cur == "started" || o.cur == "locked_in";
        o.stats = chk.GetStateStatisticsFor(pi, &o.bits);
        if (!o.has_stats) o.bits.clear();
        if (o.act_cur) o.active_since = o.since;
        else if (o.act_next) o.active_since = pi->nHeight + 1;
        return o;
    }

    Obs Observe(int kind, const CBlockIndex* pi, unsigned order)
    {
        switch (kind) {
        case K_NODE: {
            Obs o = ObserveCache(node->cm().m_versionbitscache, pi, order);
            // the wrappers validation itself uses
            bool at = DeploymentActiveAt(*pi, node->cm(), ID), after = DeploymentActiveAfter(pi, node->cm(), ID);
            if (at != o.act_cur || after != o.act_next)
                ctx.failf("deployment-active-wrappers-disagree", "h=%d: DeploymentActiveAt=%d IsActiveAfter(pprev)=%d DeploymentActiveAfter=%d IsActiveAfter(block)=%d", pi->nHeight, (int)at, (int)o.act_cur, (int)after, (int)o.act_next);
            ctx.probe("query_warm_node_cache");
            return o;
        }
        case K_FRESH: {
            VersionBitsCache fresh;
            ctx.probe("query_fresh_cache");
            return ObserveCache(fresh, pi, order);
        }
        case K_ALT: ctx.probe("query_private_cache"); return ObserveCache(*alt, pi, order);
        default: ctx.probe("query_raw_checker"); return ObserveRaw(VersionBitsConditionChecker(node->params->GetConsensus(), ID), raw, pi, order);
        }
    }

    std::string Where(int idx, int kind, const char* where) const
    {
        static const char* kn[] = {"node cache", "fresh cache", "private cache", "raw checker+own map", "custom deployment (raw checker+own map)"};
        const Dep& d = kind == K_CUSTOM ? cdep : dep;
        char b[320];
        snprintf(b, sizeof b, "%s: block #%d h=%d (%s) via %s; dep period=%d threshold=%d bit=%d start=%ld timeout=%ld%s mah=%d mode=%d", where, idx, ref->blocks[idx].height, ref->blocks[idx].hash.ToString().substr(0, 10).c_str(),
                 kn[kind], d.period, d.threshold, d.bit, (long)d.start, (long)d.timeout, d.no_timeout ? "(none)" : "", d.mah, d.mode);
        return b;
    }

    void CompareWithModel(const Obs& o, const Expect& e, const Dep& d, int idx, int kind, const char* where)
    {
        const std::string w = Where(idx, kind, where);
        const int h = ref->blocks[idx].height;
        if (o.cur != kStateName[e.cur]) ctx.failf("state-differs-from-bip9-model", "%s: state %s, model %s [%s]", w.c_str(), o.cur.c_str(), kStateName[e.cur], o.Str().c_str());
        if (o.next != kStateName[e.next]) ctx.failf("next-state-differs-from-bip9-model", "%s: state of the next block %s, model %s [%s]", w.c_str(), o.next.c_str(), kStateName[e.next], o.Str().c_str());
        if (o.act_cur != (e.cur == M_ACTIVE)) ctx.failf("is-active-differs-from-bip9-model", "%s: IsActiveAfter(pprev)=%d, model state %s", w.c_str(), (int)o.act_cur, kStateName[e.cur]);
        if (o.act_next != (e.next == M_ACTIVE)) ctx.failf("is-active-differs-from-bip9-model", "%s: IsActiveAfter(block)=%d, model next state %s", w.c_str(), (int)o.act_next, kStateName[e.next]);
        if (o.has_gbt) {
            const char* want = e.next == M_STARTED ? "signalling" : e.next == M_LOCKED_IN ? "locked_in" : e.next == M_ACTIVE ? "active" : "none";
            if (o.gbt != want) ctx.failf("gbt-status-differs-from-bip9-model", "%s: GBTStatus lists the deployment as %s, model next state %s", w.c_str(), o.gbt.c_str(), kStateName[e.next]);
        }
        if (o.since != e.since) ctx.failf("since-height-wrong", "%s: state %s since %d, model %d", w.c_str(), o.cur.c_str(), o.since, e.since);
        if (o.has_stats != e.has_stats) ctx.failf("signalling-statistics-wrong", "%s: statistics %s in state %s", w.c_str(), o.has_stats ? "present" : "absent", o.cur.c_str());
        if (e.has_stats) {
            if ((int)o.stats.period != d.period || (int)o.stats.elapsed != e.elapsed || (int)o.stats.count != e.count)
                ctx.failf("signalling-statistics-wrong", "%s: period/elapsed/count %u/%u/%u, model %d/%d/%d", w.c_str(), o.stats.period, o.stats.elapsed, o.stats.count, d.period, e.elapsed, e.count);
            if (o.bits != e.bits) ctx.failf("signalling-statistics-wrong", "%s: per-block signalling flags differ from the model (%zu vs %zu entries)", w.c_str(), o.bits.size(), e.bits.size());
            // threshold/possible are only meaningful while STARTED (Info() blanks them once locked in)
            if (e.cur == M_STARTED && ((int)o.stats.threshold != d.threshold || o.stats.possible != e.possible))
                ctx.failf("signalling-statistics-wrong", "%s: threshold=%u possible=%d, model %d/%d (elapsed %d count %d)", w.c_str(), o.stats.threshold, (int)o.stats.possible, d.threshold, (int)e.possible, e.elapsed, e.count);
        } else if (!o.bits.empty()) {
            ctx.failf("signalling-statistics-wrong", "%s: signalling flags reported in state %s", w.c_str(), o.cur.c_str());
        }
        if (o.active_since) {
            if (!e.active_since_legal.count(*o.active_since)) ctx.failf("active-since-wrong", "%s: active_since=%d in state %s/%s (h=%d), model allows %s", w.c_str(), *o.active_since, o.cur.c_str(), o.next.c_str(), h,
                                                                        e.active_since_legal.empty() ? "none" : std::to_string(*e.active_since_legal.begin()).c_str());
        } else if (e.active_since_required) {
            ctx.failf("active-since-wrong", "%s: active_since missing in state %s/%s", w.c_str(), o.cur.c_str(), o.next.c_str());
        }
    }

    /** Query block idx through every cache in `mask`; answers must agree with each other and with the model. */
    void CheckBlock(int idx, unsigned mask, uint64_t orderseed, const char* where)
    {
        const CBlockIndex* pi = Pi(idx);
        if (!pi) {
            ctx.probe("query_skipped_block_not_in_index");
            return;
        }
        if (pi->nHeight != ref->blocks[idx].height || pi->nVersion != ref->blocks[idx].block->nVersion || (int64_t)pi->nTime != ref->blocks[idx].time)
            ctx.failf("sim-index-entry-differs-from-model", "#%d h=%d/%d", idx, pi->nHeight, ref->blocks[idx].height);
        Expect e = ModelExpect(dep, ViewOf(idx));
        std::optional<Obs> first;
        int first_kind = -1;
        Rng r(orderseed);
        std::vector<int> kinds;
        for (int k = 0; k < N_CACHES; ++k)
            if (mask & (1u << k)) kinds.push_back(k);
        for (size_t i = kinds.size(); i > 1; --i) std::swap(kinds[i - 1], kinds[r.below(i)]);
        for (int k : kinds) {
            Obs o = Observe(k, pi, (unsigned)r.below(12));
            ++queries;
            if (first) {
                const Obs& f = *first;
                bool same = f.cur == o.cur && f.next == o.next && f.since == o.since && f.has_stats == o.has_stats && f.bits == o.bits && f.active_since == o.active_since && f.act_cur == o.act_cur && f.act_next == o.act_next &&
                            (!f.has_stats || (f.stats.elapsed == o.stats.elapsed && f.stats.count == o.stats.count));
                if (!same)
                    ctx.failf("state-depends-on-query-history", "%s: [%s] but via %s [%s]; model %s/%s since %d", Where(idx, first_kind, where).c_str(), f.Str().c_str(), Where(idx, k, "").c_str(), o.Str().c_str(), kStateName[e.cur],
                              kStateName[e.next], e.since);
            } else {
                first = o;
                first_kind = k;
            }
            CompareWithModel(o, e, dep, idx, k, where);
            ctx.evf("q #%d h=%d k%d %s", idx, pi->nHeight, k, o.Str().c_str());
        }
        if (mask & (1u << K_CUSTOM)) {
            // the same block tree under a deployment with its own period / threshold / bit / times
            Expect ce = ModelExpect(cdep, ViewOf(idx));
            Obs o = ObserveRaw(VersionBitsConditionChecker(cbip), craw, pi, (unsigned)r.below(12));
            ++queries;
            CompareWithModel(o, ce, cdep, idx, K_CUSTOM, where);
            ctx.evf("q #%d h=%d custom %s", idx, pi->nHeight, o.Str().c_str());
            static const char* cseen[] = {"custom_state_defined", "custom_state_started", "custom_state_locked_in", "custom_state_active", "custom_state_failed"};
            ctx.probe(cseen[ce.cur]);
            if (ce.at_boundary && ce.next != ce.cur) ctx.probe("custom_transition_at_queried_boundary");
        }
        // reach
        static const char* seen[] = {"state_defined", "state_started", "state_locked_in", "state_active", "state_failed"};
        ctx.probe(seen[e.cur]);
        if (!(pi->nStatus & BLOCK_HAVE_DATA)) ctx.probe("query_header_only_block");
        if (e.at_boundary) {
            boundary_evaluated = true;
            if (e.next != e.cur) ctx.probe("transition_at_queried_boundary");
        }
        if (pi->nHeight >= PERIOD) boundary_evaluated = true;
        const int t = TipIdx();
        if (t >= 0 && !ref->IsAncestor(idx, t)) ctx.probe("query_block_off_active_chain");
    }

    // ---- ops ---------------------------------------------------------------------------------------------
    void Query(const Op& op)
    {
        const int n = (int)std::clamp<int64_t>(op.arg(0), 1, 64);
        Rng r(mix64((uint64_t)op.arg(1), 0x7175));
        unsigned mask = (unsigned)(op.arg(2) & ALL_KINDS);
        if (!mask) mask = ALL_KINDS;
        const int bias = (int)op.mod(3, 3);
        const int nb = (int)ref->blocks.size();
        auto leaves = Leaves();
        for (int i = 0; i < n; ++i) {
            int idx;
            int mode = bias == 0 ? (int)r.below(3) : bias;
            if (mode == 0) {
                idx = (int)r.below(nb);
            } else if (mode == 1) {
                // around a period boundary of some chain
                int leaf = r.chance(1, 2) ? leaves[r.below(leaves.size())] : (int)r.below(nb);
                int H = ref->blocks[leaf].height;
                int nper = (H + 2) / PERIOD;
                if (nper == 0) idx = leaf;
                else {
                    int hh = (int)(PERIOD * r.range(1, nper) + r.range(-2, 1));
                    idx = ref->Ancestor(leaf, std::clamp(hh, 0, H));
                }
            } else {
                idx = nb - 1 - (int)r.below(std::min(nb, 12));
            }
            CheckBlock(idx, mask, r.next(), "query");
        }
        ctx.probe("queries_in_seeded_order");
    }

    void Sweep(const Op& op)
    {
        auto leaves = Leaves();
        const int leaf = leaves[op.mod(0, leaves.size())];
        const int order = (int)op.mod(1, 3), kind = (int)op.mod(2, N_CACHES);
        Rng r(mix64((uint64_t)op.arg(3), 0x7377));
        const int H = ref->blocks[leaf].height;
        // chain as a vector by height
        std::vector<int> chain(H + 1);
        for (int i = leaf; i >= 0; i = ref->blocks[i].parent) chain[ref->blocks[i].height] = i;
        std::vector<int> hs;
        for (int p = 0; p * PERIOD <= H; ++p) {
            int lo = p * PERIOD, hi = std::min(H, lo + PERIOD - 1);
            hs.push_back(lo);
            if (hi > lo) hs.push_back(hi);
            if (hi > lo + 1) hs.push_back((int)r.range(lo + 1, hi - 1));
        }
        if (order == 1) std::sort(hs.rbegin(), hs.rend());
        else if (order == 2)
            for (size_t i = hs.size(); i > 1; --i) std::swap(hs[i - 1], hs[r.below(i)]);
        else std::sort(hs.begin(), hs.end());
        // a cache that is fresh for the sweep as a whole (not per query): rebuild the private one
        unsigned mask = 1u << kind;
        if (kind == K_FRESH) {
            alt = std::make_unique<VersionBitsCache>();
            mask = 1u << K_ALT;
        }
        // first the statement's direct clauses, on the real answers alone (queried in the sweep's order) ...
        std::map<int, std::string> state_at; // height -> state reported by the real code
        for (int h : hs) {
            const CBlockIndex* pi = Pi(chain[h]);
            if (!pi) continue;
            VersionBitsCache& c = kind == K_NODE ? node->cm().m_versionbitscache : *alt;
            state_at[h] = c.Info(*pi, node->params->GetConsensus(), ID).current_state;
            ++queries;
        }
        std::string prev_state;
        int prev_period = -1;
        for (auto& [h, s] : state_at) {
            const int p = h / PERIOD;
            if (p == prev_period && s != prev_state) ctx.failf("state-differs-within-period", "chain of leaf #%d: height %d is %s but an earlier block of the same period is %s", leaf, h, s.c_str(), prev_state.c_str());
            if (p != prev_period && (prev_state == "active" || prev_state == "failed") && s != prev_state)
                ctx.failf("terminal-state-left", "chain of leaf #%d: period %d is %s after period %d was %s", leaf, p, s.c_str(), prev_period, prev_state.c_str());
            prev_state = s;
            prev_period = p;
        }
        // ... then every answer against the model
        for (int h : hs) CheckBlock(chain[h], mask | (1u << K_CUSTOM), r.next(), "sweep");
        ctx.probe("chain_swept");
        std::string seq;
        for (auto& [h, st] : state_at) seq += st.empty() ? '?' : st[0];
        ctx.evf("sweep leaf #%d H=%d order=%d kind=%d states=%s", leaf, H, order, kind, seq.c_str());
    }

    void Restart()
    {
        if (!on_disk) return;
        const int before = TipIdx();
        node->Stop(/*clean=*/true);
        raw.clear(); // keyed by CBlockIndex pointers of the node that is gone
        craw.clear();
        alt = std::make_unique<VersionBitsCache>();
        if (!node->Start()) ctx.failf("sim-restart-failed", "%s", node->last_error.c_str());
        ctx.fault("clean_restart_cold_cache");
        ctx.evf("restart tip=%d (was %d)", TipIdx(), before);
    }

    void Invalidate(const Op& op)
    {
        const int tip = TipIdx();
        if (tip <= 0) return;
        const int depth = (int)std::clamp<int64_t>(op.arg(0), 1, 400);
        const int idx = ref->Ancestor(tip, std::max(1, ref->blocks[tip].height - depth + 1));
        if (idx <= 0) return;
        CBlockIndex* pi = WITH_LOCK(cs_main, return node->cm().m_blockman.LookupBlockIndex(ref->blocks[idx].hash));
        if (!pi) return;
        BlockValidationState st, st2;
        node->cs().InvalidateBlock(st, pi);
        node->cs().ActivateBestChain(st2);
        node->DrainSignals();
        manual_invalid.insert(idx);
        CheckFatal();
        ctx.fault("invalidateblock_reorg");
        ctx.evf("invalidate #%d h=%d -> tip=%d", idx, ref->blocks[idx].height, TipIdx());
        NoteTipChange(tip);
    }

    void Reconsider(const Op& op)
    {
        if (manual_invalid.empty()) return;
        auto it = manual_invalid.begin();
        std::advance(it, op.mod(0, manual_invalid.size()));
        const int idx = *it;
        const int tip = TipIdx();
        CBlockIndex* pi = WITH_LOCK(cs_main, return node->cm().m_blockman.LookupBlockIndex(ref->blocks[idx].hash));
        if (!pi) return;
        {
            LOCK(cs_main);
            node->cs().ResetBlockFailureFlags(pi);
            node->cm().RecalculateBestHeader();
        }
        BlockValidationState st;
        node->cs().ActivateBestChain(st);
        node->DrainSignals();
        // ResetBlockFailureFlags clears the flags of the block's ancestors and descendants as well
        for (auto j = manual_invalid.begin(); j != manual_invalid.end();) {
            if (*j != idx && ref->IsAncestor(*j, idx)) stale_failed.emplace_back(*j, idx);
            j = (ref->IsAncestor(*j, idx) || ref->IsAncestor(idx, *j)) ? manual_invalid.erase(j) : std::next(j);
        }
        CheckFatal();
        ctx.probe("reconsiderblock");
        ctx.evf("reconsider #%d -> tip=%d", idx, TipIdx());
        NoteTipChange(tip);
    }

    uint64_t Fingerprint()
    {
        const int t = std::max(0, TipIdx());
        View c = ViewOf(t);
        uint64_t h = mix64(ref->blocks.size(), (uint64_t)t);
        if (dep.mode == 0)
            for (MS s : ModelStates(dep, c, ((int)c.t.size()) / PERIOD + 1)) h = mix64(h, (uint64_t)s + 1);
        else h = mix64(h, dep.mode);
        h = mix64(h, ref->blocks[t].hash.GetUint64(0));
        h = mix64(h, manual_invalid.size());
        return h;
    }

    void Run()
    {
        Setup();
        for (const Op& op : ctx.plan.ops) {
            switch (op.kind) {
            case OP_MINE: Mine(op); break;
            case OP_DELIVER: {
                auto l = Leaves();
                int leaf = l[op.mod(0, l.size())];
                Give(leaf, op.arg(1) & 1);
                ctx.evf("deliver leaf #%d as %s tip=%d", leaf, op.arg(1) & 1 ? "headers" : "blocks", TipIdx());
                break;
            }
            case OP_QUERY: Query(op); break;
            case OP_SWEEP: Sweep(op); break;
            case OP_RESTART: Restart(); break;
            case OP_INVALIDATE: Invalidate(op); break;
            case OP_RECONSIDER: Reconsider(op); break;
            case OP_CLEAR:
                node->cm().m_versionbitscache.Clear();
                ctx.fault("node_cache_cleared");
                ctx.ev("clear node cache");
                break;
            default: break;
            }
            // after every operation: the active tip through the node's own cache
            const int t = TipIdx();
            if (t < 0) ctx.failf("sim-tip-unknown-block", "active tip is not a generated block");
            CheckBlock(t, ALL_KINDS, mix64(ref->blocks.size(), op.kind), "active tip after op");
            ctx.fingerprint(Fingerprint());
        }
        ctx.nontrivial = queries > 0 && boundary_evaluated;
        ctx.sim_ms = (uint64_t)std::max<int64_t>(0, max_time - GENESIS_TIME) * 1000;
        node->Stop(false);
    }
};

void Run(Ctx& ctx)
{
    VbSim s(ctx);
    s.Run();
}

Engine MakeEngine()
{
    Engine e;
    e.prop = "C53";
    e.name = "nodesim/versionbits";
    e.level = "exploration";
    e.gen = Gen;
    e.run = Run;
    e.describe = Describe;
    e.chunk = 20;
    e.quick_runs = 3000;
    e.thorough_runs = 70000;
    e.quick_budget_s = 50;
    e.thorough_budget_s = 900;
    e.rule = "each run = one real regtest node whose DEPLOYMENT_TESTDUMMY parameters are drawn per run (start/timeout as median-time values relative to the generated timestamps, timeout before/after start or none, "
             "min_activation_height 0 / on a period boundary +-1 / anywhere, ALWAYS_ACTIVE, NEVER_ACTIVE, start=0; period 144, threshold 108) and a seeded block tree of 4-8 periods (up to 1500 empty blocks): per period "
             "a chosen total of signalling blocks (107/108/109/0/144/random) with decoy versions (bit 28 with top bits other than 001, plain version 4, random low bits), timestamps +1 s / spaced / jittering back to MTP+1 / "
             "leaping / steered so that the median time past of a period's last block equals start or timeout -1/0/+1; forks off the active chain inside a period or off any block, delivered as blocks (reorg when longer), "
             "headers only, or held back; invalidateblock/reconsiderblock; clean restarts (on-disk runs) and VersionBitsCache::Clear; IBD knob (node itself consults the cache on tip updates only outside IBD). "
             "Queries (Info, IsActiveAfter, GBTStatus, DeploymentActiveAt/After; raw GetStateFor/GetStateSinceHeightFor/GetStateStatisticsFor) in seeded order over blocks near period boundaries, anywhere, recent, on and off the "
             "active chain, header-only, through the node's warm cache, a cache built for the query, a run-long private cache and a raw checker with its own map; chain sweeps ascending/descending/shuffled; every queried block is also "
             "evaluated under a second per-run deployment (period 1-200, threshold 0..period, bit 0-28, own start/timeout/min_activation_height) through a raw checker. "
             "non-trivial = at least one query evaluated a block at height >= 144 (a period transition was computed by the real code); distinct = distinct (tip, #blocks, model state sequence of the active chain, "
             "#manual invalidations) fingerprints after an operation (first 64 per run).";
    e.real_components = {"VersionBitsCache (Info, IsActiveAfter, GBTStatus, Clear) and AbstractThresholdConditionChecker/VersionBitsConditionChecker (versionbits.cpp, versionbits_impl.h)", "deploymentstatus.h wrappers",
                         "CChainParams::RegTest(version_bits_parameters)", "ChainstateManager/Chainstate incl. UpdateTip -> CheckUnknownActivations (warms the cache), CBlockIndex tree with skip list (GetAncestor, GetMedianTimePast)",
                         "BlockManager + block index DB (restart)"};
    e.stub_components = {"peers (blocks/headers handed to ProcessNewBlock/ProcessNewBlockHeaders)", "wall clock (SetMockTime)", "ValidationSignals task runner (immediate)", "mempool (none attached)"};
    e.assumptions = {"the reference is an own BIP9 model over RefChain's tree (period states recomputed from genesis for every query, no memo); ALWAYS_ACTIVE is read as ACTIVE and NEVER_ACTIVE as FAILED for every block (consensus/params.h)",
                     "only chains the node accepts are quantified over: block time > median time past of the parent (so median time past is monotone along a chain), nVersion >= 4 and non-negative",
                     "`since`, signalling statistics (period/elapsed/count/per-block flags; threshold/possible only while STARTED) and active_since are checked as documented in versionbits.h; a future activation height reported while "
                     "LOCKED_IN is accepted if it is the right one ('if known')",
                     "the node's own deployment has period 144 / threshold 108 / bit 28 (regtest TESTDUMMY, fixed by chainparams); other periods (1-200), thresholds (0..period) and bits are covered by a second per-run deployment "
                     "evaluated over the node's block index through a VersionBitsConditionChecker and ThresholdConditionCache built by the harness (the same GetStateFor/GetStateSinceHeightFor/GetStateStatisticsFor code, not through VersionBitsCache)"};
    e.expected_probes = {"state_defined", "state_started", "state_locked_in", "state_active", "state_failed", "period_count_107", "period_count_108", "period_count_109", "start_reached_exactly_at_boundary",
                         "start_missed_by_one_at_boundary", "start_passed_by_one_at_boundary", "timeout_reached_exactly_at_boundary", "timeout_missed_by_one_at_boundary", "timeout_passed_by_one_at_boundary",
                         "lockin_and_timeout_in_same_period", "activation_delayed_by_min_activation_height", "min_activation_height_exactly_at_boundary", "min_activation_height_one_past_boundary", "fork_diverges_inside_period", "branches_in_different_states",
                         "reorg", "reorg_across_period_boundary", "reorg_between_branches_in_different_states", "clean_restart_cold_cache", "node_cache_cleared", "invalidateblock_reorg", "query_fresh_cache",
                         "query_warm_node_cache", "query_private_cache", "query_raw_checker", "query_header_only_block", "query_block_off_active_chain", "cfg_always_active", "cfg_never_active", "chain_swept", "custom_state_defined", "custom_state_started", "custom_state_locked_in", "custom_state_active",
                         "custom_state_failed", "custom_transition_at_queried_boundary"};
    return e;
}
Engine g_engine = MakeEngine();
SIM_REGISTER_ENGINE(g_engine);

} // namespace
