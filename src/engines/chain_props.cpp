// Chain-history properties decided by the shared nodesim chain workload (src/nodesim/chainsim.*):
//   C08 most-work valid chain, C01 no coins beyond subsidy, C02 spend once and only if exists,
//   C05 timelocks/maturity exact, C09 UTXO set is a function of the active chain.
#include "../core/sim.h"
#include "../nodesim/chainsim.h"

using namespace sim;
using namespace nodesim;

namespace {

const std::vector<std::string> kReal = {"ChainstateManager/Chainstate (validation.cpp)", "BlockManager + flat files", "CCoinsViewCache/CCoinsViewDB + LevelDB", "script interpreter, sigcache", "CheckBlock/ContextualCheck*/ConnectBlock/DisconnectBlock", "CTxMemPool (attached)"};
const std::vector<std::string> kStub = {"peers (blocks/headers handed to ProcessNewBlock/ProcessNewBlockHeaders in seeded order)", "wall clock (SetMockTime)", "ValidationSignals task runner (immediate)", "script/prevout worker threads (0)"};
const std::vector<std::string> kAssume = {"reference model RefChain (own merkle, subsidy, BIP30/34/68/113, maturity, value rules) is correct; script validity of generated spends comes from the generator's label",
                                          "regtest parameters (equal work per block, halving interval 150)"};

template <const char* BIAS>
Plan GenBias(uint64_t seed, Tier tier) { return GenChainPlan(seed, tier, BIAS); }

constexpr char kC08[] = "c08";
constexpr char kC01[] = "c01";
constexpr char kC02[] = "c02";
constexpr char kC05[] = "c05";
constexpr char kC09[] = "c09";

void RunC08(Ctx& ctx) { ChainSimConfig c; ChainSim(ctx, c).Run(); }
void RunC01(Ctx& ctx) { ChainSimConfig c; c.check_utxo_equal = true; c.check_supply = true; ChainSim(ctx, c).Run(); }
void RunC02(Ctx& ctx) { ChainSimConfig c; c.check_utxo_equal = true; c.check_reject_leaves_state = true; ChainSim(ctx, c).Run(); }
void RunC05(Ctx& ctx) { ChainSimConfig c; ChainSim(ctx, c).Run(); }
void RunC09(Ctx& ctx) { ChainSimConfig c; c.check_utxo_equal = true; ChainSim(ctx, c).Run(); }

Engine Make(const char* prop, const char* name, Plan (*gen)(uint64_t, Tier), void (*run)(Ctx&), const std::string& rule, std::vector<std::string> probes, int quick, int thorough)
{
    Engine e;
    e.prop = prop;
    e.name = name;
    e.level = "exploration";
    e.gen = gen;
    e.run = run;
    e.describe = DescribeChainOp;
    e.chunk = 1;
    e.quick_runs = quick;
    e.thorough_runs = thorough;
    e.quick_budget_s = 70;
    e.thorough_budget_s = 1200;
    e.rule = rule;
    e.real_components = kReal;
    e.stub_components = kStub;
    e.assumptions = kAssume;
    e.expected_probes = std::move(probes);
    return e;
}

const std::string kCommon = "seeded block-tree histories on a real regtest node: base chain of 101-149 blocks, then 15-90 operations (mine on recent/any block with 0-6 generated "
                            "transactions and at most one labelled defect or boundary shape; deliver block/header in any order, duplicates, forced or unrequested; invalidateblock/reconsiderblock; "
                            "clean restart on on-disk runs; flush modes; clock steps) with per-run knobs (on-disk vs in-memory DBs, coins cache size, coins batch size); "
                            "oracle evaluated after every operation against RefChain; non-trivial = the active tip changed at least once after the base chain; "
                            "distinct = distinct (tip, manual-invalidation set, #blocks) fingerprints (first 64 per run). ";

Engine g_c08 = Make("C08", "nodesim/chain-most-work", GenBias<kC08>, RunC08,
                    kCommon + "C08 bias: 20-60% forks, every defect kind, header-first and withheld deliveries, manual invalidation.",
                    {"reorg", "reorg_depth_ge_3", "invalidateblock", "reconsiderblock", "node_rejected_block", "model_invalid_block", "duplicate_delivery"}, 2500, 60000);
Engine g_c01 = Make("C01", "nodesim/chain-supply", GenBias<kC01>, RunC01,
                    kCommon + "C01 bias: value defects (coinbase +1 sat, in<out by 1 sat, output > MAX_MONEY, negative output, output-sum overflow), exact-claim coinbases, histories crossing the halving at 150; "
                              "UTXO set compared coin-for-coin with the model after every tip change and its total against the subsidy sum.",
                    {"defect_cb_overpay", "defect_in_below_out", "halving_crossed", "utxo_compared", "node_rejected_block", "reorg"}, 1500, 40000);
Engine g_c02 = Make("C02", "nodesim/chain-spend", GenBias<kC02>, RunC02,
                    kCommon + "C02 bias: spend defects (missing, already spent, created later in the block, duplicate input, double spend within a block, unspendable output); UTXO compared after every tip change.",
                    {"defect_spent_input", "defect_later_in_block", "defect_dup_input", "defect_double_spend_in_block", "defect_spend_unspendable", "node_rejected_block", "utxo_compared"}, 1500, 40000);
Engine g_c05 = Make("C05", "nodesim/chain-timelocks", GenBias<kC05>, RunC05,
                    kCommon + "C05 bias: nLockTime at height/MTP boundary and one short, BIP68 height/time locks exactly satisfied and one short (512 s granularity from the MTP of the block before the coin's), coinbase spends at depth 99/100, block time at MTP and MTP+1.",
                    {"defect_nonfinal_height", "defect_nonfinal_time", "defect_bip68_height", "defect_bip68_time", "defect_premature_coinbase", "boundary_locktime_height", "boundary_locktime_time",
                     "boundary_bip68_height", "boundary_bip68_time", "boundary_coinbase_depth_100"}, 2000, 50000);
Engine g_c09 = Make("C09", "nodesim/chain-utxo", GenBias<kC09>, RunC09,
                    kCommon + "C09 bias: 30-60% forks with transactions spending across fork points, invalidateblock-driven disconnects, forced flushes between connect and disconnect; UTXO set read through a CCoinsViewDB cursor and compared coin-for-coin (value, script, height, coinbase flag) with the model's UTXO(tip) after every tip change.",
                    {"reorg", "reorg_depth_ge_3", "utxo_compared", "invalidateblock", "clean_restart"}, 1500, 40000);

SIM_REGISTER_ENGINE(g_c08);
SIM_REGISTER_ENGINE(g_c01);
SIM_REGISTER_ENGINE(g_c02);
SIM_REGISTER_ENGINE(g_c05);
SIM_REGISTER_ENGINE(g_c09);

} // namespace
